"""Brace/string/comment-aware scanner for Rust source text.

Only what the weaver needs: mask comments and literals, match braces, find items
(fn / struct / enum / trait / impl / type / const) and loop headers.  No parsing of
expressions.  Everything works on character offsets of the original text so that
extracted items are byte-for-byte copies of the repository source.
"""
import re


class ScanError(Exception):
    pass


def mask(text):
    """Return text of identical length where comments and the contents of string /
    char literals are replaced by spaces (newlines kept)."""
    out = list(text)
    n = len(text)
    i = 0

    def blank(a, b):
        for k in range(a, b):
            if out[k] != '\n':
                out[k] = ' '

    while i < n:
        c = text[i]
        if c == '/' and i + 1 < n and text[i + 1] == '/':
            j = text.find('\n', i)
            if j < 0:
                j = n
            blank(i, j)
            i = j
        elif c == '/' and i + 1 < n and text[i + 1] == '*':
            depth = 1
            j = i + 2
            while j < n and depth > 0:
                if text.startswith('/*', j):
                    depth += 1
                    j += 2
                elif text.startswith('*/', j):
                    depth -= 1
                    j += 2
                else:
                    j += 1
            blank(i, j)
            i = j
        elif c == '"' or (c in 'rb' and re.match(r'(br|b|r)?#*"', text[i:i + 8]) and (i == 0 or not (text[i - 1].isalnum() or text[i - 1] == '_'))):
            m = re.match(r'(br|b|r)?(#*)"', text[i:i + 8])
            if not m:
                i += 1
                continue
            raw = m.group(1) in ('r', 'br')
            hashes = m.group(2)
            if hashes and not raw:
                i += 1
                continue
            j = i + m.end()
            if raw:
                endtok = '"' + hashes
                k = text.find(endtok, j)
                if k < 0:
                    raise ScanError('unterminated raw string')
                blank(j, k)
                i = k + len(endtok)
            else:
                k = j
                while k < n and text[k] != '"':
                    if text[k] == '\\':
                        k += 1
                    k += 1
                blank(j, k)
                i = k + 1
        elif c == "'":
            # char literal or lifetime
            m = re.match(r"'(\\x[0-9a-fA-F]{2}|\\u\{[0-9a-fA-F_]+\}|\\.|[^\\'])'", text[i:i + 14])
            if m:
                blank(i + 1, i + m.end() - 1)
                i += m.end()
            else:
                i += 1
        else:
            i += 1
    return ''.join(out)


OPEN = {'{': '}', '(': ')', '[': ']'}
CLOSE = {'}': '{', ')': '(', ']': '['}


def match_close(masked, i):
    """i points at an opening bracket; return index of the matching closing one."""
    stack = []
    n = len(masked)
    k = i
    while k < n:
        c = masked[k]
        if c in OPEN:
            stack.append(c)
        elif c in CLOSE:
            if not stack or stack[-1] != CLOSE[c]:
                raise ScanError('unbalanced bracket at %d' % k)
            stack.pop()
            if not stack:
                return k
        k += 1
    raise ScanError('no closing bracket for %d' % i)


def line_of(text, off):
    return text.count('\n', 0, off) + 1


def line_start(text, off):
    return text.rfind('\n', 0, off) + 1


class Src:
    def __init__(self, path, text=None):
        self.path = path
        if text is None:
            with open(path, encoding='utf-8') as f:
                text = f.read()
        self.text = text
        self.masked = mask(text)

    def _item_start(self, off):
        """Extend backwards from the line containing `off` over attribute and doc lines."""
        s = line_start(self.text, off)
        while s > 0:
            p = line_start(self.text, s - 1)
            prev = self.text[p:s - 1].strip()
            if prev.startswith('#[') or prev.startswith('///') or prev.startswith('#!['):
                s = p
            else:
                break
        return s

    def _body_open(self, off, hi):
        """First '{' or ';' at bracket depth 0 after off (angle brackets ignored)."""
        k = off
        m = self.masked
        depth = 0
        while k < hi:
            c = m[k]
            if c in '([':
                depth += 1
            elif c in ')]':
                depth -= 1
            elif depth == 0 and c in '{;':
                return k
            k += 1
        raise ScanError('no body for item at %d in %s' % (off, self.path))

    def find(self, kind, name, lo=0, hi=None, nth=0):
        """Locate an item.  Returns dict(start, sig_end, end) where text[start:end] is the
        whole item, text[sig_end] is its '{' (or ';')."""
        hi = len(self.text) if hi is None else hi
        if kind == 'fn':
            pat = r'\bfn\s+%s\b' % re.escape(name)
        elif kind in ('struct', 'enum', 'trait', 'type', 'const', 'static', 'mod'):
            pat = r'\b%s\s+%s\b' % (kind, re.escape(name))
        elif kind == 'impl':
            # name is a regex for the header following the keyword `impl`
            pat = r'\bimpl\b\s*%s' % name
        else:
            raise ScanError('unknown kind ' + kind)
        ms = [m for m in re.finditer(pat, self.masked[lo:hi])]
        # keep only matches at item position (the keyword is preceded on its line by visibility / qualifiers only)
        good = []
        for m in ms:
            off = lo + m.start()
            ls = line_start(self.text, off)
            prefix = self.masked[ls:off].strip()
            if re.fullmatch(r'((pub(\s*\([^)]*\))?|async|const|unsafe|default|extern(\s*"[^"]*")?)\s*)*', prefix):
                good.append(off)
        if len(good) <= nth:
            raise ScanError('%s %s not found in %s (matches: %d)' % (kind, name, self.path, len(good)))
        off = good[nth]
        start = self._item_start(off)
        open_ = self._body_open(off, hi)
        if self.masked[open_] == ';':
            end = open_ + 1
        else:
            end = match_close(self.masked, open_) + 1
        return dict(start=start, kw=off, sig_end=open_, end=end)


LOOP_RE = re.compile(r'\b(while|loop|for)\b')


def find_loops(masked_body):
    """Offsets (keyword_off, brace_off) of every loop in a masked function body, in text order."""
    res = []
    for m in LOOP_RE.finditer(masked_body):
        kw = m.start()
        # skip `for<'a>` HRTB and `impl X for Y` (not in bodies normally)
        k = m.end()
        depth = 0
        n = len(masked_body)
        brace = None
        while k < n:
            c = masked_body[k]
            if c in '([':
                depth += 1
            elif c in ')]':
                depth -= 1
            elif c == '{' and depth == 0:
                brace = k
                break
            elif c == ';' and depth == 0:
                break
            k += 1
        if brace is not None:
            res.append((kw, brace))
    return res
