#!/bin/sh
# run the quick (or $1) tier of every claimed check on /repo as it is, one after the other; summary at the end
TIER=${1:-quick}; shift
LIST=${@:-$(python3 -c "import json;print(' '.join(c['property_id'] for c in json.load(open('/verif/MANIFEST.json'))['checks']))")}
cd /verif
for c in $LIST; do
  s=$(date +%s)
  ./check $c --tier $TIER > /tmp/runall-$c.log 2>&1; rc=$?
  e=$(date +%s)
  echo "$c rc=$rc $((e-s))s $(grep -cE '^VIOLATION' /tmp/runall-$c.log) violations $(grep -cE '^KNOWN-FINDING' /tmp/runall-$c.log) known $(grep -cE '^UNDECIDED' /tmp/runall-$c.log) undecided"
done
