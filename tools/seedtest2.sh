#!/bin/sh
# usage: seedtest2.sh <patch.diff> <Cxx> [<Cyy> ...]
# applies a seeded change to a private worktree of the fixed tree and runs the checks against it (VERIF_REPO),
# so that /repo itself is never touched.  BASE = commit to test against (default: HEAD of /repo)
P="$1"; shift
BASE=${BASE:-$(git -C /repo rev-parse HEAD)}
W=/tmp/repo-mut-$$
git -C /repo worktree add -q --detach $W $BASE || exit 9
cd $W
if ! git apply --3way "$P" 2>/tmp/seed_apply.err; then echo "PATCH DOES NOT APPLY: $P"; cat /tmp/seed_apply.err; cd /; git -C /repo worktree remove --force $W; exit 9; fi
for c in "$@"; do
  echo "== $c with $(basename $(dirname $P))/$(basename $P)"
  (cd /verif && VERIF_REPO=$W timeout 3000 ./check $c ${SEED_ARGS} 2>&1 | grep -E "VIOLATION|KNOWN-FINDING|UNDECIDED|OK:|failing" | cut -c1-300)
done
cd /; git -C /repo worktree remove --force $W
