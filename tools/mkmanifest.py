#!/usr/bin/env python3
"""regenerate MANIFEST.json from tools/registry.py (claimed properties) and tools/manifest_text.py (prose)"""
import json, os, sys
HERE = os.path.dirname(os.path.abspath(__file__))
sys.path.insert(0, HERE)
import registry, manifest_text as T

props = [json.loads(l) for l in open(os.path.join(HERE, '..', 'properties.jsonl'))]
checks = []
na = []
for p in props:
    pid = p['id']
    if pid in registry.PROPS and pid in T.CHECKS:
        t = T.CHECKS[pid]
        checks.append(dict(
            property_id=pid,
            quick_cmd='./check %s --tier quick' % pid,
            thorough_cmd='./check %s --tier thorough' % pid,
            evidence_file='evidence/%s.json' % pid,
            replay_cmd_template='./check %s --replay {path}' % pid,
            engine=t['engine'],
            level_claimed=dict(category=registry.PROPS[pid].get('level', 'proof'), text=t['level'], design_ref=t.get('design_ref', 'DESIGN.md §3/' + pid)),
            level_note=t['note'],
            technique=t['technique'],
        ))
    else:
        na.append(dict(property_id=pid, reason=T.NOT_APPLICABLE.get(pid, 'not yet covered by a contract unit in this revision (work in progress; see DESIGN.md §3/%s)' % pid)))
m = dict(
    version=1,
    setup_cmd=T.SETUP,
    hooks=dict(guard='bytebeamio_rumqtt_verif', enable='none needed: all annotation happens in scratch copies made per run (no hook commits in /repo)',
               baseline_off_cmd='cd /repo && cargo test --workspace --no-fail-fast --offline', source_commits=[], add_only=True),
    engines=T.ENGINES,
    checks=checks,
    notes=T.NOTES,
    not_applicable=na,
)
json.dump(m, open(os.path.join(HERE, '..', 'MANIFEST.json'), 'w'), indent=1)
print('checks:', [c['property_id'] for c in checks], 'n/a:', [x['property_id'] for x in na])
