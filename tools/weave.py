"""weave.py — build a single-file Verus unit from a contract template and the *current*
text of the repository.

Template language (lines starting with `//@`; everything else is copied as is):

  //@ item <relpath> <kind> <name> [nth=K] [derive=A,B] [keepattrs]
        copy one item (struct / enum / trait / type / const / fn / impl) verbatim.
        For `impl`, <name> is a regex for the text after the keyword `impl`.
  //@ impl <relpath> <header-regex> [nth=K]        open an impl block: the header is copied
  //@ endimpl                                      verbatim; `fn` directives inside look only
                                                   inside that impl's body
  //@ fn <name> [ret=<id>] [file=<relpath>] [nth=K] [attr=<text>]
  //@ | <clause text>            lines spliced between signature and body (section `sig`)
  //@ loop <N>                   following `|` lines go between the N-th loop header and its `{`
  //@ after "<code text>"        following `|` lines go after the first occurrence of that exact
  //@ before "<code text>"       code text (whitespace-normalised) in the body / before it
  //@ top                        following `|` lines go right after the body's opening brace
  //@ end

Clause lines may start with a label `[P C13 name]` / `[A C13 name]` (class, properties
comma-separated, obligation name); the label is removed from the emitted text and recorded
with the emitted line number so that verifier diagnostics can be mapped back to obligations.

Rewrites applied to copied repository text (each is logged):
  * statements that are tracing/log macro calls (trace!/debug!/info!/warn!/error!) -> blank
  * attributes #[inline..], #[allow..], #[tracing::instrument..], #[serde..], #[cfg_attr..], #[repr..], thiserror's #[error..] / #[from] -> blank
  * derive lists filtered to the entries Verus supports (Clone, Copy, PartialEq, Eq) unless derive= given
  * `pub(crate)` / `pub(super)` -> `pub`;  private struct fields and private fns -> `pub`
  * `-> T` -> `-> (ret: T)` for functions given ret=
  * only for functions given `ghost_iter=<name>`: `for PAT in EXPR {` -> `for PAT in <name>: EXPR {` (Verus syntax naming the loop's
    ghost iterator for use in invariants; the executable loop is unchanged)
  * only for functions given `unfold_map`: `let x = RECV.map(|p| { BODY });` ->
    `let x = match RECV { Some(p) => Some({ BODY }), None => None };` — the definition of Option::map, written out
    because Verus rejects closures that capture `&mut self`.  BODY is copied untouched; RECV must not contain `;`.
Nothing else in executable code is changed; line structure is preserved so that every
generated line maps to one repository line.
"""
import hashlib
import json
import os
import re
import sys

sys.path.insert(0, os.path.dirname(os.path.abspath(__file__)))
from rsrc import Src, ScanError, mask, match_close, find_loops, line_of  # noqa: E402


class WeaveError(Exception):
    """anchor lost / item not found — the run is undecided (exit 2), never an alarm"""


LOG_RE = re.compile(r'\b(?:tracing::|log::)?(trace|debug|info|warn|error)!\s*\(')
DROP_ATTR_RE = re.compile(r'^[ \t]*#\[(inline|allow|tracing::instrument|instrument|serde|cfg_attr|must_use|doc|error|repr|default)\b[^\n]*\]?[ \t]*$', re.M)
KEEP_DERIVES = ('Clone', 'Copy', 'PartialEq', 'Eq')
LABEL_RE = re.compile(r'^\s*\[([PA])\s+([A-Z0-9,]+)\s+([A-Za-z0-9_.:@#-]+)\]\s*')


def blank_keep_newlines(s):
    return ''.join(ch if ch == '\n' else ' ' for ch in s)


def norm_ws(s):
    return re.sub(r'\s+', '', s)


class Rewrites:
    def __init__(self):
        self.log = []

    def add(self, kind, path, line, before, after=''):
        self.log.append(dict(kind=kind, file=path, line=line, before=before.strip()[:160], after=after.strip()[:160]))


def rewrite_item(text, relpath, base_line, rw, derive=None, keepattrs=False, widen=True):
    """Apply the line-preserving rewrites to one copied item."""
    # 1. log macro statements
    while True:
        m_ = mask(text)
        m = LOG_RE.search(m_)
        if not m:
            break
        # must be at statement position: preceded (ignoring ws) by one of ; { } or start
        k = m.start() - 1
        while k >= 0 and m_[k] in ' \t\n':
            k -= 1
        if k >= 0 and m_[k] not in ';{}':
            # expression position (e.g. match arm `=> warn!(..)`) : replace by unit `()`
            close = match_close(m_, m.end() - 1)
            rw.add('log-macro-expr->()', relpath, base_line + text.count('\n', 0, m.start()), text[m.start():close + 1], '()')
            seg = text[m.start():close + 1]
            text = text[:m.start()] + '()' + blank_keep_newlines(seg)[2:] + text[close + 1:]
            continue
        close = match_close(m_, m.end() - 1)
        end = close + 1
        j = end
        while j < len(text) and text[j] in ' \t':
            j += 1
        if j < len(text) and text[j] == ';':
            end = j + 1
        rw.add('drop-log-macro', relpath, base_line + text.count('\n', 0, m.start()), text[m.start():end])
        text = text[:m.start()] + blank_keep_newlines(text[m.start():end]) + text[end:]
    # 2. attributes
    if not keepattrs:
        def dropattr(mm):
            rw.add('drop-attr', relpath, base_line + text.count('\n', 0, mm.start()), mm.group(0))
            return blank_keep_newlines(mm.group(0))
        # attributes of the same kinds that span several lines (e.g. thiserror's `#[error(\n ".."\n)]`)
        while True:
            m_ = mask(text)
            mm = re.search(r'#\[(error|cfg_attr|serde|allow|doc)\b', m_)
            if not mm:
                break
            close = match_close(m_, mm.start() + 1)
            rw.add('drop-attr', relpath, base_line + text.count('\n', 0, mm.start()), text[mm.start():close + 1])
            text = text[:mm.start()] + blank_keep_newlines(text[mm.start():close + 1]) + text[close + 1:]
        text = DROP_ATTR_RE.sub(dropattr, text)
        text = re.sub(r'#\[(from|source)\]', dropattr, text)    # thiserror field markers (derive is filtered out too)
    # 3. derives
    def fix_derive(mm):
        items = [x.strip() for x in mm.group(1).split(',') if x.strip()]
        keep = [x for x in items if (x in (derive if derive is not None else KEEP_DERIVES))]
        if derive is not None:
            keep += [x for x in derive if x not in keep and x in ('Structural',)]   # Verus marker derive (ghost)
        new = ('#[derive(%s)]' % ', '.join(keep)) if keep else ''
        if new != mm.group(0):
            rw.add('filter-derive', relpath, base_line + text.count('\n', 0, mm.start()), mm.group(0), new)
        return new
    text = re.sub(r'#\[derive\(([^)]*)\)\]', fix_derive, text)
    # 4. visibility
    if widen:
        def vis(mm):
            rw.add('widen-visibility', relpath, base_line + text.count('\n', 0, mm.start()), mm.group(0), 'pub')
            return 'pub'
        text = re.sub(r'\bpub\s*\(\s*(crate|super|self)\s*\)', vis, text)
    return text


MAP_RE = re.compile(r'=\s*([^;=]*?)\s*\.map\(\s*\|\s*([A-Za-z_][A-Za-z0-9_]*)\s*\|\s*\{')


def unfold_option_map(body, relpath, base_line, rw):
    """`= RECV.map(|p| { BODY });` -> `= match RECV { Some(p) => Some({ BODY }), None => None };` (line-preserving)"""
    while True:
        mb = mask(body)
        m = MAP_RE.search(mb)
        if not m:
            return body
        open_brace = m.end() - 1
        close_brace = match_close(mb, open_brace)
        k = close_brace + 1
        while k < len(mb) and mb[k] in ' \t\n':
            k += 1
        if k >= len(mb) or mb[k] != ')':
            raise WeaveError('unfold_map: closure body is not the whole argument of map() in %s line %d' % (relpath, base_line + body.count('\n', 0, m.start())))
        recv = body[m.start(1):m.end(1)]
        ident = m.group(2)
        head = '= match %s { Some(%s) => Some({' % (recv, ident)
        if '\n' in body[m.start():m.end()] and body[m.start():m.end()].count('\n') != head.count('\n'):
            head = head + '\n' * (body[m.start():m.end()].count('\n') - head.count('\n'))
        tail = '}), None => None }' + '\n' * body[close_brace:k + 1].count('\n')
        rw.add('unfold-option-map', relpath, base_line + body.count('\n', 0, m.start()), body[m.start():m.end()], head)
        body = body[:m.start()] + head + body[m.end():close_brace] + tail + body[k + 1:]


def name_ghost_iterators(body, base, relpath, base_line, rw):
    """`for PAT in EXPR {` -> `for PAT in it: EXPR {`: Verus syntax that names the loop's ghost iterator so that an
    invariant can say how far the loop has got; no effect on the executable code.  k-th `for` loop gets base, base1, ..."""
    k = 0
    pos = 0
    while True:
        mb = mask(body)
        loops = [l for l in find_loops(mb) if mb.startswith('for', l[0]) and l[0] >= pos]
        if not loops:
            return body
        kw, brace = loops[0]
        m = re.search(r'\sin\s', mb[kw:brace])
        if not m:
            raise WeaveError('ghost_iter: no `in` in for-loop header (%s line %d)' % (relpath, base_line + body.count('\n', 0, kw)))
        at = kw + m.end()
        name = base if k == 0 else '%s%d' % (base, k)
        rw.add('name-ghost-iterator', relpath, base_line + body.count('\n', 0, kw), body[kw:brace], body[kw:at] + name + ': ' + body[at:brace])
        body = body[:at] + name + ': ' + body[at:]
        pos = at + len(name) + 2
        k += 1


def widen_struct_fields(text, relpath, base_line, rw):
    """private named fields of a struct -> pub (Verus treats structs with private fields as opaque)."""
    m_ = mask(text)
    mm = re.search(r'\bstruct\b', m_)
    if not mm:
        return text
    ob = m_.find('{', mm.end())
    semi = m_.find(';', mm.end())
    if ob < 0 or (0 <= semi < ob):
        return text
    cb = match_close(m_, ob)
    out = []
    last = ob + 1
    depth = 0
    k = ob + 1
    field_start = True
    res = text[:ob + 1]
    body = text[ob + 1:cb]
    mbody = m_[ob + 1:cb]
    # split fields at depth-0 commas
    parts = []
    start = 0
    d = 0
    for i, c in enumerate(mbody):
        if c in '([{<':
            d += 1
        elif c in ')]}>':
            d -= 1
        elif c == ',' and d == 0:
            parts.append((start, i + 1))
            start = i + 1
    parts.append((start, len(mbody)))
    newbody = ''
    for (a, b) in parts:
        seg = body[a:b]
        mseg = mbody[a:b]
        fm = re.search(r'(^|\n)([ \t]*)((?:pub\s+)?)([A-Za-z_][A-Za-z0-9_]*)\s*:', mseg)
        if fm and not fm.group(3):
            pos = fm.start(4)
            rw.add('widen-field', relpath, base_line + text.count('\n', 0, ob + 1 + a + pos), fm.group(4), 'pub ' + fm.group(4))
            seg = seg[:pos] + 'pub ' + seg[pos:]
        newbody += seg
    return res + newbody + text[cb:]


def widen_fn(sig, relpath, line, rw):
    """private fn -> pub fn (open spec fns in the same file need to name it; no runtime meaning)."""
    m = re.search(r'(^|\n)([ \t]*)((?:pub\s+)?)((?:const\s+|async\s+|unsafe\s+)*)fn\b', sig)
    if m and not m.group(3):
        pos = m.start(4)
        rw.add('widen-fn', relpath, line, 'fn', 'pub fn')
        return sig[:pos] + 'pub ' + sig[pos:]
    return sig


def name_result(sig, ret, relpath, line, rw):
    m_ = mask(sig)
    k = m_.find('->')
    # first `->` at paren depth 0
    d = 0
    pos = -1
    for i, c in enumerate(m_):
        if c in '([':
            d += 1
        elif c in ')]':
            d -= 1
        elif c == '-' and d == 0 and m_[i:i + 2] == '->':
            pos = i
            break
    if pos < 0:
        raise WeaveError('ret= given but no return type in signature: ' + sig.strip()[:80])
    w = re.search(r'\bwhere\b', m_[pos:])
    end = pos + w.start() if w else len(sig)
    ty = sig[pos + 2:end]
    ty_s = ty.strip()
    trail = ty[len(ty.rstrip()):]
    rw.add('name-result', relpath, line, '->' + ty, '-> (%s: %s)' % (ret, ty_s))
    return sig[:pos] + '-> (%s: %s)' % (ret, ty_s) + trail + sig[end:]


class Out:
    def __init__(self):
        self.lines = []      # text
        self.origin = []     # dict per line

    def emit(self, text, origin):
        for ln in text.split('\n'):
            self.lines.append(ln)
            self.origin.append(origin)

    def emit_repo(self, text, relpath, first_line, fn=None):
        for i, ln in enumerate(text.split('\n')):
            self.lines.append(ln)
            self.origin.append(dict(kind='repo', file=relpath, line=first_line + i, fn=fn))


def parse_opts(tokens):
    opts = {}
    pos = []
    for t in tokens:
        if '=' in t and not t.startswith('"'):
            k, v = t.split('=', 1)
            opts[k] = v[1:-1] if (len(v) >= 2 and v[0] == '"' and v[-1] == '"') else v
        else:
            pos.append(t)
    return pos, opts


def split_directive(s):
    """split on whitespace, honouring double quotes"""
    toks = re.findall(r'[^\s"]*"(?:[^"\\]|\\.)*"|\S+', s)
    return [t[1:-1] if t.startswith('"') and t.endswith('"') and len(t) >= 2 else t for t in toks]


class Weaver:
    def __init__(self, repo, template_path, canary=False):
        self.repo = repo
        self.template_path = template_path
        self.canary = canary
        self.srcs = {}
        self.out = Out()
        self.rw = Rewrites()
        self.functions = []   # functions under contract
        self.items = []
        self.obligations = []  # labelled clauses
        self.canary_lines = {}

    def src(self, rel):
        if rel not in self.srcs:
            p = os.path.join(self.repo, rel)
            if not os.path.exists(p):
                raise WeaveError('source file missing: ' + rel)
            self.srcs[rel] = Src(p)
        return self.srcs[rel]

    def run(self):
        with open(self.template_path, encoding='utf-8') as f:
            tl = f.read().split('\n')
        i = 0
        scope = None   # (rel, lo, hi) of open impl
        n = len(tl)
        while i < n:
            line = tl[i]
            s = line.strip()
            if not s.startswith('//@'):
                self.out.emit(line, dict(kind='tmpl', line=i + 1))
                i += 1
                continue
            toks = split_directive(s[3:].strip())
            if not toks:
                i += 1
                continue
            cmd = toks[0]
            pos, opts = parse_opts(toks[1:])
            try:
                if cmd == 'item':
                    self.do_item(pos, opts, i + 1)
                    i += 1
                elif cmd == 'obprefix':
                    # obligation names of the following functions are `<prefix><fn>#<label>` (aligns them with the
                    # names the Kani harnesses of the same functions use, so that a failure is reported once)
                    self.obprefix = pos[0] if pos else ''
                    i += 1
                elif cmd == 'impl':
                    rel, hdr = pos[0], pos[1]
                    src = self.src(rel)
                    it = src.find('impl', hdr, nth=int(opts.get('nth', 0)))
                    header = src.text[it['kw']:it['sig_end'] + 1]
                    self.out.emit_repo(header, rel, line_of(src.text, it['kw']))
                    scope = (rel, it['sig_end'] + 1, it['end'] - 1, not re.search(r'\bfor\b', mask(header)))
                    self.items.append(dict(kind='impl-header', file=rel, name=hdr, sha256=hashlib.sha256(header.encode()).hexdigest()))
                    i += 1
                elif cmd == 'trait':
                    rel, nm = pos[0], pos[1]
                    src = self.src(rel)
                    it = src.find('trait', nm, nth=int(opts.get('nth', 0)))
                    header = src.text[it['kw']:it['sig_end'] + 1]
                    ls = src.text.rfind('\n', 0, it['kw']) + 1
                    header = src.text[ls:it['sig_end'] + 1]
                    self.out.emit_repo(header, rel, line_of(src.text, it['kw']))
                    scope = (rel, it['sig_end'] + 1, it['end'] - 1, False)
                    self.items.append(dict(kind='trait-header', file=rel, name=nm, sha256=hashlib.sha256(header.encode()).hexdigest()))
                    i += 1
                elif cmd in ('endimpl', 'endtrait'):
                    self.out.emit('}', dict(kind='tmpl', line=i + 1))
                    scope = None
                    i += 1
                elif cmd == 'fn':
                    # collect payload
                    j = i + 1
                    sections = []   # (kind, arg, [(text, tmpl_line)])
                    cur = ('sig', None, [])
                    sections.append(cur)
                    while j < n:
                        sj = tl[j].strip()
                        if not sj.startswith('//@'):
                            raise WeaveError('template line %d: expected //@ inside fn block' % (j + 1))
                        body = sj[3:]
                        if body.strip() == 'end':
                            break
                        if body.lstrip().startswith('|'):
                            cur[2].append((body.lstrip()[1:].lstrip(' ') if True else '', j + 1))
                        else:
                            t2 = split_directive(body.strip())
                            if t2[0] in ('loop', 'after', 'before', 'top', 'bottom'):
                                cur = (t2[0], t2[1] if len(t2) > 1 else None, [])
                                sections.append(cur)
                            else:
                                raise WeaveError('template line %d: unknown section %s' % (j + 1, t2[0]))
                        j += 1
                    if j >= n:
                        raise WeaveError('template line %d: fn block without end' % (i + 1))
                    self.do_fn(pos[0], opts, sections, scope, i + 1)
                    i = j + 1
                else:
                    raise WeaveError('template line %d: unknown directive %s' % (i + 1, cmd))
            except ScanError as e:
                raise WeaveError('template line %d: %s' % (i + 1, e))
        return self

    def do_item(self, pos, opts, tline):
        rel, kind, name = pos[0], pos[1], pos[2]
        src = self.src(rel)
        it = src.find(kind, name, nth=int(opts.get('nth', 0)))
        text = src.text[it['start']:it['end']]
        base = line_of(src.text, it['start'])
        sha = hashlib.sha256(text.encode()).hexdigest()
        derive = opts['derive'].split(',') if 'derive' in opts else None
        if derive == ['']:
            derive = []
        text = rewrite_item(text, rel, base, self.rw, derive=derive, keepattrs='keepattrs' in opts)
        if kind == 'struct':
            text = widen_struct_fields(text, rel, base, self.rw)
        self.out.emit_repo(text, rel, base)
        self.items.append(dict(kind=kind, file=rel, name=name, sha256=sha, lines=[base, base + text.count('\n')]))

    def label(self, text, fn, section, tline):
        m = LABEL_RE.match(text)
        if not m:
            return text, None
        ob = dict(cls=m.group(1), props=m.group(2).split(','), name=(m.group(3) if '#' in m.group(3) else '%s%s#%s' % (getattr(self, 'obprefix', ''), fn, m.group(3))), fn=fn, section=section, text=text[m.end():].strip(), tmpl_line=tline)
        return text[:m.start()] + text[m.end():], ob

    def emit_spec(self, payload, fn, section):
        for (text, tline) in payload:
            t, ob = self.label(text, fn, section, tline)
            self.out.emit('    ' + t, dict(kind='spec', fn=fn, section=section, tmpl_line=tline, ob=ob['name'] if ob else None))
            if ob:
                ob['gen_line'] = len(self.out.lines)
                self.obligations.append(ob)

    def do_fn(self, name, opts, sections, scope, tline):
        rel = opts.get('file') or (scope[0] if scope else None)
        if rel is None:
            raise WeaveError('template line %d: fn outside impl needs file=' % tline)
        src = self.src(rel)
        lo, hi = (scope[1], scope[2]) if (scope and scope[0] == rel and 'file' not in opts) else (0, None)
        it = src.find('fn', name, lo, hi, nth=int(opts.get('nth', 0)))
        full = src.text[it['start']:it['end']]
        sha = hashlib.sha256(full.encode()).hexdigest()
        base = line_of(src.text, it['start'])
        nobody = src.masked[it['sig_end']] != '{'
        qual = opts.get('as', name)
        fnname = qual
        sig = src.text[it['start']:it['sig_end']]
        body = src.text[it['sig_end']:it['end']]
        sig_line = base
        body_line = line_of(src.text, it['sig_end'])
        sig = rewrite_item(sig, rel, sig_line, self.rw)
        if scope is None or scope[3]:
            sig = widen_fn(sig, rel, line_of(src.text, it['kw']), self.rw)
        if 'ret' in opts:
            sig = name_result(sig, opts['ret'], rel, line_of(src.text, it['kw']), self.rw)
        body = rewrite_item(body, rel, body_line, self.rw, widen=False)
        if 'unfold_map' in opts:
            body = unfold_option_map(body, rel, body_line, self.rw)
        if 'ghost_iter' in opts:
            body = name_ghost_iterators(body, opts['ghost_iter'], rel, body_line, self.rw)
        mbody = mask(body)
        # insertion points into body: offset -> payload
        ins = []
        loops = None
        for (kind, arg, payload) in sections:
            if kind == 'sig':
                continue
            if not payload:
                continue
            if kind == 'loop':
                if loops is None:
                    loops = find_loops(mbody)
                k = int(arg)
                if k >= len(loops):
                    raise WeaveError('fn %s: loop %d not found (function has %d loops) — anchor lost' % (name, k, len(loops)))
                ins.append((loops[k][1], payload, 'loop%d' % k, True))
            elif kind == 'top':
                ins.append((1, payload, 'top', False))
            elif kind == 'bottom':
                ins.append((len(body) - 1, payload, 'bottom', False))
            elif kind in ('after', 'before'):
                off = self.find_code(body, mbody, arg, name)
                if kind == 'after':
                    off = off[1]
                else:
                    off = off[0]
                ins.append((off, payload, '%s:%s' % (kind, arg[:30]), False))
        if self.canary:
            ins.append((1, [('proof { assert(false); } // CANARY', 0)], 'canary', False))
        ins.sort(key=lambda x: x[0])
        attr = opts.get('attr')
        if attr:
            self.out.emit(attr, dict(kind='spec', fn=fnname, section='attr', tmpl_line=tline, ob=None))
        self.out.emit_repo(sig.rstrip('\n'), rel, sig_line, fn=fnname)
        for (kind, arg, payload) in sections:
            if kind == 'sig':
                self.emit_spec(payload, fnname, 'sig')
        if nobody:
            self.out.emit_repo(';', rel, body_line, fn=fnname)
            self.functions.append(dict(file=rel, fn=fnname, sha256=sha, lines=[base, base + full.count('\n')], external_body=False, declaration_only=True))
            return
        cur = 0
        for (off, payload, secname, is_loop) in ins:
            chunk = body[cur:off]
            self.out.emit_repo(chunk, rel, body_line + body.count('\n', 0, cur), fn=fnname)
            if secname == 'canary':
                self.out.emit('    proof { assert(false); }', dict(kind='canary', fn=fnname))
                self.canary_lines[len(self.out.lines)] = fnname
            else:
                self.emit_spec(payload, fnname, secname)
            cur = off
        self.out.emit_repo(body[cur:], rel, body_line + body.count('\n', 0, cur), fn=fnname)
        self.functions.append(dict(file=rel, fn=fnname, sha256=sha, lines=[base, base + full.count('\n')],
                                   external_body=bool(attr and 'external_body' in attr)))

    def find_code(self, body, mbody, needle, fn):
        """locate `needle` (whitespace-insensitive) in body; returns (start, end) offsets.
        Exact match first; otherwise the most similar statement start (difflib ratio >= 0.8),
        so that a small edit inside the anchored statement does not lose the anchor."""
        import difflib
        nn = norm_ws(needle)
        idx = [k for k, c in enumerate(mbody) if not c.isspace()]
        flat = ''.join(body[k] for k in idx)
        p = flat.find(nn)
        if p >= 0 and flat.find(nn, p + 1) >= 0:
            # ambiguous: take the first but record it
            self.rw.add('anchor-ambiguous-first-taken', fn, 0, needle)
        if p >= 0:
            return idx[p], idx[p + len(nn) - 1] + 1
        best = (0.0, -1)
        for q in range(len(flat)):
            if (q > 0 and flat[q - 1] not in ';{}') or flat[q] != nn[0]:
                continue
            win = flat[q:q + len(nn)]
            r = difflib.SequenceMatcher(None, nn, win, autojunk=False).ratio()
            if r > best[0]:
                best = (r, q)
        if best[0] < 0.8:
            raise WeaveError('fn %s: anchor text %r not found — anchor lost' % (fn, needle))
        q = best[1]
        # end of the anchored text: first ';' or '{' at bracket depth 0 at or after the expected length - 8
        start = idx[q]
        endq = min(len(flat) - 1, q + len(nn) - 1)
        if nn[-1] in ';{':
            k = idx[q]
            d = 0
            endoff = None
            while k < len(mbody):
                c = mbody[k]
                if c in '([':
                    d += 1
                elif c in ')]':
                    d -= 1
                elif d == 0 and c == nn[-1] and k >= idx[max(q, endq - 12)]:
                    endoff = k + 1
                    break
                k += 1
            if endoff is None:
                raise WeaveError('fn %s: anchor text %r not found — anchor lost' % (fn, needle))
        else:
            endoff = idx[endq] + 1
        self.rw.add('anchor-fuzzy(%.2f)' % best[0], fn, 0, needle, body[start:endoff])
        return start, endoff

    def result(self):
        return dict(lines=self.out.lines, origin=self.out.origin, rewrites=self.rw.log,
                    functions=self.functions, items=self.items, obligations=self.obligations,
                    canary_lines=self.canary_lines)


def weave(repo, template, outpath, canary=False):
    w = Weaver(repo, template, canary=canary).run()
    r = w.result()
    with open(outpath, 'w', encoding='utf-8') as f:
        f.write('\n'.join(r['lines']) + '\n')
    return r


if __name__ == '__main__':
    repo, template, outpath = sys.argv[1:4]
    try:
        r = weave(repo, template, outpath, canary='--canary' in sys.argv)
    except WeaveError as e:
        print('WEAVE-ERROR', e)
        sys.exit(2)
    print(json.dumps(dict(functions=len(r['functions']), items=len(r['items']), obligations=len(r['obligations']), rewrites=len(r['rewrites']))))
