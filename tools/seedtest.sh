#!/bin/sh
# usage: seedtest.sh <patch.diff> <Cxx> [<Cyy> ...]   — apply a seeded change to /repo, run the checks, undo it
P="$1"; shift
cd /repo || exit 9
if ! git apply --3way "$P" 2>/tmp/seed_apply.err; then echo "PATCH DOES NOT APPLY: $P"; cat /tmp/seed_apply.err; git checkout -- . ; git reset -q; exit 9; fi
git reset -q
for c in "$@"; do
  echo "== $c with $(basename $(dirname $P))/$(basename $P)"
  (cd /verif && timeout 3000 ./check $c ${SEED_ARGS} 2>&1 | grep -E "VIOLATION|KNOWN-FINDING|UNDECIDED|OK:|failing" | cut -c1-260)
  echo "   exit=$?"
done
git -C /repo checkout -- .
git -C /repo status --short | head -3
