#!/usr/bin/env python3
"""check driver: decides one property of /verif/properties.jsonl on /repo's current working tree.

  check <Cxx> [--tier quick|thorough] [--replay <file>] [--keep]

exit 0  every obligation of the property discharged (KNOWN-FINDING lines possible)
exit 1  VIOLATION property=<id> replay=<path> [... no-failing-input-found]
exit 2  UNDECIDED (anchor lost, unsupported construct, timeout, tool crash, proof needs repair)
"""
import argparse
import resource
import atexit
import hashlib
import json
import os
import re
import shutil
import subprocess
import sys
import tempfile
import time

HERE = os.path.dirname(os.path.abspath(__file__))
VERIF = os.path.dirname(HERE)
sys.path.insert(0, HERE)
import weave  # noqa: E402
import registry  # noqa: E402

REPO = os.environ.get('VERIF_REPO', '/repo')
# evidence describes /repo itself: a run against another tree (VERIF_REPO: a scratch worktree carrying a seeded change)
# writes its evidence under .cache instead of overwriting the committed files
EVIDENCE_DIR = os.path.join(os.path.dirname(os.path.dirname(os.path.abspath(__file__))), 'evidence' if REPO == '/repo' else '.cache/evidence-other-tree')
CACHE = os.path.join(VERIF, '.cache')
ASSUME_SCAN_RE = re.compile(r'assume_specification|external_body|\bassume\s*\(|\badmit\s*\(|external_type_specification|external_fn_specification|#\[verifier::external\]')


def log(*a):
    print(*a, flush=True)


def _big_stack():
    # CBMC recurses deeply on large enums (measured: SIGSEGV at the default 8 MB stack)
    try:
        resource.setrlimit(resource.RLIMIT_STACK, (resource.RLIM_INFINITY, resource.RLIM_INFINITY))
    except (ValueError, OSError):
        pass
    # and can then eat all memory: cap the address space of each tool process
    try:
        lim = int(os.environ.get('VERIF_MEM_GB', '24')) << 30
        resource.setrlimit(resource.RLIMIT_AS, (lim, lim))
    except (ValueError, OSError):
        pass


class Scratch:
    def __init__(self, keep=False):
        base = os.environ.get('TMPDIR', '/tmp')
        self.dir = tempfile.mkdtemp(prefix='verif-run-', dir=base)
        self.keep = keep
        atexit.register(self.cleanup)

    def cleanup(self):
        if not self.keep:
            shutil.rmtree(self.dir, ignore_errors=True)


# ---------------------------------------------------------------------------------------------
# Verus
# ---------------------------------------------------------------------------------------------
def run_verus(path, rlimit=None, timeout=600):
    cmd = ['verus', path, '--output-json', '--time', '--error-format=json', '--multiple-errors', '60']
    if rlimit:
        cmd += ['--rlimit', str(rlimit)]
    t0 = time.time()
    try:
        p = subprocess.run(cmd, capture_output=True, text=True, timeout=timeout, cwd=os.path.dirname(path))
    except subprocess.TimeoutExpired:
        return dict(timeout=True, wall=time.time() - t0, diags=[], summary=None, raw='', cmd=' '.join(cmd))
    diags = []
    raw_err = []
    for ln in p.stderr.splitlines():
        ln = ln.strip()
        if ln.startswith('{'):
            try:
                diags.append(json.loads(ln))
                continue
            except ValueError:
                pass
        if ln:
            raw_err.append(ln)
    summary = None
    try:
        summary = json.loads(p.stdout)
    except ValueError:
        pass
    return dict(timeout=False, wall=time.time() - t0, diags=diags, summary=summary, raw='\n'.join(raw_err), rc=p.returncode, cmd=' '.join(cmd))


def classify_verus(diags, wv):
    """map verifier diagnostics to obligations.  returns (failures, hard_errors)"""
    origin = wv['origin']
    lines = wv['lines']
    obs_by_line = {ob['gen_line']: ob for ob in wv['obligations']}
    failures = []
    hard = []
    for d in diags:
        if d.get('level') != 'error':
            continue
        msg = d.get('message', '')
        if msg.startswith('aborting due to'):
            continue
        spans = d.get('spans', [])
        prim = [s for s in spans if s.get('is_primary')]
        sec = [s for s in spans if not s.get('is_primary')]

        def org(s):
            ln = s['line_start']
            return origin[ln - 1] if 0 < ln <= len(origin) else dict(kind='?')

        def ob_of(s):
            # a clause may span several generated lines: look at every line of the span
            for ln in range(s['line_start'], s['line_end'] + 1):
                if ln in obs_by_line:
                    return obs_by_line[ln]
            # continuation lines of a labelled clause: walk back to the nearest labelled line in the same section
            ln = s['line_start']
            o = origin[ln - 1] if 0 < ln <= len(origin) else None
            k = ln
            while o and o.get('kind') == 'spec' and k > 0:
                if k in obs_by_line:
                    return obs_by_line[k]
                k -= 1
                o2 = origin[k - 1] if k > 0 else None
                if not o2 or o2.get('kind') != 'spec' or o2.get('fn') != o.get('fn') or o2.get('section') != o.get('section'):
                    break
                # stop at a line that ends a previous clause (ends with ',')
                if lines[k - 1].rstrip().endswith(',') and k not in obs_by_line:
                    break
            return None

        kind = None
        if 'postcondition not satisfied' in msg:
            kind = 'post'
        elif 'precondition not satisfied' in msg:
            kind = 'pre'
        elif 'invariant not satisfied' in msg:
            kind = 'loopinv'
        elif 'assertion failed' in msg:
            kind = 'assert'
        elif 'decreases' in msg or 'termination' in msg:
            kind = 'decreases'
        elif 'arithmetic underflow/overflow' in msg or 'overflow' in msg:
            kind = 'overflow'
        elif 'Resource limit' in msg or 'rlimit' in msg:
            hard.append(dict(kind='rlimit', msg=msg, line=prim[0]['line_start'] if prim else 0))
            continue
        elif 'recommendation not met' in msg:
            continue
        else:
            hard.append(dict(kind='other', msg=msg, line=prim[0]['line_start'] if prim else 0,
                             text=(lines[prim[0]['line_start'] - 1].strip() if prim else '')))
            continue
        p0 = prim[0] if prim else None
        po = org(p0) if p0 else dict(kind='?')
        f = dict(kind=kind, msg=msg, gen_line=p0['line_start'] if p0 else 0, origin=po,
                 text=lines[p0['line_start'] - 1].strip() if p0 else '')
        ob = None
        if kind == 'post':
            ob = ob_of(p0)
            f['fn'] = po.get('fn')
            exits = [s for s in sec if s.get('label') and 'exit' in s['label'] or (s.get('label') or '').startswith('at the end')]
            if exits:
                eo = org(exits[0])
                f['at'] = '%s:%s' % (eo.get('file', '?'), eo.get('line', '?'))
        elif kind == 'pre':
            callee = [s for s in sec if (s.get('label') or '').startswith('failed precondition')]
            if callee:
                ob = ob_of(callee[0])
                co = org(callee[0])
                f['callee_clause'] = lines[callee[0]['line_start'] - 1].strip() if callee[0]['line_start'] <= len(lines) else '(vstd)'
                f['callee_fn'] = co.get('fn')
            f['fn'] = po.get('fn')
            f['callsite_in_repo_code'] = po.get('kind') == 'repo'
        elif kind in ('loopinv', 'assert', 'decreases'):
            ob = ob_of(p0)
            f['fn'] = po.get('fn')
        elif kind == 'overflow':
            f['fn'] = po.get('fn')
        f['ob'] = ob
        # class: P if the labelled clause is P; real-code panics (unwrap/index/overflow in repository
        # lines against library or unlabelled preconditions) are `nopanic` obligations = P
        if ob:
            f['cls'] = ob['cls']
            f['props'] = ob['props']
            f['name'] = ob['name'] + ('@callsite:%s:%s' % (po.get('file', ''), po.get('line', '')) if kind == 'pre' else '')
        elif po.get('kind') == 'repo' and kind in ('pre', 'overflow'):
            lib = kind == 'overflow' or (f.get('callee_fn') is None)
            f['cls'] = 'P' if lib else 'A'
            f['props'] = None
            f['name'] = '%s#nopanic@%s:%s' % (po.get('fn'), po.get('file'), po.get('line'))
        else:
            f['cls'] = 'A'
            f['props'] = None
            f['name'] = '%s#%s@gen%d' % (f.get('fn'), kind, f['gen_line'])
        failures.append(f)
    return failures, hard


def refuted_by_the_step_harnesses(r, f, results):
    """A failing P clause of a Verus unit is downgraded to UNDECIDED only when ALL of this holds: Kani step harnesses
    tagged covered_by=<this unit> exist for the failing function (or its callers), every one of them ran to the end
    in this run without a failure, hard error or crash, and no other unit of this run reports any failure that is not a
    listed known finding.  Anything less (no such harness, one did not finish, any other failure) leaves it a violation."""
    fn = str(f.get('fn') or '').split('::')[-1]
    if not fn:
        return False
    fns = {fn} | set(registry.KANI_CALLERS.get(fn, []))
    known = load_known()
    ran = []
    for r2 in results:
        if r2 is r:
            continue
        unknown = [x for x in r2['failures'] if not any(k['ob'] == x['name'] for k in known)]
        if r2.get('engine') != 'verus' and (unknown or r2['hard']):
            return False
        if r2.get('engine') == 'kani':
            for h in r2.get('harnesses', []):
                hfns = set(re.split(r'[+,]', (h.get('fn') or '').split('::')[-1].replace('{', '').replace('}', '')))
                if h.get('covered_by') == r['unit'] and (hfns & fns):
                    if h.get('failed') or h.get('status') not in ('Success', 'SUCCESS', 'success'):
                        return False
                    ran.append(h['name'])
    return len(ran) > 0


def verus_unit(unit, scratch, prop):
    """weave + verify + canary.  returns result dict."""
    spec = os.path.join(VERIF, 'contracts', unit + '.vspec')
    out = os.path.join(scratch.dir, unit + '.rs')
    res = dict(unit=unit, engine='verus', status='ok', failures=[], hard=[], notes=[])
    try:
        wv = weave.weave(REPO, spec, out)
    except weave.WeaveError as e:
        res['status'] = 'undecided'
        res['hard'] = [dict(kind='weave', msg=str(e))]
        return res
    res['weave'] = dict(functions=wv['functions'], items=wv['items'], rewrites=wv['rewrites'],
                        obligations=[dict(name=o['name'], cls=o['cls'], props=o['props'], text=o['text']) for o in wv['obligations']])
    gen_text = '\n'.join(wv['lines'])
    res['assumption_scan'] = sorted(set(m.group(0).strip() + ' @gen-line %d: %s' % (gen_text.count('\n', 0, m.start()) + 1, wv['lines'][gen_text.count('\n', 0, m.start())].strip()[:140])
                                        for m in ASSUME_SCAN_RE.finditer(weave.mask(gen_text))))
    r = run_verus(out)
    res['cmd'] = r['cmd'].replace(scratch.dir, '<scratch>')
    res['wall_s'] = round(r['wall'], 2)
    if r['timeout']:
        res['status'] = 'undecided'
        res['hard'] = [dict(kind='timeout', msg='verus timed out')]
        return res
    summ = (r['summary'] or {}).get('verification-results') or {}
    times = (r['summary'] or {}).get('times-ms') or {}
    res['verified_fns'] = summ.get('verified', 0)
    res['errors'] = summ.get('errors', 0)
    res['solver_time_s'] = round(((times.get('smt') or {}).get('smt-run') or 0) / 1000.0, 3)
    res['total_time_s'] = round((times.get('total') or 0) / 1000.0, 3)
    failures, hard = classify_verus(r['diags'], wv)
    if r['summary'] is None or (not summ and not failures and not hard):
        hard.append(dict(kind='tool', msg='verus produced no result: ' + r['raw'][:400]))
    if summ.get('encountered-vir-error'):
        hard.append(dict(kind='vir', msg='verus front-end error (unsupported construct?)'))
    res['failures'] = failures
    res['hard'] = hard
    res['verifier_output'] = [dict(message=d.get('message'), rendered=(d.get('rendered') or '')[:3000]) for d in r['diags'] if d.get('level') == 'error'][:20]
    # vacuity canary: every woven function must fail an `assert(false)` placed at its entry
    # (also run when obligations failed: a recorded known finding must not switch the vacuity guard off)
    if not hard:
        cout = os.path.join(scratch.dir, unit + '_canary.rs')
        try:
            cw = weave.weave(REPO, spec, cout, canary=True)
            cr = run_verus(cout)
            failed_lines = set()
            for d in cr['diags']:
                if d.get('level') == 'error' and 'assertion failed' in d.get('message', ''):
                    for s in d.get('spans', []):
                        failed_lines.add(s['line_start'])
            expected = {ln: fn for ln, fn in cw['canary_lines'].items()}
            ext = {f['fn'] for f in cw['functions'] if f.get('external_body') or f.get('declaration_only')}
            missing = [fn for ln, fn in expected.items() if ln not in failed_lines and fn not in ext]
            res['canary'] = dict(expected=len([1 for fn in expected.values() if fn not in ext]), failed_as_expected=len([1 for ln, fn in expected.items() if ln in failed_lines]), vacuous=missing)
            if missing:
                res['hard'].append(dict(kind='vacuous', msg='precondition of %s is unsatisfiable (canary assert(false) verified)' % ', '.join(missing)))
        except weave.WeaveError as e:
            res['hard'].append(dict(kind='weave', msg='canary: ' + str(e)))
    if res['failures'] or res['hard']:
        res['status'] = 'failed' if res['failures'] else 'undecided'
    return res


# ---------------------------------------------------------------------------------------------
# Kani
# ---------------------------------------------------------------------------------------------
HARNESS_META_RE = re.compile(r'//\s*@harness\s+(.*)')
STEPS_RE = re.compile(r'^\s*//\s*@steps\s+(.*)$', re.M)


def expand_steps(text, tier, subst):
    """`// @steps name=.. props=.. fn=.. call=f [ns=quick:2;thorough:1,2,3,4] [bound=".."] [unwind=K]` -> one harness per table size n"""
    gen = []
    for m in STEPS_RE.finditer(text):
        _, o = weave.parse_opts(weave.split_directive(m.group(1)))
        ns = registry.STEP_NS
        if 'ns' in o:
            ns = dict((part.split(':')[0], [int(x) for x in part.split(':')[1].split(',')]) for part in o['ns'].split(';'))
        for n in ns.get(tier, ns.get('quick')):
            bound = o.get('bound', 'table size max_inflight = {n}; topic/payload empty').replace('{n}', str(n))
            cov = (' covered_by=%s' % o['covered_by']) if 'covered_by' in o else ''
            gen.append('// @harness props=%s tier=%s kind=%s bound="%s" fn=%s%s\n#[kani::proof]\n#[kani::unwind(%s)]\n%sfn %s_n%d() {\n    %s(%d);\n}\n' % (
                o['props'], tier, o.get('kind', 'bounded'), bound, o['fn'], cov, o.get('unwind', n + 4),
                ''.join('#[kani::stub(%s)]\n' % x for x in o.get('stubs', '').split(';') if x), o['name'], n, o['call'], n))
    return text + '\n// ---- generated from @steps directives ----\n' + '\n'.join(gen)


def parse_harness_file(path):
    """`// @harness props=C02,C07 tier=quick kind=bounded bound="..." fn=...` lines, each followed by the harness fn"""
    res = []
    with open(path, encoding='utf-8') as f:
        lines = f.read().split('\n')
    i = 0
    while i < len(lines):
        m = HARNESS_META_RE.match(lines[i].strip())
        if m:
            toks = weave.split_directive(m.group(1))
            _, opts = weave.parse_opts(toks)
            j = i + 1
            name = None
            while j < len(lines) and j < i + 12:
                fm = re.match(r'\s*(?:pub\s+)?fn\s+([A-Za-z0-9_]+)\s*\(', lines[j])
                if fm:
                    name = fm.group(1)
                    break
                j += 1
            if name:
                opts['name'] = name
                opts['props'] = opts.get('props', '').split(',')
                opts['file'] = os.path.basename(path)
                res.append(opts)
        i += 1
    return res


def prepare_kani_ws(scratch):
    ws = os.path.join(scratch.dir, 'ws')
    if os.path.exists(ws):
        return ws
    subprocess.run(['rsync', '-a', '--exclude', 'target', '--exclude', '.git', REPO + '/', ws + '/'], check=True)
    return ws


def kani_crate(crate, prop, tier, scratch, only=None, clean_units=None):
    clean_units = clean_units or {}
    """instrument the scratch copy of `crate`, run the harnesses that serve `prop`, return results"""
    cfg = registry.KANI[crate]
    ws = prepare_kani_ws(scratch)
    res = dict(unit='kani:' + crate, engine='kani', status='ok', harnesses=[], failures=[], hard=[], notes=[])
    subst = dict(registry.KANI_SUBST.get(tier, registry.KANI_SUBST['quick']))
    vk = os.path.join(ws, crate, 'verif_kani')
    os.makedirs(vk, exist_ok=True)
    selected = []
    skipped = []
    metas = {}
    for mod in cfg['modules']:
        srcfile, hfile, modname = mod[0], mod[1], mod[2]
        hp = os.path.join(VERIF, 'kani', crate, hfile)
        if not os.path.exists(hp):
            hp = os.path.join(VERIF, 'kani', 'common', hfile)
        with open(hp, encoding='utf-8') as f:
            text = f.read()
        for k, v in (mod[3] if len(mod) > 3 else {}).items():
            text = text.replace('@%s@' % k, str(v))
        for k, v in subst.items():
            text = text.replace('@%s@' % k, str(v))
        text = expand_steps(text, tier, subst)
        gen_name = '%s__%s' % (srcfile.replace('/', '_').replace('.rs', ''), hfile)
        gen_path = os.path.join(vk, gen_name)
        with open(gen_path, 'w', encoding='utf-8') as f:
            f.write(text)
        target = os.path.join(ws, crate, srcfile)
        if not os.path.exists(target):
            res['status'] = 'undecided'
            res['hard'].append(dict(kind='weave', msg='source file missing: %s/%s' % (crate, srcfile)))
            return res
        with open(target, 'a', encoding='utf-8') as f:
            f.write('\n#[cfg(kani)]\nmod %s {\n    #![allow(unused, dead_code)]\n    use super::*;\n    include!(concat!(env!("CARGO_MANIFEST_DIR"), "/verif_kani/%s"));\n}\n' % (modname, gen_name))
        modpath = cfg['modpath'](srcfile)
        for h in parse_harness_file(gen_path):
            if prop not in h['props']:
                continue
            if h.get('tier', 'quick') == 'thorough' and tier != 'thorough':
                continue
            if h.get('tier') == 'quick' and tier == 'thorough' and h.get('generated'):
                continue
            full = '%s::%s::%s' % (modpath, modname, h['name']) if modpath else '%s::%s' % (modname, h['name'])
            if only and h['name'] not in only:
                continue
            # quick tier: a harness whose obligations are ALL discharged by a Verus unit (unbounded) is run only when
            # that unit did not come out clean (failure -> the harness supplies the counterexample; undecided -> it decides)
            if tier != 'thorough' and h.get('covered_by') and h['covered_by'] in clean_units:
                dirty = clean_units[h['covered_by']]     # None: unit clean; set: functions with a failing obligation
                hfns = set(re.split(r'[+,]', h.get('fn', '').split('::')[-1].replace('{', '').replace('}', '')))
                if dirty is None or not (dirty & hfns):
                    skipped.append(dict(name=h['name'], fn=h.get('fn', ''), covered_by=h['covered_by']))
                    continue
            h = dict(h)
            h['full'] = full
            h['file'] = gen_name
            h['srcfile'] = '%s/%s' % (crate, srcfile)
            selected.append(h)
            metas[full] = h
    for extra in cfg.get('extra_files', []):
        shutil.copy(os.path.join(VERIF, 'kani', crate, extra), os.path.join(vk, extra))
    res['skipped'] = skipped
    if not selected:
        if skipped:
            res['notes'].append('all %d harnesses for %s are covered by clean Verus units in the quick tier' % (len(skipped), prop))
            res['wall_s'] = 0.0
            return res
        res['status'] = 'undecided'
        res['hard'].append(dict(kind='vacuous', msg='no harness selected for %s in %s' % (prop, crate)))
        return res
    export = os.path.join(scratch.dir, 'kani-%s.json' % crate)
    if os.path.exists(export):
        os.remove(export)
    cmd = ['cargo', 'kani', '-p', crate, '-Z', 'function-contracts', '-Z', 'stubbing', '-Z', 'unstable-options',
           '--exact', '-j', str(registry.KANI_JOBS[tier]), '--output-format', 'terse', '--export-json', export,
           '--harness-timeout', '%ds' % (registry.HARNESS_TIMEOUT[tier])]
    for h in selected:
        cmd += ['--harness', h['full']]
    env = dict(os.environ)
    env['CARGO_NET_OFFLINE'] = 'true'
    env['CARGO_TARGET_DIR'] = os.path.join(CACHE, 'kani-target')
    t0 = time.time()
    try:
        p = subprocess.run(cmd, cwd=ws, env=env, capture_output=True, text=True, timeout=registry.KANI_TOTAL_TIMEOUT[tier], preexec_fn=_big_stack)
        out = p.stdout + '\n' + p.stderr
    except subprocess.TimeoutExpired as e:
        res['status'] = 'undecided'
        res['hard'].append(dict(kind='timeout', msg='cargo kani exceeded %ds' % registry.KANI_TOTAL_TIMEOUT[tier]))
        return res
    res['wall_s'] = round(time.time() - t0, 1)
    res['cmd'] = 'CARGO_NET_OFFLINE=true cargo kani -p %s -Z function-contracts -Z stubbing -Z unstable-options --exact -j %d --output-format terse --export-json <scratch>/kani.json %s' % (
        crate, registry.JOBS, ' '.join('--harness ' + h['full'] for h in selected[:3]) + (' ... (%d harnesses)' % len(selected) if len(selected) > 3 else ''))
    if not os.path.exists(export):
        res['status'] = 'undecided'
        tail = '\n'.join([l for l in out.splitlines() if l.startswith('error') or 'error[' in l or 'error:' in l][:20])
        res['hard'].append(dict(kind='build', msg='cargo kani produced no result file (compile error in harness or repository?)\n' + tail + '\n' + out[-1500:]))
        return res
    with open(export) as f:
        ex = json.load(f)
    errs = {e['harness_id']: e for e in ex.get('error_details', [])}
    seen = set()
    unsupported_in = set()
    for r in ex.get('verification_results', {}).get('results', []):
        hid = r['harness_id']
        seen.add(hid)
        meta = metas.get(hid, dict(name=hid, props=[prop]))
        checks = r.get('checks', [])
        failed = [c for c in checks if c.get('status') == 'Failure']
        undet = [c for c in checks if c.get('status') in ('Undetermined', 'Unknown')]
        covers = [c for c in checks if c.get('category') == 'cover' or c.get('status') in ('Satisfied', 'Unsatisfiable', 'Unreachable') and c.get('category') == 'cover']
        cov_unsat = [c for c in checks if c.get('status') in ('Unsatisfiable',) or (c.get('category') == 'cover' and c.get('status') == 'Unreachable')]
        hres = dict(name=meta['name'], full=hid, status=r.get('status'), time_s=round(r.get('duration_ms', 0) / 1000.0, 1),
                    checks=len(checks), failed=len(failed), kind=meta.get('kind', 'bounded'), bound=meta.get('bound', ''), fn=meta.get('fn', ''),
                    props=meta.get('props'), covered_by=meta.get('covered_by'), covers_satisfied=len([c for c in checks if c.get('status') == 'Satisfied']),
                    file=meta.get('file'), srcfile=meta.get('srcfile'))
        e = errs.get(hid)
        if e and e.get('exit_status') not in (None, 'properties_failed') and not failed:
            hres['status'] = 'Crash'
            res['hard'].append(dict(kind='tool', msg='%s: CBMC/Kani did not finish (%s)' % (meta['name'], e.get('exit_status'))))
        for c in failed:
            desc = c.get('description', '').strip().strip('"')
            m = re.match(r'\s*((?:C\d{2,3})(?:,C\d{2,3})*)\s+(\S+)', desc)
            loc = c.get('location') or {}
            f = dict(harness=meta['name'], full=hid, desc=desc, function=c.get('function'), harness_file=meta.get('file'),
                     location='%s:%s' % ((loc.get('file') or '').replace(ws + '/', ''), loc.get('line')))
            if m:
                f['props'] = m.group(1).split(',')
                f['name'] = '%s::%s#%s' % (crate, meta.get('fn') or meta['name'], m.group(2))
                f['cls'] = 'P'
            else:
                # untagged: a panic / overflow / bounds failure inside the real code (or an unwinding assertion)
                if 'not currently supported' in desc or 'unsupported' in desc.lower():
                    res['hard'].append(dict(kind='tool', msg='%s: construct not supported by Kani reached (%s @ %s)' % (meta['name'], desc[:120], f['location'])))
                    unsupported_in.add(hid)
                    continue
                if 'unwinding assertion' in desc:
                    res['hard'].append(dict(kind='unwind', msg='%s: unwinding assertion failed (%s) — bound too small for this code' % (meta['name'], f['location'])))
                    continue
                f['props'] = None
                f['name'] = '%s::%s#nopanic[%s @ %s]' % (crate, meta.get('fn') or meta['name'], desc[:60], f['location'])
                f['cls'] = 'P'
            res['failures'].append(f)
        for c in cov_unsat:
            res['hard'].append(dict(kind='vacuous', msg='%s: cover "%s" is not reachable — harness does not exercise the case it claims' % (meta['name'], c.get('description'))))
        if undet:
            res['hard'].append(dict(kind='undetermined', msg='%s: %d checks undetermined' % (meta['name'], len(undet))))
        res['harnesses'].append(hres)
    for h in selected:
        if h['full'] not in seen:
            res['hard'].append(dict(kind='tool', msg='harness %s did not report (timeout or crash)' % h['name']))
    # a harness that reached an unsupported construct reports spurious pointer failures: undecided, not an alarm
    res['failures'] = [f for f in res['failures'] if not (f['full'] in unsupported_in and f.get('props') is None)]
    if res['failures']:
        res['status'] = 'failed'
    elif res['hard']:
        res['status'] = 'undecided'
    res['ws'] = ws
    res['selected'] = selected
    return res


def kani_confirm(crate, failures, scratch, tier, max_harnesses=2, times=None):
    """Counterexample replay: re-run the failing harnesses with --concrete-playback=print, append the
    generated unit tests to the harness module of the scratch copy and execute them NATIVELY against
    the real crate code (`cargo kani playback`).  Returns {failure name: dict(test=..., native=...)}"""
    ws = prepare_kani_ws(scratch)
    by_h = {}
    for f in failures:
        by_h.setdefault(f['full'], []).append(f)
    # cheapest harnesses first (playback re-runs CBMC with trace generation: several times the verification time)
    chosen = sorted(by_h, key=lambda h: (times or {}).get(h, 0))[:max_harnesses]
    env = dict(os.environ)
    env['CARGO_NET_OFFLINE'] = 'true'
    env['CARGO_TARGET_DIR'] = os.path.join(CACHE, 'kani-target')
    base = ['cargo', 'kani', '-p', crate, '-Z', 'function-contracts', '-Z', 'stubbing', '-Z', 'unstable-options', '-Z', 'concrete-playback',
            '--concrete-playback=print', '--exact', '--harness-timeout', '%ds' % registry.PLAYBACK_TIMEOUT]
    out = {}
    # --concrete-playback is incompatible with --jobs: one process per harness, run side by side
    procs = [subprocess.Popen(base + ['--harness', h], cwd=ws, env=env, stdout=subprocess.PIPE, stderr=subprocess.DEVNULL, text=True, preexec_fn=_big_stack) for h in chosen]
    stdout_all = ''
    deadline = time.time() + registry.PLAYBACK_TIMEOUT * max_harnesses + 120
    for pr in procs:
        try:
            o, _ = pr.communicate(timeout=max(1, deadline - time.time()))
            stdout_all += o
        except subprocess.TimeoutExpired:
            pr.kill()

    class _P:
        pass
    p = _P()
    p.stdout = stdout_all
    tests = re.findall(r'```\s*\n(/// Test generated for harness `([^`]+)`.*?)```', p.stdout, re.S)
    appended = {}
    for text, hid in tests:
        cm = re.search(r'Check for `(\w+)`: "+(.*?)"+\s*\n', text)
        if not cm or cm.group(1) != 'assertion':
            continue
        desc = cm.group(2)
        tn = re.search(r'fn (kani_concrete_playback_\w+)\(', text)
        for f in by_h.get(hid, []):
            if f['desc'].strip('"') == desc.strip('"') and f['name'] not in out:
                out[f['name']] = dict(test=text, test_name=tn.group(1) if tn else None, native=None)
                hf = f.get('harness_file')
                if hf and tn:
                    appended.setdefault(hf, []).append(text)
    if not appended:
        return out
    for hf, texts in appended.items():
        with open(os.path.join(ws, crate, 'verif_kani', hf), 'a', encoding='utf-8') as fh:
            fh.write('\n' + '\n'.join(texts))
    try:
        q = subprocess.run(['cargo', 'kani', 'playback', '-Z', 'concrete-playback', '-p', crate, '--', 'kani_concrete_playback'],
                           cwd=ws, env=env, capture_output=True, text=True, timeout=1500)
        native = q.stdout + q.stderr
    except subprocess.TimeoutExpired:
        native = ''
    for name, d in out.items():
        if d['test_name']:
            m = re.search(r"---- \S*%s stdout ----\n(.*?)(?:\nstack backtrace|\n----|\nfailures:)" % re.escape(d['test_name']), native, re.S)
            failed = re.search(r'test \S*%s \.\.\. FAILED' % re.escape(d['test_name']), native)
            if failed:
                d['native'] = (m.group(1).strip() if m else 'test FAILED').replace(ws + '/', '')
    return out


# ---------------------------------------------------------------------------------------------
# native bounded stand-ins (exhaustive enumeration of a stated finite space on the real code)
# ---------------------------------------------------------------------------------------------
NATIVE_META_RE = re.compile(r'//\s*@native\s+(.*)')


def parse_native_file(path):
    res = []
    with open(path, encoding='utf-8') as f:
        lines = f.read().split('\n')
    for i, ln in enumerate(lines):
        m = NATIVE_META_RE.match(ln.strip())
        if not m:
            continue
        _, opts = weave.parse_opts(weave.split_directive(m.group(1)))
        for j in range(i + 1, min(i + 8, len(lines))):
            fm = re.match(r'\s*(?:pub\s+)?fn\s+([A-Za-z0-9_]+)\s*\(', lines[j])
            if fm:
                opts['name'] = fm.group(1)
                opts['props'] = opts.get('props', '').split(',')
                res.append(opts)
                break
    return res


def native_crate(crate, prop, tier, scratch):
    cfg = registry.NATIVE[crate]
    ws = prepare_kani_ws(scratch)
    res = dict(unit='native:' + crate, engine='native', status='ok', tests=[], failures=[], hard=[], notes=[])
    vd = os.path.join(ws, crate, 'verif_native')
    os.makedirs(vd, exist_ok=True)
    names = []
    metas = {}
    for mod in cfg['modules']:
        srcfile, nfile, modname = mod[0], mod[1], mod[2]
        src = os.path.join(VERIF, 'native', crate, nfile)
        if not os.path.exists(src):
            src = os.path.join(VERIF, 'native', 'common', nfile)
        sel = [t for t in parse_native_file(src) if prop in t['props'] and not (t.get('tier') == 'thorough' and tier != 'thorough')]
        if not sel:
            continue
        with open(src, encoding='utf-8') as f:
            text = f.read()
        for k, v in (mod[3] if len(mod) > 3 else {}).items():
            text = text.replace('@%s@' % k, str(v))
        gen_name = '%s__%s' % (srcfile.replace('/', '_').replace('.rs', ''), nfile)
        with open(os.path.join(vd, gen_name), 'w', encoding='utf-8') as f:
            f.write(text)
        target = os.path.join(ws, crate, srcfile)
        if not os.path.exists(target):
            res['status'] = 'undecided'
            res['hard'].append(dict(kind='weave', msg='source file missing: %s/%s' % (crate, srcfile)))
            return res
        marker = 'mod %s {' % modname
        with open(target, encoding='utf-8') as f:
            already = marker in f.read()
        if not already:
            with open(target, 'a', encoding='utf-8') as f:
                f.write('\n#[cfg(test)]\nmod %s {\n    #![allow(unused, dead_code)]\n    use super::*;\n    include!(concat!(env!("CARGO_MANIFEST_DIR"), "/verif_native/%s"));\n}\n' % (modname, gen_name))
        for t in sel:
            t['srcfile'] = '%s/%s' % (crate, srcfile)
            if t['name'] not in names:
                names.append(t['name'])
            metas[t['name']] = t
    for dep in getattr(registry, 'NATIVE_DEV_DEPS', {}).get(crate, []):
        ct = os.path.join(ws, crate, 'Cargo.toml')
        with open(ct, encoding='utf-8') as f:
            ctext = f.read()
        if dep not in ctext:
            if '[dev-dependencies]' in ctext:
                ctext = ctext.replace('[dev-dependencies]', '[dev-dependencies]\n' + dep, 1)
            else:
                ctext += '\n[dev-dependencies]\n' + dep + '\n'
            with open(ct, 'w', encoding='utf-8') as f:
                f.write(ctext)
    if not names:
        res['status'] = 'undecided'
        res['hard'].append(dict(kind='vacuous', msg='no native test selected for %s in %s' % (prop, crate)))
        return res
    env = dict(os.environ)
    env['CARGO_NET_OFFLINE'] = 'true'
    env['CARGO_TARGET_DIR'] = os.path.join(CACHE, 'native-target')
    for k, v in registry.NATIVE_ENV.get(tier, {}).items():
        env[k] = str(v)
    cmd = ['cargo', 'test', '--offline', '-p', crate, '--lib', '--', '--nocapture', '--test-threads', str(registry.JOBS)] + names
    t0 = time.time()
    try:
        p = subprocess.run(cmd, cwd=ws, env=env, capture_output=True, text=True, timeout=registry.KANI_TOTAL_TIMEOUT[tier])
    except subprocess.TimeoutExpired:
        res['status'] = 'undecided'
        res['hard'].append(dict(kind='timeout', msg='native tests timed out'))
        return res
    res['wall_s'] = round(time.time() - t0, 1)
    res['cmd'] = 'cargo test --offline -p %s --lib -- --nocapture %s   (scratch copy of /repo with the test module appended)' % (crate, ' '.join(names))
    out = p.stdout + '\n' + p.stderr
    seen = set()
    for ln in out.splitlines():
        m = re.match(r'VERIF-OBLIGATION (.+?) props=(\S+) bound="([^"]*)" cases=(\d+) ok', ln)
        if m:
            res['tests'].append(dict(name=m.group(1), props=m.group(2).split(','), bound=m.group(3), cases=int(m.group(4)), ok=True))
            seen.add(m.group(1))
            continue
        m = re.match(r'VERIF-DIGEST (\S+) (\S+) (\S+)', ln)
        if m:
            res.setdefault('digests', []).append((m.group(1), m.group(2), m.group(3)))
            continue
        m = re.match(r'VERIF-FAIL (.+?) props=(\S+) (.*)', ln)
        if m:
            res['tests'].append(dict(name=m.group(1), props=m.group(2).split(','), ok=False, detail=m.group(3)))
            res['failures'].append(dict(name=m.group(1), props=m.group(2).split(','), cls='P', desc=m.group(3), concrete=dict(native_failing_input=m.group(3))))
    ran = re.findall(r'^test (\S+) \.\.\. (ok|FAILED)', out, re.M)
    res['expected_tests'] = len(names)
    if len(ran) < len(names) and not res['failures']:
        tail = '\n'.join([l for l in out.splitlines() if 'error' in l][:15])
        res['hard'].append(dict(kind='build', msg='native tests did not run (%d of %d): %s %s' % (len(ran), len(names), tail, out[-800:])))
    for (tn, st_) in ran:
        if st_ == 'FAILED' and not any(tn.endswith(x['name'].split('#')[0]) for x in res['failures']) and not res['failures']:
            pm = re.search(r"thread '[^']*%s' [^\n]*panicked at ([^\n]*)\n([^\n]*)" % re.escape(tn.split('::')[-1]), out)
            detail = ('panicked at %s: %s' % (pm.group(1).split('/ws/')[-1], pm.group(2))) if pm else out[-1500:]
            res['failures'].append(dict(name='native:' + tn, props=None, cls='P', desc='test failed/panicked: ' + tn, concrete=dict(native_failing_input=detail)))
    res['meta'] = metas
    if res['failures']:
        res['status'] = 'failed'
    elif res['hard']:
        res['status'] = 'undecided'
    return res


# ---------------------------------------------------------------------------------------------
# known findings
# ---------------------------------------------------------------------------------------------
def load_known():
    path = os.path.join(VERIF, 'known_findings.txt')
    known = []
    if os.path.exists(path):
        with open(path, encoding='utf-8') as f:
            for ln in f:
                ln = ln.strip()
                if not ln or ln.startswith('#') or ln.startswith('fixed:'):
                    continue
                m = re.match(r'known:\s+property=(C\d+)\s+obligation=(\S+)\s+(.*)', ln)
                if m:
                    known.append(dict(prop=m.group(1), ob=m.group(2), text=m.group(3)))
    return known


# ---------------------------------------------------------------------------------------------
def main():
    ap = argparse.ArgumentParser()
    ap.add_argument('prop')
    ap.add_argument('--tier', default=os.environ.get('VERIF_TIER', 'quick'))
    ap.add_argument('--replay')
    ap.add_argument('--keep', action='store_true')
    ap.add_argument('--no-replay', action='store_true', help='skip the concrete playback of counterexamples (debugging)')
    ap.add_argument('--only', help='comma separated harness names (debugging)')
    args = ap.parse_args()
    prop = args.prop
    tier = args.tier if args.tier in ('quick', 'thorough') else 'quick'
    seed = int(os.environ.get('VERIF_SEED', '0') or 0)
    if prop not in registry.PROPS:
        log('property %s is not claimed (see MANIFEST.json not_applicable)' % prop)
        return 2
    if args.replay:
        with open(args.replay) as f:
            log(f.read())
        return 0
    cfg = registry.PROPS[prop]
    t0 = time.time()
    scratch = Scratch(keep=args.keep)
    results = []
    for unit in cfg.get('verus', []):
        log('[%s] verus unit %s ...' % (prop, unit))
        r = verus_unit(unit, scratch, prop)
        log('[%s]   %s: %d fns verified, %d failing obligations, %d hard errors, %.1fs' % (prop, unit, r.get('verified_fns', 0), len(r['failures']), len(r['hard']), r.get('wall_s', 0)))
        results.append(r)
    known_all = load_known()
    # Verus units that decided: unit -> None (clean, listed known findings aside) or the set of functions with a failing
    # obligation (the Kani harnesses of exactly those functions then run on demand and supply the counterexample).
    # A unit that is undecided (hard error) is absent: everything it would have covered is run.
    clean_units = {}
    for r in results:
        unknown = [f for f in r['failures'] if not any(x['ob'] == f['name'] for x in known_all)]
        if r.get('engine') == 'verus' and not r['hard']:
            if unknown:
                fns = set(str(f.get('fn') or '').split('::')[-1] for f in unknown)
                for f in list(fns):
                    fns |= set(registry.KANI_CALLERS.get(f, []))     # a helper fails: the harnesses of its callers run
                clean_units[r['unit']] = fns
            else:
                clean_units[r['unit']] = None
    for crate in cfg.get('kani', []):
        log('[%s] kani crate %s (%s tier) ...' % (prop, crate, tier))
        r = kani_crate(crate, prop, tier, scratch, only=args.only.split(',') if args.only else None, clean_units=clean_units)
        log('[%s]   %s: %d harnesses, %d failing obligations, %d hard errors, %.1fs' % (prop, crate, len(r['harnesses']), len(r['failures']), len(r['hard']), r.get('wall_s', 0)) +
            (' (%d harnesses left to the clean Verus units %s)' % (len(r.get('skipped', [])), ','.join(sorted({x['covered_by'] for x in r.get('skipped', [])}))) if r.get('skipped') else ''))
        results.append(r)

    for crate in cfg.get('native', []):
        log('[%s] native bounded stand-ins in %s ...' % (prop, crate))
        r = native_crate(crate, prop, tier, scratch)
        log('[%s]   %s: %d tests, %d failing obligations, %d hard errors, %.1fs' % (prop, crate, len(r['tests']), len(r['failures']), len(r['hard']), r.get('wall_s', 0)))
        results.append(r)

    # cross-copy agreement: all copies that print a digest for the same group must print the same value
    groups = {}
    for r in results:
        for (grp, copy, val) in r.get('digests', []):
            groups.setdefault(grp, {})[copy] = val
    for grp, vals in groups.items():
        ok = len(set(vals.values())) == 1
        tgt = [r for r in results if r.get('digests')][-1]
        tgt['tests'].append(dict(name='%s#copies_agree' % grp, props=[prop], bound='%d copies: %s' % (len(vals), ', '.join(sorted(vals))), cases=len(vals), ok=ok))
        if not ok:
            tgt['failures'].append(dict(name='%s#copies_agree' % grp, props=[prop], cls='P', desc='copies disagree on the enumerated space: %s' % json.dumps(vals), concrete=dict(digests=vals)))
        need, for_props = registry.DIGEST_COPIES.get(grp, (1, []))
        if prop in for_props and len(vals) < need:
            tgt['hard'].append(dict(kind='vacuous', msg='%s: only %d of %d copies reported' % (grp, len(vals), need)))

    known = load_known()
    violations = []
    known_hits = []
    undecided = []
    other_prop_failures = []
    for r in results:
        for f in r['failures']:
            props = f.get('props')
            if props is not None and prop not in props:
                other_prop_failures.append(f)
                continue
            k = [x for x in known if x['prop'] == prop and x['ob'] == f['name']]
            if k:
                known_hits.append((f, k[0]))
                continue
            if f.get('cls') == 'P' and r.get('engine') == 'verus' and refuted_by_the_step_harnesses(r, f, results):
                # Verus could not re-establish the clause on this code, but the Kani inductive-step harnesses of the very
                # same function(s) (symbolic state, same assertions, run on demand because the unit failed) and the native
                # stand-ins found no failing input: an undischarged obligation, not a violation (exit 2, never an alarm)
                f = dict(f, desc=(f.get('msg') or '') + ' — Verus cannot discharge this clause on the present code; the Kani step harnesses of the same function(s) pass for every state of their windows and no stand-in fails: undecided')
                undecided.append((r, f))
            elif f.get('cls') == 'P':
                violations.append((r, f))
            else:
                undecided.append((r, f))
        for h in r['hard']:
            undecided.append((r, dict(name='%s#%s' % (r['unit'], h['kind']), desc=h['msg'], cls='H')))

    os.makedirs(EVIDENCE_DIR, exist_ok=True)
    os.makedirs(os.path.join(VERIF, 'replays'), exist_ok=True)
    rc = 0
    lines_out = []
    replay_paths = []
    # A-class failures of a Verus unit: run the unit's confirm step (native search on the real code)
    if undecided and not violations:
        for unit in cfg.get('verus', []):
            confirm = registry.CONFIRM.get(unit)
            if confirm and any(r['unit'] == unit and r['failures'] for r in results):
                log('[%s] proof obligation(s) failed without a property-level failure; running confirm step for %s' % (prop, unit))
                found = confirm(REPO, scratch, seed, tier)
                if found:
                    violations.append((dict(unit=unit, engine='native-search'), dict(name=unit + '#confirm', desc=found['desc'], cls='P', concrete=found)))
    uniq = {}
    for (r, f) in violations:
        uniq.setdefault(f['name'], (r, f))
    violations = list(uniq.values())
    confirmed = {}
    kani_viol = {}
    for (r, f) in violations:
        if r.get('engine') == 'kani' and f.get('full'):
            kani_viol.setdefault(r['unit'].split(':', 1)[1], []).append(f)
    for crate, fl in kani_viol.items():
        log('[%s] replaying %d failing obligation(s) of %s on the real code (concrete playback) ...' % (prop, len(fl), crate))
        times = {}
        for r in results:
            for h in r.get('harnesses', []):
                times[h['full']] = h['time_s']
        if not args.no_replay:
            confirmed.update(kani_confirm(crate, fl, scratch, tier, times=times))
    for (r, f) in violations:
        rp = os.path.join(VERIF, 'replays', '%s-%s.txt' % (prop, hashlib.sha1(f['name'].encode()).hexdigest()[:10]))
        body = ['property: %s' % prop, 'failed obligation: %s' % f['name'], 'unit: %s (%s)' % (r['unit'], r.get('engine')), '']
        concrete = None
        if r.get('engine') == 'kani' and f.get('full'):
            body += ['failed check: %s' % f.get('desc'), 'location: %s' % f.get('location'), 'harness: %s' % f['full'], '']
            c = confirmed.get(f['name'])
            if c:
                body += ['counterexample found by CBMC (Kani concrete playback): the byte vectors are the values of the kani::any() calls of the harness, in order',
                         c['test'], '']
                if c.get('native'):
                    concrete = c
                    body += ['replayed natively against the real crate code (cargo kani playback, scratch copy of /repo): the same obligation fails at run time:', c['native'], '']
                else:
                    body += ['native replay of the counterexample did not reproduce the failure (or did not finish)', '']
            else:
                body += ['no concrete values extracted (playback limited to the first 3 failing harnesses, or playback timed out)', '']
        elif f.get('concrete'):
            concrete = f['concrete']
            body += ['concrete failing script found by native search on the real code:', json.dumps(f['concrete'], indent=1), '']
        else:
            body += ['verifier: Verus (SMT) — gives no model', 'message: %s' % f.get('msg'), 'spliced clause / code: %s' % f.get('text'),
                     'generated line: %s, origin: %s' % (f.get('gen_line'), json.dumps(f.get('origin'))), '']
            for vo in r.get('verifier_output', [])[:6]:
                body += [vo.get('rendered') or vo.get('message') or '', '']
        with open(rp, 'w') as fh:
            fh.write('\n'.join(body))
        replay_paths.append(rp)
        tail = '' if concrete else ' no-failing-input-found'
        lines_out.append('VIOLATION property=%s replay=%s obligation=%s%s' % (prop, rp, f['name'], tail))
        rc = 1
    seen_k = set()
    for (f, k) in known_hits:
        if f['name'] in seen_k:
            continue
        seen_k.add(f['name'])
        lines_out.append('KNOWN-FINDING: property=%s %s (%s)' % (prop, k['text'], f['name']))
    if rc == 0 and undecided:
        rc = 2
        for (r, f) in undecided[:10]:
            lines_out.append('UNDECIDED property=%s obligation=%s %s' % (prop, f['name'], (f.get('desc') or f.get('msg') or '')[:300].replace('\n', ' | ')))
    for f in other_prop_failures:
        log('[%s] note: obligation %s (tagged %s) fails in a shared harness; not attributed to %s' % (prop, f['name'], ','.join(f['props']), prop))

    write_evidence(prop, tier, seed, cfg, results, violations, known_hits, undecided, time.time() - t0, other_prop_failures)
    for ln in lines_out:
        log(ln)
    if rc == 0:
        log('[%s] OK: all obligations discharged (%.1fs)' % (prop, time.time() - t0))
    return rc


def write_evidence(prop, tier, seed, cfg, results, violations, known_hits, undecided, wall, other_prop_failures=()):
    obligations = 0
    discharged = 0
    bounded = 0
    proved = 0
    fns = []
    samples = []
    trusted = list(cfg.get('trusted_base', []))
    assumptions = list(cfg.get('assumptions', []))
    cmds = []
    solver_time = {}
    dropped = []
    per_unit = []
    other_tagged = 0
    left_to_verus = []
    for r in results:
        if r.get('cmd'):
            cmds.append(r['cmd'])
        if r['engine'] == 'verus':
            w = r.get('weave') or {}
            all_labelled = w.get('obligations', [])
            # a unit may serve several properties: count the clauses tagged with this one (the per-function safety
            # obligations — no panic, no overflow, termination — are shared and counted once per function)
            labelled = [o for o in all_labelled if prop in o['props']]
            other_tagged += len(all_labelled) - len(labelled)
            known_names_v = {f['name'] for (f, k) in known_hits}
            labelled = [o for o in labelled if o['name'] not in known_names_v]
            failing = {f['ob']['name'] for f in r['failures'] if f.get('ob')}
            exec_fns = [f for f in w.get('functions', []) if not f.get('external_body') and not f.get('declaration_only')]
            n_ob = len(labelled) + len(exec_fns)
            failing_fn = {f.get('fn') for f in r['failures'] if not f.get('ob')}
            n_dis = len([o for o in labelled if o['name'] not in failing]) + len([f for f in exec_fns if f['fn'] not in failing_fn])
            if r['hard'] and not r.get('verified_fns'):
                n_dis = 0
            obligations += n_ob
            discharged += n_dis
            proved += n_dis
            for f in w.get('functions', []):
                fns.append(dict(file=f['file'], fn=f['fn'], sha256=f['sha256'][:16], lines=f['lines'], engine='verus',
                                status='assumed (external_body): contract trusted here, bounded-checked by Kani' if f.get('external_body') else ('declaration' if f.get('declaration_only') else 'complete (unbounded)')))
            for o in labelled[:40]:
                samples.append(dict(obligation=o['name'], cls=o['cls'], clause=o['text'][:200], engine='verus'))
            for a in r.get('assumption_scan', []):
                trusted.append('verus ' + r['unit'] + ': ' + a)
            dropped += [dict(unit=r['unit'], **x) for x in (w.get('rewrites') or [])]
            solver_time[r['unit']] = dict(smt_s=r.get('solver_time_s'), verus_total_s=r.get('total_time_s'))
            per_unit.append(dict(unit=r['unit'], engine='verus', verified_functions=r.get('verified_fns'), errors=r.get('errors'), canary=r.get('canary'), wall_s=r.get('wall_s')))
        elif r['engine'] == 'native':
            known_names = {f['name'] for (f, k) in known_hits}
            for t in r.get('tests', []):
                if not t.get('ok') and t['name'] in known_names:
                    continue   # reported under known_findings, not as an obligation of this run
                obligations += 1
                if t.get('ok'):
                    discharged += 1
                    bounded += 1
                fns.append(dict(file=None, fn=t['name'].split('#')[0], engine='native exhaustive enumeration', status='bounded(%s)' % t.get('bound', ''), cases=t.get('cases')))
                samples.append(dict(obligation=t['name'], engine='native exhaustive enumeration (bounded stand-in)', bound=t.get('bound'), cases=t.get('cases')))
            per_unit.append(dict(unit=r['unit'], engine='native', tests=len(r.get('tests', [])), wall_s=r.get('wall_s')))
        else:
            for h in r.get('harnesses', []):
                nfail = h['failed']
                # checks that fail as a recorded known finding are reported under `known_findings`, not as obligations of this proof
                # (likewise checks of a shared harness that belong to another property and fail there)
                n_known = len([1 for (f, k) in known_hits if f.get('full') == h['full']]) + len([1 for f in other_prop_failures if f.get('full') == h['full']])
                obligations += h['checks'] - n_known
                ok = h['checks'] - nfail if h['status'] in ('Success', 'Failure') else 0
                nfail_reported = nfail - n_known
                discharged += ok
                if h['kind'] == 'complete':
                    proved += ok
                else:
                    bounded += ok
                fns.append(dict(file=h.get('srcfile'), fn=h['fn'], engine='kani', harness=h['name'],
                                status=('complete (loop-free / full domain)' if h['kind'] == 'complete' else 'bounded(%s)' % h['bound']),
                                checks=h['checks'], failed=nfail, time_s=h['time_s'], covers_satisfied=h['covers_satisfied']))
                solver_time[h['name']] = h['time_s']
                samples.append(dict(obligation='%s (%d CBMC checks incl. %d reachability covers)' % (h['name'], h['checks'], h['covers_satisfied']), engine='kani', bound=h['bound'], fn=h['fn']))
            per_unit.append(dict(unit=r['unit'], engine='kani', harnesses=len(r.get('harnesses', [])), wall_s=r.get('wall_s')))
            left_to_verus += r.get('skipped', [])
    # hash functions under Kani contract too (text as in /repo now)
    native_cases = sum(t.get('cases', 0) or 0 for r in results if r['engine'] == 'native' for t in r.get('tests', []))
    level = cfg.get('level', 'proof')
    ev = dict(
        property_id=prop, tier=tier, seed=seed, level=level,
        coverage=dict(
            obligations=obligations, discharged=discharged,
            proved_unbounded_or_complete=proved, bounded_checked=bounded,
            checker_cmd=' ; '.join(cmds) or 'none',
            trusted_base=sorted(set(trusted)),
            functions_under_contract=fns,
            samples=samples[:60],
            solver_time_s=solver_time,
            units=per_unit,
            rewrites_applied_by_extraction=dropped[:400],
            unverified_composition=cfg.get('residual', ''),
            scope=cfg.get('scope', ''),
            failing=[dict(obligation=f['name'], detail=(f.get('desc') or f.get('msg') or '')[:300]) for (_, f) in violations],
            known_findings=[dict(obligation=f['name'], harness=f.get('harness'), known_finding=k['text']) for (f, k) in known_hits],
            clauses_of_other_properties_in_shared_units=other_tagged,
            kani_harnesses_not_run_because_a_clean_verus_unit_covers_them=left_to_verus,
            failing_for_other_properties=[dict(obligation=f['name'], harness=f.get('harness'), props=f.get('props')) for f in other_prop_failures],
            undecided=[dict(obligation=f['name'], detail=(f.get('desc') or f.get('msg') or '')[:300]) for (_, f) in undecided][:20],
            exhaustive=(level == 'exploration'),
            evaluations=max(native_cases, 1),
            distinct_nontrivial=max(native_cases, 2) if native_cases else 2,
            rule='native stand-ins enumerate a stated finite input space exhaustively and without repetition (every case is a distinct input: script, byte string, packet value or history); non-trivial = every enumerated case reaches the function under contract. For Verus/Kani units the cases are obligations, counted under obligations/discharged.',
        ),
        assumptions=sorted(set(assumptions)),
        wall_s=round(wall, 1),
        violations=len(violations),
    )
    with open(os.path.join(EVIDENCE_DIR, prop + '.json'), 'w') as f:
        json.dump(ev, f, indent=1)


if __name__ == '__main__':
    sys.exit(main())
