SETUP = 'python3 tools/setup.py'
ENGINES = [
    dict(name='native-bounded', path='tools/driver.py + native/**/*.rs', serves_properties=['C11', 'C12', 'C02'],
         kind_free_text='bounded stand-in: exhaustive enumeration of a stated finite input space on the compiled real code (test module appended to a scratch copy); used only where neither Verus nor Kani can reach the function'),
    dict(name='verus-weave', path='tools/weave.py + contracts/*.vspec', serves_properties=['C13', 'C09', 'C06'],
         kind_free_text='deductive verification (Verus/Z3) of functions extracted verbatim from /repo on every run, contracts spliced in'),
    dict(name='kani-contracts', path='tools/driver.py + kani/<crate>/*.rs', serves_properties=['C02', 'C07', 'C10', 'C18'],
         kind_free_text='Kani/CBMC contract harnesses compiled into a scratch copy of the real crate as child modules (inductive-step pre/post over all well-formed states)'),
]
NOTES = 'Contract-based deductive verification of the real code; see DESIGN.md. exit 2 = undecided (never an alarm).'
NOT_APPLICABLE = {
    'C14': 'isolation across recycled connection ids is a statement about histories of two asynchronous links and broker.rs::remote(); it needs per-slot generation ghost state the code does not carry, and neither Verus (async, closures) nor Kani (ICE on Router::new, no async runtime) can hold a Router plus two link tasks',
    'C16': 'will fire/cancel is decided by an async task with timers and channels (broker.rs::remote()) plus a &mut Router method; nothing that decides it is inside the Verus subset or constructible under Kani (ICE on Router::new)',
}
_KANI_STATE = 'Kani/CBMC inductive-step contracts on the real MqttState methods (child module in a scratch copy of the crate): assume wf(pre) for ALL states of a bounded table, run one real operation with full-domain symbolic arguments, assert postcondition and wf(post); counterexamples replayed natively'
CHECKS = {
    'C02': dict(engine='kani-contracts', technique=_KANI_STATE + '; clean() content by exhaustive native enumeration (bounded stand-in)',
        level='Bounded proof of an inductive invariant (table size max_inflight <= 2 quick / 4 thorough; ids, QoS, flags, reason codes full domain) for v4 and v5: every accepted QoS>0 publish stays in a slot, in the release set or parked until its final ack or until clean() hands it back; labelled bounded, not an unbounded proof. Two genuine defects are recorded as known findings, five were repaired by fix: commits.',
        note='Trusted: Kani/CBMC, harness-built pre-states (all wf states), zeroed Instants, empty topic/payload. Async EventLoop composition unverified.'),
    'C07': dict(engine='kani-contracts', technique=_KANI_STATE + '; next_pkid as a loop-free complete harness over all limits',
        level='next_pkid: complete for all max_inflight 1..=65535. Id range/freshness, exact inflight counter, collision-only-while-held: bounded in table size only (n <= 2 quick / 4 thorough), v4 and v5 incl. CONNACK receive-maximum.',
        note='Trusted: Kani/CBMC, harness-built pre-states. select!-gate composition unverified. Known findings: id reuse while PUBCOMP pending; v5 receive-maximum lowered below the id counter.'),
    'C10': dict(engine='kani-contracts', technique=_KANI_STATE,
        level='Bounded (table size, 8-bit incoming id table) contracts for every inbound/outbound handler: reply kind and id, manual acks, unsolicited acks => Err with bookkeeping unchanged, one Outgoing event per written packet and none otherwise; ids full u16.',
        note='Trusted: Kani/CBMC; handle_incoming_packet dispatcher and Network batching not under contract.'),
    'C11': dict(engine='native-bounded', technique='exhaustive native enumeration of all well-formed states / all publish-ack scripts against the contract of clean() (bounded stand-in: CBMC cannot inspect the returned Vec<Request>)',
        level='BOUNDED stand-in, not a proof: clean() returns exactly the unacknowledged publishes (original id/content) in the documented rotation order then the pending releases, for all wf states with max_inflight <= 3/4; after any in-order-ack history of length <= 9/12 that order is the send order.',
        note='Bounded enumeration on the compiled real code; EventLoop ordering (async) unverified.'),
    'C18': dict(engine='kani-contracts', technique='Kani loop-free contract harness on outgoing_ping / handle_incoming_pingresp (Instant::now stubbed)',
        level='REDUCED SCOPE: complete proof of the ping-flag protocol only (unanswered ping reported at the next ping; answered ping never reported; collision timeout). All timing clauses of C18 are outside this family (tokio timers) and are NOT decided.',
        note='Trusted: Kani/CBMC, Instant::now stub. Timing not covered.'),
    'C06': dict(engine='verus-weave', technique='Verus deductive proof of sequence postconditions on the verbatim AckLog methods (reply queue FIFO, QoS 2 hold-until-release) and of the Tracker wake-up table',
        level='Unbounded proof at COMPONENT level: every AckLog operation appends exactly one ack (the given one) at the back and nothing else; a QoS 2 publish is held from PUBREC registration until the matching release pops it, once. The composition in Router::handle_device_payload / ack_device_data is NOT proved by this unit.',
        note='Trusted: Verus/Z3, stand-ins for packet structs. Router glue unverified here.'),
    'C09': dict(engine='verus-weave', technique='Verus deductive proof of the window invariant and FIFO ack contracts on the verbatim Outgoing methods, plus the wake-up table of Tracker::try_ready',
        level='Unbounded proof for the ack side: WIN preserved by register_ack, strict FIFO, free_slots == 100 - len, WIN => ids non-zero and pairwise distinct, IncomingAck resumes an InflightFull/Caughtup connection. push_forwards (id assignment) is NOT yet under contract: the window bound on the push side is unverified in this revision.',
        note='Trusted: Verus/Z3, stand-in declarations of foreign field types. Router glue (forward_device_data, consume) unverified.'),
    'C12': dict(engine='native-bounded', technique='exhaustive native enumeration of all (topic, filter) pairs up to a length bound against an executable transcription of the MQTT rules, in each of the three copies, plus digest comparison across copies (bounded stand-in: no verifier here reasons about str)',
        level='BOUNDED stand-in, not a proof: all topics/filters of <= 4/4 (quick) or 5/4 (thorough) characters over {a,B,/,+,#,$,2-byte,4-byte char}: matches == rules on valid pairs, valid_filter/valid_topic/has_wildcards == rules, no panic on any string of the space, three copies agree on every input of the space.',
        note='Bounded enumeration on the compiled real code.'),
    'C13': dict(
        engine='verus-weave',
        technique='Verus deductive proof (SMT) of pre/postconditions and a representation invariant on the verbatim CommitLog/Segment code, with a sequence-algebra spec of the retained suffix',
        level='Unbounded proof for every log state satisfying the representation invariant, every cursor (issued or fabricated) and every length <= u32::MAX: readv returns exactly the retained suffix at/after the cursor with own offsets, Done iff nothing remains, continuation resumes exactly; append/apply_retention keep the segment bound and drop only whole oldest segments. Segment::readv is outside Verus (iterator adapters): its contract is assumed here and bounded-checked by Kani.',
        note='Trusted: Verus/Z3, assume_specification of VecDeque::{back,front,back_mut}, the assumed contract of Segment::readv (bounded-checked), Clone returns an equal value; stated machine-arithmetic preconditions (tail, offsets, sizes below 2^64; len <= u32::MAX).',
    ),
}
