SETUP = 'python3 tools/setup.py'
ENGINES = [
    dict(name='verus-weave', path='tools/weave.py + contracts/*.vspec', serves_properties=['C13'],
         kind_free_text='deductive verification (Verus/Z3) of functions extracted verbatim from /repo on every run, contracts spliced in'),
    dict(name='kani-contracts', path='tools/driver.py + kani/<crate>/*.rs', serves_properties=[],
         kind_free_text='Kani/CBMC contract harnesses compiled into a scratch copy of the real crate as child modules (inductive-step pre/post over all well-formed states)'),
]
NOTES = 'Contract-based deductive verification of the real code; see DESIGN.md. exit 2 = undecided (never an alarm).'
NOT_APPLICABLE = {
    'C14': 'isolation across recycled connection ids is a statement about histories of two asynchronous links and broker.rs::remote(); it needs per-slot generation ghost state the code does not carry, and neither Verus (async, closures) nor Kani (ICE on Router::new, no async runtime) can hold a Router plus two link tasks',
    'C16': 'will fire/cancel is decided by an async task with timers and channels (broker.rs::remote()) plus a &mut Router method; nothing that decides it is inside the Verus subset or constructible under Kani (ICE on Router::new)',
}
CHECKS = {
    'C13': dict(
        engine='verus-weave',
        technique='Verus deductive proof (SMT) of pre/postconditions and a representation invariant on the verbatim CommitLog/Segment code, with a sequence-algebra spec of the retained suffix',
        level='Unbounded proof for every log state satisfying the representation invariant, every cursor (issued or fabricated) and every length <= u32::MAX: readv returns exactly the retained suffix at/after the cursor with own offsets, Done iff nothing remains, continuation resumes exactly; append/apply_retention keep the segment bound and drop only whole oldest segments. Segment::readv is outside Verus (iterator adapters): its contract is assumed here and bounded-checked by Kani.',
        note='Trusted: Verus/Z3, assume_specification of VecDeque::{back,front,back_mut}, the assumed contract of Segment::readv (bounded-checked), Clone returns an equal value; stated machine-arithmetic preconditions (tail, offsets, sizes below 2^64; len <= u32::MAX).',
    ),
}
