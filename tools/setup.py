#!/usr/bin/env python3
"""setup: warm the build caches the checks use (dependencies of both crates under Kani and natively).
Checks work without it (they rebuild what is missing), only slower; nothing here is needed for correctness and a
failure here is not fatal."""
import os, shutil, subprocess, sys, tempfile
HERE = os.path.dirname(os.path.abspath(__file__))
VERIF = os.path.dirname(HERE)
REPO = os.environ.get('VERIF_REPO', '/repo')
cache = os.path.join(VERIF, '.cache')
os.makedirs(cache, exist_ok=True)
os.makedirs(os.path.join(VERIF, 'evidence'), exist_ok=True)
os.makedirs(os.path.join(VERIF, 'replays'), exist_ok=True)
for cmd in (['verus', '--version'], ['cargo', 'kani', '--version']):
    try:
        r = subprocess.run(cmd, capture_output=True, text=True, timeout=60)
        print((r.stdout or r.stderr).strip().splitlines()[0] if (r.stdout or r.stderr).strip() else cmd)
    except Exception as e:  # noqa
        print('tool check failed:', cmd, e)
tmp = tempfile.mkdtemp(prefix='verif-setup-', dir=os.environ.get('TMPDIR', '/tmp'))
try:
    ws = os.path.join(tmp, 'ws')
    subprocess.run(['rsync', '-a', '--exclude', 'target', '--exclude', '.git', REPO + '/', ws + '/'], check=True)
    env = dict(os.environ, CARGO_NET_OFFLINE='true')
    jobs = [
        (dict(env, CARGO_TARGET_DIR=os.path.join(cache, 'native-target')), ['cargo', 'test', '--offline', '-p', 'rumqttc', '-p', 'rumqttd', '--lib', '--no-run']),
        (dict(env, CARGO_TARGET_DIR=os.path.join(cache, 'kani-target')), ['cargo', 'kani', '-p', 'rumqttc', '-Z', 'function-contracts', '-Z', 'stubbing', '-Z', 'unstable-options', '--only-codegen']),
        (dict(env, CARGO_TARGET_DIR=os.path.join(cache, 'kani-target')), ['cargo', 'kani', '-p', 'rumqttd', '-Z', 'function-contracts', '-Z', 'stubbing', '-Z', 'unstable-options', '--only-codegen']),
    ]
    for e, cmd in jobs:
        try:
            r = subprocess.run(cmd, cwd=ws, env=e, capture_output=True, text=True, timeout=1500)
            print(' '.join(cmd[:4]), '... rc', r.returncode)
        except Exception as ex:  # noqa
            print('warm-up step skipped:', ' '.join(cmd[:4]), ex)
finally:
    shutil.rmtree(tmp, ignore_errors=True)
sys.exit(0)
