#!/usr/bin/env python3
"""setup: warm the caches the checks use (Kani build of both crates).  Checks work without it, only slower."""
import os, subprocess, sys
HERE = os.path.dirname(os.path.abspath(__file__))
VERIF = os.path.dirname(HERE)
os.makedirs(os.path.join(VERIF, '.cache'), exist_ok=True)
os.makedirs(os.path.join(VERIF, 'evidence'), exist_ok=True)
r = subprocess.run(['verus', '--version'], capture_output=True, text=True)
print(r.stdout.strip()[:200])
r = subprocess.run(['cargo', 'kani', '--version'], capture_output=True, text=True)
print(r.stdout.strip()[:200])
sys.exit(0)
