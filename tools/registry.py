"""Which units decide which property, bounds per tier, harness files per crate."""
import os

JOBS = int(os.environ.get('VERIF_JOBS', '16'))
HARNESS_TIMEOUT = dict(quick=600, thorough=2400)
KANI_TOTAL_TIMEOUT = dict(quick=1500, thorough=7200)

# placeholders substituted into harness files (/verif/kani/<crate>/*.rs) per tier
# table sizes (max_inflight) for which every @steps harness is instantiated
STEP_NS = dict(quick=[2], thorough=[1, 2, 3, 4])

KANI_SUBST = dict(
    quick=dict(NMAX=3, UNWIND=10),
    thorough=dict(NMAX=5, UNWIND=12),
)


def _modpath_c(srcfile):
    # rumqttc/src/state.rs -> state ; src/v5/state.rs -> v5::state ; src/mqttbytes/topic.rs -> mqttbytes::topic
    p = srcfile[len('src/'):-len('.rs')]
    parts = p.split('/')
    if parts[-1] in ('mod', 'lib'):
        parts = parts[:-1]
    return '::'.join(parts)


KANI = dict(
    rumqttc=dict(
        modpath=_modpath_c,
        # (source file the child module is appended to, harness file, module name)
        modules=[
            ('src/state.rs', 'state_v4.rs', 'verif_kani'),
        ],
    ),
    rumqttd=dict(
        modpath=_modpath_c,
        modules=[
        ],
    ),
)

CONFIRM = {}

NATIVE = dict(
    rumqttc=dict(modules=[('src/state.rs', 'state_v4.rs', 'verif_native')]),
    rumqttd=dict(modules=[]),
)
NATIVE_ENV = dict(quick=dict(VERIF_NMAX=3, VERIF_DEPTH=9), thorough=dict(VERIF_NMAX=4, VERIF_DEPTH=12))

_CLIENT_STATE_TRUSTED = [
    'Kani 0.68 / CBMC 6.11 (bit-precise; machine arithmetic exact, overflow checks on)',
    'harness-built pre-states: all states satisfying wf with the stated table size; Instant values zeroed (FFI clock not modelled)',
    'topic and payload of publishes are empty in the harnesses (no state handler inspects them)',
    'results holding StateError and the state are mem::forget-ed (CBMC 6.11 aborts on the io::Error drop glue)',
]

PROPS = dict(
    C02=dict(
        verus=[], kani=['rumqttc'], native=['rumqttc'],
        scope='rumqttc MqttState (v4): handle_incoming_{puback,pubrec,pubcomp}, outgoing_publish, outgoing_pubrel/save_pubrel, clean — inductive-step contracts over all well-formed states',
        residual='EventLoop::{clean,poll,select,next_request} and Network are async (tokio::select!, Framed): that clean() runs on every error, that pending is kept iff session_present and drained before the channel is an unverified composition',
        trusted_base=_CLIENT_STATE_TRUSTED,
        assumptions=['bounded in table size (max_inflight) only: quick n=2 (outgoing_publish n=1,2), thorough n=1..4; packet ids, QoS, flags full domain'],
    ),
    C13=dict(
        verus=['commitlog'],
        kani=[],
        scope='CommitLog::{new,next_offset,append,apply_retention,readv} and Segment::{new,with_offset,next_offset,push,len,size} verified by Verus on the text extracted from /repo at run time; Segment::readv (iterator chain) assumed in Verus and bounded-checked by Kani',
        residual='DataLog::native_readv expiry filter (uses Instant) and Storage::size implementations are outside the unit',
        assumptions=[
            'machine arithmetic is NOT treated as mathematical: stated preconditions tail < u64::MAX, absolute_offset + 2*len + 2 <= u64::MAX, total_size + size(entry) <= u64::MAX on append; len <= u32::MAX on readv',
            'Clone::clone of a log entry returns an equal value (generic T: Clone has no specification)',
        ],
    ),
)
