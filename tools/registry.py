"""Which units decide which property, bounds per tier, harness files per crate."""
import os

JOBS = int(os.environ.get('VERIF_JOBS', '16'))
# CBMC on the MQTT 5 state harnesses needs ~10 GB at table size 2 and more above: fewer in parallel in the thorough tier
KANI_JOBS = dict(quick=JOBS, thorough=int(os.environ.get('VERIF_JOBS_THOROUGH', '4')))
HARNESS_TIMEOUT = dict(quick=900, thorough=3600)
KANI_TOTAL_TIMEOUT = dict(quick=2400, thorough=6 * 3600)
PLAYBACK_TIMEOUT = 420

# placeholders substituted into harness files (/verif/kani/<crate>/*.rs) per tier
# table sizes (max_inflight) for which every @steps harness is instantiated
STEP_NS = dict(quick=[2], thorough=[1, 2, 3])

KANI_SUBST = dict(
    quick=dict(NMAX=3, UNWIND=10),
    thorough=dict(NMAX=5, UNWIND=12),
)


def _modpath_c(srcfile):
    # rumqttc/src/state.rs -> state ; src/v5/state.rs -> v5::state ; src/mqttbytes/topic.rs -> mqttbytes::topic
    p = srcfile[len('src/'):-len('.rs')]
    parts = p.split('/')
    if parts[-1] in ('mod', 'lib'):
        parts = parts[:-1]
    return '::'.join(parts)


KANI = dict(
    rumqttc=dict(
        modpath=_modpath_c,
        # (source file the child module is appended to, harness file, module name)
        modules=[
            ('src/state.rs', 'state_v4.rs', 'verif_kani'),
            ('src/v5/state.rs', 'state_v5.rs', 'verif_kani'),
            ('src/mqttbytes/mod.rs', 'varint.rs', 'verif_kani_varint', dict(COPY='rumqttc::mqttbytes', LEN_LEN='spec_len_len', CHECK_MAX='max as usize', SIZE_ERR_PAT='Error::PayloadSizeLimitExceeded(_)')),
            ('src/v5/mqttbytes/v5/mod.rs', 'varint.rs', 'verif_kani_varint', dict(COPY='rumqttc::v5::mqttbytes::v5', LEN_LEN='len_len', CHECK_MAX='Some(max)', SIZE_ERR_PAT='Error::PayloadSizeLimitExceeded { .. }')),
        ],
    ),
    rumqttd=dict(
        modpath=_modpath_c,
        modules=[
            ('src/router/scheduler.rs', 'scheduler.rs', 'verif_kani'),
            ('src/segments/segment.rs', 'segment.rs', 'verif_kani'),
            # ('src/router/iobufs.rs', 'iobufs.rs', 'verif_kani'),   # NOT usable: parking_lot::Mutex::lock makes the Kani 0.68 compiler panic (intrinsics.rs:243)
            ('src/protocol/v4/mod.rs', 'varint.rs', 'verif_kani_varint', dict(COPY='rumqttd::protocol::v4', LEN_LEN='len_len', CHECK_MAX='max as usize', SIZE_ERR_PAT='Error::PayloadSizeLimitExceeded(_)')),
            ('src/protocol/v5/mod.rs', 'varint.rs', 'verif_kani_varint', dict(COPY='rumqttd::protocol::v5', LEN_LEN='len_len', CHECK_MAX='max as usize', SIZE_ERR_PAT='Error::PayloadSizeLimitExceeded(_)')),
        ],
    ),
)

CONFIRM = {}
# helper functions under Verus contract that no Kani harness names directly -> the functions whose harnesses exercise them
KANI_CALLERS = dict(check_collision=['handle_incoming_puback', 'handle_incoming_pubrec', 'handle_incoming_pubcomp'], save_pubrel=['outgoing_pubrel'],
                    handle_protocol_error=['handle_incoming_publish'], new=['next_pkid'])

NATIVE = dict(
    rumqttc=dict(modules=[('src/state.rs', 'state_v4.rs', 'verif_native'),
                          ('src/v5/state.rs', 'state_v5.rs', 'verif_native'),
                          ('src/eventloop.rs', 'eventloop_spec.rs', 'verif_native', dict(COPY='rumqttc', ORDERED='true', NEW='{ let mut o = MqttOptions::new("c", "localhost", 1883); o.set_inflight(inflight); EventLoop::new(o, 10) }', PUBLISH='Publish::new("t", crate::mqttbytes::QoS::AtLeastOnce, vec![issued])', PUBACK='Incoming::PubAck(crate::mqttbytes::v4::PubAck::new(pkid))', PUBLISH2='Publish::new("t", crate::mqttbytes::QoS::ExactlyOnce, vec![issued])', PUBREC='Incoming::PubRec(crate::mqttbytes::v4::PubRec::new(pkid))', PUBCOMP='Incoming::PubComp(crate::mqttbytes::v4::PubComp::new(pkid))')),
                          ('src/v5/eventloop.rs', 'eventloop_spec.rs', 'verif_native', dict(COPY='rumqttc::v5', ORDERED='false', NEW='{ let mut o = MqttOptions::new("c", "localhost", 1883); o.set_outgoing_inflight_upper_limit(inflight); EventLoop::new(o, 10) }', PUBLISH='Publish::new("t", crate::v5::mqttbytes::QoS::AtLeastOnce, vec![issued], None)', PUBACK='Incoming::PubAck(crate::v5::mqttbytes::v5::PubAck::new(pkid, None))', PUBLISH2='Publish::new("t", crate::v5::mqttbytes::QoS::ExactlyOnce, vec![issued], None)', PUBREC='Incoming::PubRec(crate::v5::mqttbytes::v5::PubRec::new(pkid, None))', PUBCOMP='Incoming::PubComp(crate::v5::mqttbytes::v5::PubComp::new(pkid, None))')),
                          ('src/mqttbytes/topic.rs', 'topic_spec.rs', 'verif_native'),
                          ('src/v5/mqttbytes/mod.rs', 'topic_spec.rs', 'verif_native'),
                          ('src/mqttbytes/v4/mod.rs', 'decoder_spec.rs', 'verif_native_dec', dict(COPY='rumqttc::mqttbytes::v4::Packet::read', DECODE='Packet::read(stream, max)')),
                          ('src/v5/mqttbytes/v5/mod.rs', 'decoder_spec.rs', 'verif_native_dec', dict(COPY='rumqttc::v5::mqttbytes::v5::Packet::read', DECODE='Packet::read(stream, Some(max as u32))'))]),
    rumqttd=dict(modules=[('src/protocol/mod.rs', 'topic_spec.rs', 'verif_native'),
                          ('src/router/routing.rs', 'router_model.rs', 'verif_native'),
                          ('src/protocol/mod.rs', 'codec_spec.rs', 'verif_native_codec'),
                          ('src/link/remote.rs', 'admission.rs', 'verif_native'),
                          ('src/segments/mod.rs', 'commitlog_model.rs', 'verif_native'),
                          ('src/router/logs.rs', 'datalog_model.rs', 'verif_native'),
                          ('src/router/scheduler.rs', 'scheduler_spec.rs', 'verif_native'),
                          ('src/router/waiters.rs', 'waiters_spec.rs', 'verif_native'),
                          ('src/protocol/v4/mod.rs', 'decoder_spec.rs', 'verif_native_dec', dict(COPY='rumqttd::protocol::v4::V4::read_mut', DECODE='V4.read_mut(stream, max)')),
                          ('src/protocol/v5/mod.rs', 'decoder_spec.rs', 'verif_native_dec', dict(COPY='rumqttd::protocol::v5::V5::read_mut', DECODE='V5.read_mut(stream, max)'))]),
)
# extra dev-dependencies written into the scratch copy's Cargo.toml (workspace members only: resolvable offline)
NATIVE_DEV_DEPS = dict(rumqttd=['rumqttc = { path = "../rumqttc" }'])
DIGEST_COPIES = {'topic-copies-agree': (3, ['C12'])}
NATIVE_ENV = dict(quick=dict(VERIF_NMAX=3, VERIF_DEPTH=11, VERIF_TOPIC_LEN=4, VERIF_FILTER_LEN=4, VERIF_EVENT_DEPTH=3, VERIF_REQ_DEPTH=3, VERIF_DEC_ALL=2, VERIF_DEC_LEN=6, VERIF_CODEC_BIG=0, VERIF_LOG_DEPTH=7, VERIF_ADMIT_DEPTH=4, VERIF_BAD_DEPTH=3, VERIF_EVT_DEPTH=3, VERIF_FUZZ_SEEDS=120, VERIF_LOOP_DEPTH=9), thorough=dict(VERIF_NMAX=4, VERIF_DEPTH=12, VERIF_TOPIC_LEN=5, VERIF_FILTER_LEN=4, VERIF_EVENT_DEPTH=4, VERIF_REQ_DEPTH=4, VERIF_DEC_ALL=3, VERIF_DEC_LEN=7, VERIF_CODEC_BIG=1, VERIF_LOG_DEPTH=9, VERIF_ADMIT_DEPTH=5, VERIF_BAD_DEPTH=4, VERIF_EVT_DEPTH=4, VERIF_FUZZ_SEEDS=3000, VERIF_LOOP_DEPTH=10))

_CLIENT_STATE_VERUS = [
    'Verus units cstate4 / cstate5: the handler bodies are the text of /repo at run time; stand-in declarations for Bytes, Instant/Duration, io::Error, mqttbytes::Error and the packet structs the handlers only move',
    'ASSUMED contracts of the fixedbitset crate (contains / insert / set against a Seq<bool> view, insert/set require bit < len as the crate panics otherwise): bounded-checked natively against a Vec<bool> model (fixedbitset_agrees_with_the_assumed_contract)',
    'ASSUMED: derived Clone of Publish / Packet returns an equal value',
    'documented rewrite `x.map(|p| {..})` -> `match x { Some(p) => Some({..}), None => None }` (definition of Option::map) where the closure captures &mut self (Verus rejects such closures)',
    'machine arithmetic NOT treated as mathematical: preconditions inflight < u16::MAX on outgoing_publish / save_pubrel, collision_ping_count < usize::MAX on outgoing_ping',
]

_CLIENT_STATE_TRUSTED = [
    'Kani 0.68 / CBMC 6.11 (bit-precise; machine arithmetic exact, overflow checks on)',
    'harness-built pre-states: all states satisfying wf with the stated table size; Instant values zeroed (FFI clock not modelled)',
    'topic and payload of publishes are empty in the harnesses (no state handler inspects them)',
    'results holding StateError and the state are mem::forget-ed (CBMC 6.11 aborts on the io::Error drop glue)',
]

PROPS = dict(
    C14=dict(
        level='exploration',
        verus=[], kani=[], native=['rumqttd'],
        scope='BOUNDED stand-in at router level: (1) a well-behaved QoS 1 publisher/subscriber pair keeps being served exactly, in order, and stays connected through every sequence of 3 misbehaviours of a third client (unsolicited acks, bad topics/filters, reconnects, flooding, stalled consumption, drops); (2) late Ready / DeviceData / Shadow / PublishWill / Disconnect signals of an ended connection after its slot was reused',
        residual='link tasks and broker.rs::remote (async) — which late signals a real link can still emit — are not covered; only the router reaction is',
        trusted_base=['rustc as compiled'],
        assumptions=['BOUNDED stand-in: connection ids are slab slots recycled immediately; the code carries no generation counter a contract could refer to'],
    ),
    C16=dict(
        level='exploration',
        verus=[], kani=[], native=['rumqttd'],
        scope='REDUCED SCOPE (router part): a registered will is published to the current matching subscribers exactly once when a PublishWill signal arrives, never after the client sent DISCONNECT, never for a client without a will; a retained will becomes the retained message of its topic',
        residual='WHEN the signal is produced — connection end without DISCONNECT, keep-alive expiry, will delay, cancellation on takeover — is decided by an async task with timers and channels (broker.rs::remote) and is NOT covered',
        trusted_base=['rustc as compiled'],
        assumptions=['BOUNDED stand-in at router level; the fire/cancel decision is outside every engine here'],
    ),
    C19=dict(
        level='exploration',
        verus=[], kani=[], native=['rumqttd'],
        scope='handle_auth (static credentials / external callback / none x logins: exhaustive); Router::handle_new_connection: client-id metacharacters refused, at most one live connection per client id (newest replaces), connection limit respected (bounded exploration of the real Router)',
        residual='mqtt_connect (first packet must be CONNECT of the listener protocol, non-zero keep-alive, empty client id only with clean session) reads from an async Network and is NOT covered; broker.rs listener code',
        trusted_base=['rustc as compiled; tokio current-thread runtime to drive the async fn'],
        assumptions=['BOUNDED stand-in: async fns and Router methods are outside Verus and Kani'],
    ),
    C01=dict(
        verus=['commitlog', 'tracker', 'waiters'], kani=['rumqttd'], native=['rumqttd'],
        scope='components proved: commit log (a cursor that starts at the tail and follows continuations reads every later entry exactly once, in order: Verus), park/wake table (Verus + Kani), topic matching of the broker copy (bounded, C12 unit); router-level: exact delivery per subscription explored natively on the real Router (bounded stand-in)',
        residual='whole-history liveness for arbitrary numbers of clients and schedules (link threads, tokio) is not decided; histories outside the explored space',
        trusted_base=['Verus/Z3; Kani/CBMC; rustc as compiled; harness plays the link as link/local.rs does'],
        assumptions=['BOUNDED stand-in at router level: Kani cannot compile a harness in which Router::new is reachable (compiler ICE, measured) and the handler bodies are outside the Verus subset'],
    ),
    C08=dict(
        verus=['commitlog', 'window'], kani=[], native=['rumqttd'],
        scope='components proved: commit log resume semantics (a rewound cursor re-reads exactly from there; a cursor into discarded data resumes at the oldest retained entry: Verus), window FIFO and Outgoing::retransmission_map (each filter resumes at the cursor of its oldest unacknowledged log entry, retained replays skipped: Verus, loop invariant over the real for-loop); router-level: session present / subscriptions kept / redelivery from the oldest unacknowledged message explored natively on the real Router (bounded stand-in)',
        residual='reconnect histories outside the explored space; QoS 2 release replay across sessions; retention overflow while away',
        trusted_base=['Verus/Z3; rustc as compiled'],
        assumptions=['BOUNDED stand-in at router level: Kani cannot compile a harness in which Router::new is reachable (compiler ICE, measured) and the handler bodies are outside the Verus subset'],
    ),
    C15=dict(
        level='exploration',
        verus=[], kani=[], native=['rumqttd'],
        scope='retained-message rules explored natively on the real Router: latest per topic to a NEW non-shared subscription (flagged retained), cleared by empty payload, live copies not flagged, no replay on repeated or shared subscription',
        residual='message-expiry of retained messages (Instant), delivery-window truncation with more than 100 retained messages, retain_forward_rule options',
        trusted_base=['rustc as compiled'],
        assumptions=['BOUNDED stand-in at router level: Kani cannot compile a harness in which Router::new is reachable (compiler ICE, measured) and the handler bodies are outside the Verus subset'],
    ),
    C17=dict(
        level='exploration',
        verus=['sharedgroup'], kani=[], native=['rumqttd'],
        scope='component proved (Verus, unbounded): SharedGroup::{new,is_empty,current_client,add_client,remove_client,update_next_client} keep the turn index inside the group, so the member whose turn it is always exists while the group has members; round robin advances to the next member. Router level: shared subscriptions explored natively on the real Router: each message to at most one member, never to a non-member, never twice, per-member order, everything forwarded when the group stays non-empty and members acknowledge promptly; 3 strategies',
        residual='the known parked-member stall (a member that does not consume) and arbitrary join/leave interleavings beyond one leave are outside the explored space',
        trusted_base=['rustc as compiled; rand::thread_rng for the Random strategy (every outcome must satisfy the oracle)', 'Verus unit sharedgroup: ASSUMED weak contract of Vec::retain (nothing added) and of rand gen_range (result inside the range); which members a removal keeps is decided by the router-level stand-in only'],
        assumptions=['BOUNDED stand-in at router level: Kani cannot compile a harness in which Router::new is reachable (compiler ICE, measured) and the handler bodies are outside the Verus subset'],
    ),
    C04=dict(
        verus=[], kani=['rumqttc', 'rumqttd'], native=['rumqttd'],
        scope='remaining-length codec (write_remaining_length / length / len_len) PROVED complete by Kani for every len: usize in all four copies; every packet type of the broker codecs (v4, v5) round-tripped, and client<->broker interoperation in both directions (3.1.1: all packet types, byte-identical encodings; MQTT 5: PUBLISH with every subset of properties), over a generated finite value set (bounded stand-in)',
        residual='packet values outside the generated set (longer strings / payload bytes other than the fill byte); MQTT 5 non-PUBLISH packets are round-tripped per implementation but not compared across implementations',
        trusted_base=['Kani/CBMC for the varint units; rustc as compiled for the enumeration'],
        assumptions=['packet-level part is a BOUNDED stand-in (CBMC on BytesMut/String/Vec-based packet codecs is out of reach in reasonable time)'],
    ),
    C20=dict(
        level='exploration',
        verus=[], kani=[], native=['rumqttd'],
        scope='V4::write / V5::write on every notification shape the router can emit (From<Notification>/From<Ack> image): no error, no panic; PUBLISH towards 3.1.1 keeps topic/payload/qos/id and drops properties (decoded by the client library), towards MQTT 5 keeps properties; client<->broker interoperation',
        residual='that forward_device_data passes stored properties through unchanged and RemoteLink uses the link protocol (Router-coupled / async)',
        trusted_base=['rustc as compiled'],
        assumptions=['BOUNDED stand-in over a generated finite value set'],
    ),
    C05=dict(
        verus=[], kani=['rumqttc', 'rumqttd'], native=['rumqttc', 'rumqttd'],
        scope='the four decoders (client v4/v5 Packet::read, broker V4/V5 read_mut): header logic (length, parse_fixed_header, check incl. max size) PROVED complete by Kani for all inputs in each copy; whole decoders checked on an exhaustive finite space of byte strings (bounded stand-in)',
        residual='Network::read/readv loops and Framed (async); frames longer than the bound (their header logic is covered by the complete Kani harnesses)',
        trusted_base=['Kani/CBMC for the header units; rustc as compiled for the enumeration'],
        assumptions=['whole-decoder part is a BOUNDED stand-in (CBMC on BytesMut-based packet parsers is out of reach in reasonable time): all byte strings <= 2 bytes (3 thorough) plus structured strings up to 6 (7) bytes'],
    ),
    C03=dict(
        level='exploration',
        verus=['tracker'], kani=[], native=['rumqttd'],
        scope='Router::events / handle_device_payload / handle_disconnection / consume driven natively on the real Router over every short history of router-level actions (bounded stand-in); matches() on arbitrary Unicode (C12 unit); Tracker::try_ready debug_assert guards (Verus)',
        residual='histories longer than the bound; link threads and tokio tasks (broker.rs, remote.rs) are not part of the harness',
        trusted_base=['rustc as compiled; harness plays the link exactly as link/local.rs does'],
        assumptions=['BOUNDED stand-in: Kani cannot compile any harness in which Router::new is reachable (compiler ICE, measured) and the handler bodies are outside the Verus subset, so the routing core is explored natively over a stated finite space'],
    ),
    C06=dict(
        verus=['acklog', 'tracker', 'waiters'], kani=[], native=['rumqttd'],
        scope='rumqttd AckLog::{new,connack,suback,puback,pubrec,pubrel,pubcomp,pingresp,unsuback}: each appends exactly the given ack at the back of the reply queue (FIFO), pubrec holds the QoS 2 publish, pubcomp releases the oldest held publish exactly once; Tracker::try_ready wake-up table',
        residual='the per-packet registration in Router::handle_device_payload (which ack is registered for which packet, one SUBACK code per filter) and ack_device_data (flush to the right Outgoing) are Router methods: Kani cannot build a Router (compiler ICE), Verus cannot take the bodies (drain iterators, closures, retain)',
        assumptions=['stand-in declarations for the packet structs AckLog only moves (never inspects)'],
    ),
    C07=dict(
        verus=['cstate4', 'cstate5'], kani=['rumqttc'], native=['rumqttc'],
        scope='rumqttc MqttState v4+v5: next_pkid (complete: all limits), outgoing_publish / subscribe / unsubscribe / pubrel id range and freshness, inflight counter exact (inflight == occupied slots + pending releases), collision only while the id is held, v5 CONNACK receive-maximum',
        residual='the select! guard `!inflight_full && !collision` and "resumes as soon as an ack frees the window" are async event-loop code (unverified composition); the state-level facts they rely on are the obligations here',
        trusted_base=_CLIENT_STATE_VERUS + _CLIENT_STATE_TRUSTED,
        assumptions=['Kani harnesses bounded in table size (max_inflight) only: quick n=2 (outgoing_publish n=1,2), thorough n=1..3; next_pkid is complete for all limits 1..=65535.  The Verus unit (v4) has no such bound'],
    ),
    C10=dict(
        verus=['cstate4', 'cstate5'], kani=['rumqttc'], native=['rumqttc'],
        scope='rumqttc MqttState v4+v5: handle_incoming_{publish,pubrel,puback,pubrec,pubcomp}, outgoing_{puback,pubrec,disconnect,subscribe,unsubscribe,ping}: reply kind/id, manual_acks, unsolicited acks are errors with bookkeeping unchanged, exactly one Outgoing event per written packet',
        residual='Network::readb batching / flush and the order in which EventLoop pops events are async code (unverified composition); the v4 handle_incoming_packet / handle_outgoing_packet dispatchers are under Verus contract (unit cstate4); the v5 dispatchers (Instant::now + large enum clone: outside CBMC reach in reasonable time) are covered by the bounded native stand-in events_mirror_the_wire_exactly (all histories of 3 steps over 22 request/packet kinds)',
        trusted_base=_CLIENT_STATE_VERUS + _CLIENT_STATE_TRUSTED,
        assumptions=['incoming QoS 2 id table bounded to 8 bits in the inbound harnesses (real table: 65536 bits); ack ids full u16'],
    ),
    C11=dict(
        level='exploration',
        verus=[], kani=[], native=['rumqttc'],
        scope='rumqttc v4 MqttState::clean: order and content of the returned requests for all well-formed states (bounded table), and the history lemma: after any publish / ack-oldest script clean() returns the unacknowledged publishes in send order, wrap-around included',
        residual='EventLoop::clean ordering (state first, channel second, PubAcks dropped), next_request preferring `pending`, pending.clear() on !session_present are async code: unverified composition',
        trusted_base=['rustc as compiled; exhaustive enumeration driver in native/rumqttc/state_v4.rs'],
        assumptions=['BOUNDED stand-in: CBMC cannot inspect the Vec<Request> returned by clean() (stack overflow / OOM, measured), so the contract of clean() is checked by exhaustive native enumeration of all well-formed states with max_inflight <= 3 (quick) / 4 (thorough) and all scripts of length <= 9 / 12'],
    ),
    C18=dict(
        verus=['cstate4', 'cstate5'], kani=['rumqttc'],
        scope='REDUCED SCOPE: the ping-flag protocol of MqttState v4+v5 only (outgoing_ping, handle_incoming_pingresp, clean): an unanswered PINGREQ is reported at the next ping, an answered one never is, collision timeout after two pings',
        residual='"at least once per keep-alive interval", "no later than the second interval", keep-alive zero never pings, connect timeout: all live in tokio::select!/time::timeout branches; no contract within reach of Verus or Kani expresses virtual time — NOT decided',
        trusted_base=_CLIENT_STATE_VERUS + _CLIENT_STATE_TRUSTED + ['std::time::Instant::now stubbed (FFI clock)'],
        assumptions=['timing clauses of C18 are not covered: a seeded change inside the async select! arm (seeded/C18-N2B: keep-alive timer re-armed after every write, so a busy client never pings) is NOT detected by this check'],
    ),
    C09=dict(
        verus=['window', 'tracker'], kani=['rumqttd'], native=['rumqttd'],
        scope='rumqttd Outgoing::{free_slots,register_ack,register_pubrec,register_pubcomp} under the window invariant WIN (ids consecutive in the 1..=100 cycle, <= 100 entries) incl. the lemma WIN => ids non-zero and pairwise distinct; Tracker::{try_ready,pause} wake-up table (IncomingAck resumes InflightFull/Caughtup)',
        residual='Outgoing::push_forwards (impl Iterator + parking_lot lock: outside Verus) and the call-site bound in forward_device_data (at most free_slots() items when qos != 0) are not under contract in this revision; unsolicited ack => that connection only and no-lost-wakeup across router turns are compositions in handle_device_payload/consume',
        assumptions=['stand-in declarations for parking_lot::Mutex, flume::Sender, Notification, DataRequest (held, never touched by the verified functions)'],
    ),
    C12=dict(
        level='exploration',
        verus=[], kani=[], native=['rumqttc', 'rumqttd'],
        scope='matches / valid_filter / valid_topic / has_wildcards in rumqttc/src/mqttbytes/topic.rs, rumqttc/src/v5/mqttbytes/mod.rs, rumqttd/src/protocol/mod.rs',
        residual='strings longer than the bound; characters outside the enumerated alphabet (the functions only compare bytes with / + # $ and levels with each other)',
        trusted_base=['rustc / std str::split, contains, starts_with as compiled'],
        assumptions=['BOUNDED stand-in (no deductive verifier here reasons about str): exhaustive over the stated finite space, not a proof for longer strings'],
    ),
    C02=dict(
        verus=['cstate4', 'cstate5'], kani=['rumqttc'], native=['rumqttc'],
        scope='rumqttc MqttState (v4): handle_incoming_{puback,pubrec,pubcomp}, outgoing_publish, outgoing_pubrel/save_pubrel and both dispatchers — Verus contracts over ALL well-formed states, unbounded in max_inflight (unit cstate4); the same inductive steps plus clean() again by Kani at bounded table size (v4 and v5)',
        residual='EventLoop::{clean,poll,select,next_request} and Network are async (tokio::select!, Framed): that clean() runs on every error, that pending is kept iff session_present and drained before the channel is an unverified composition',
        trusted_base=_CLIENT_STATE_VERUS + _CLIENT_STATE_TRUSTED,
        assumptions=['Kani harnesses (clean(), v5) bounded in table size (max_inflight) only: quick n=2 (outgoing_publish n=1,2), thorough n=1..3; packet ids, QoS, flags full domain.  The Verus unit has no such bound'],
    ),
    C13=dict(
        verus=['commitlog'],
        kani=['rumqttd'], native=['rumqttd'],
        scope='CommitLog::{new,next_offset,append,apply_retention,readv} and Segment::{new,with_offset,next_offset,push,len,size} verified by Verus on the text extracted from /repo at run time; Segment::readv (iterator chain) assumed in Verus and bounded-checked by Kani',
        residual='DataLog::native_readv (wrapper the router reads through; uses Instant for the expiry filter) is outside the Verus unit and covered by a BOUNDED native check that it returns exactly what CommitLog::readv returns; Storage::size implementations are outside the unit',
        assumptions=[
            'machine arithmetic is NOT treated as mathematical: stated preconditions tail < u64::MAX, absolute_offset + 2*len + 2 <= u64::MAX, total_size + size(entry) <= u64::MAX on append; the requested count of readv is unrestricted (any u64)',
            'Clone::clone of a log entry returns an equal value (generic T: Clone has no specification)',
        ],
    ),
)
