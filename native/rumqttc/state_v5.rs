// Native bounded stand-ins for rumqttc/src/v5/state.rs (see state_v4.rs for the protocol).

/// `new` establishes the representation invariant: tables sized for every id the wire can carry
// @native props=C10,C07,C02 tier=quick fn=v5::MqttState::new
#[test]
fn new_state_is_well_formed() {
    let name = "rumqttc::v5::MqttState::new#tables_sized_and_empty";
    let mut cases = 0;
    let mut fail: Option<String> = None;
    for n in [1u16, 2, 3, 100, 65535] {
        for manual in [false, true] {
            cases += 1;
            let st = MqttState::new(n, manual);
            let ok = st.outgoing_pub.len() == n as usize + 1
                && st.outgoing_pub.iter().all(|s| s.is_none())
                && st.outgoing_rel.len() == n as usize + 1
                && st.outgoing_rel.count_ones(..) == 0
                && st.incoming_pub.len() == u16::MAX as usize + 1
                && st.incoming_pub.count_ones(..) == 0
                && st.max_outgoing_inflight == n && st.max_outgoing_inflight_upper_limit == n
                && st.inflight == 0 && st.last_pkid == 0 && st.collision.is_none() && !st.await_pingresp && st.manual_acks == manual && st.events.is_empty();
            if !ok {
                fail = Some(format!("input=[new({}, {})] detail=[tables: outgoing_pub {}, outgoing_rel {}, incoming_pub {} bits]", n, manual, st.outgoing_pub.len(), st.outgoing_rel.len(), st.incoming_pub.len()));
                break;
            }
        }
    }
    match fail {
        None => println!("VERIF-OBLIGATION {} props=C10,C07,C02 bound=\"max_inflight in 1,2,3,100,65535 x manual_acks\" cases={} ok", name, cases),
        Some(f) => {
            println!("VERIF-FAIL {} props=C10,C07,C02 {}", name, f);
            panic!("{}", f);
        }
    }
}

use super::mqttbytes::v5::{Filter, PingResp, PublishProperties};

/// C10: `handle_incoming_packet` / `handle_outgoing_packet` surface every received packet exactly once and in wire
/// order, and announce exactly the packets they hand to the network — over every short history of requests and
/// broker packets (solicited, unsolicited, repeated, ids above the limit), manual acks on and off.
// @native props=C10 tier=quick fn=v5::MqttState::handle_incoming_packet+handle_outgoing_packet
#[test]
fn events_mirror_the_wire_exactly() {
    let name = "rumqttc::v5::MqttState::handle_incoming_packet#events_in_wire_order_one_outgoing_per_write";
    #[derive(Clone, Copy, Debug)]
    enum A { OutPub(u8), OutSub, OutUnsub, OutPing, InPub(u8, u16), InPubSetAlias(u8), InPubByAlias(u8), InAck(u16), InRec(u16), InRel(u16), InComp(u16), InSubAck, InPingResp, InConnAck }
    let acts = [A::OutPub(0), A::OutPub(1), A::OutPub(2), A::OutSub, A::OutUnsub, A::OutPing, A::InPub(0, 0), A::InPub(1, 7), A::InPub(2, 9), A::InPub(2, 65535), A::InPubSetAlias(1), A::InPubByAlias(0), A::InPubByAlias(1),
                A::InAck(1), A::InAck(2), A::InAck(9), A::InRec(1), A::InRec(2), A::InRel(9), A::InRel(3), A::InComp(1), A::InComp(2), A::InSubAck, A::InPingResp, A::InConnAck];
    fn kind_id(p: &Packet) -> (u8, u16) {
        match p {
            Packet::Publish(x) => (1, x.pkid), Packet::PubAck(x) => (2, x.pkid), Packet::PubRec(x) => (3, x.pkid), Packet::PubRel(x) => (4, x.pkid),
            Packet::PubComp(x) => (5, x.pkid), Packet::Subscribe(x) => (6, x.pkid), Packet::Unsubscribe(x) => (7, x.pkid), Packet::PingReq(_) => (8, 0),
            Packet::Disconnect(_) => (9, 0), _ => (0, 0),
        }
    }
    fn okind_id(o: &Outgoing) -> (u8, u16) {
        match o {
            Outgoing::Publish(k) => (1, *k), Outgoing::PubAck(k) => (2, *k), Outgoing::PubRec(k) => (3, *k), Outgoing::PubRel(k) => (4, *k), Outgoing::PubComp(k) => (5, *k),
            Outgoing::Subscribe(k) => (6, *k), Outgoing::Unsubscribe(k) => (7, *k), Outgoing::PingReq => (8, 0), Outgoing::Disconnect => (9, 0),
            Outgoing::AwaitAck(k) => (10, *k), Outgoing::PingResp => (11, 0),
        }
    }
    let depth: usize = std::env::var("VERIF_EVT_DEPTH").ok().and_then(|s| s.parse().ok()).unwrap_or(3);
    let n = acts.len();
    let mut cases = 0u64;
    let mut fail: Option<String> = None;
    'outer: for manual in [false, true] {
        for code in 0..n.pow(depth as u32) {
            cases += 1;
            let seq: Vec<A> = (0..depth).map(|k| acts[(code / n.pow(k as u32)) % n]).collect();
            let mut st = MqttState::new(2, manual);
            let mut alias_known = false;
            for (k, a) in seq.iter().enumerate() {
                let before: Vec<Event> = st.events.iter().cloned().collect();
                let unknown_alias = matches!(a, A::InPubByAlias(_)) && !alias_known;
                if matches!(a, A::InPubSetAlias(_)) { alias_known = true; }
                let (incoming, res): (Option<Incoming>, Result<Option<Packet>, StateError>) = match a {
                    A::OutPub(q) => { let qos = match q { 0 => QoS::AtMostOnce, 1 => QoS::AtLeastOnce, _ => QoS::ExactlyOnce }; (None, st.handle_outgoing_packet(Request::Publish(Publish::new("t", qos, vec![k as u8], None)))) }
                    A::OutSub => (None, st.handle_outgoing_packet(Request::Subscribe(Subscribe::new(Filter::new("a/b", QoS::AtLeastOnce), None)))),
                    A::OutUnsub => (None, st.handle_outgoing_packet(Request::Unsubscribe(Unsubscribe::new("a/b", None)))),
                    A::OutPing => (None, st.handle_outgoing_packet(Request::PingReq)),
                    A::InPub(q, id) => { let qos = match q { 0 => QoS::AtMostOnce, 1 => QoS::AtLeastOnce, _ => QoS::ExactlyOnce }; let mut p = Publish::new("x", qos, vec![1u8], None); p.pkid = *id; let i = Incoming::Publish(p); (Some(i.clone()), st.handle_incoming_packet(i)) }
                    // topic aliases: a publish that registers alias 3, and publishes that carry only the alias (empty topic)
                    A::InPubSetAlias(q) | A::InPubByAlias(q) => {
                        let qos = match q { 0 => QoS::AtMostOnce, 1 => QoS::AtLeastOnce, _ => QoS::ExactlyOnce };
                        let topic = if matches!(a, A::InPubSetAlias(_)) { "x" } else { "" };
                        let mut p = Publish::new(topic, qos, vec![1u8], Some(PublishProperties { topic_alias: Some(3), ..Default::default() }));
                        p.pkid = 5;
                        let i = Incoming::Publish(p);
                        (Some(i.clone()), st.handle_incoming_packet(i))
                    }
                    A::InAck(id) => { let i = Incoming::PubAck(PubAck::new(*id, None)); (Some(i.clone()), st.handle_incoming_packet(i)) }
                    A::InRec(id) => { let i = Incoming::PubRec(PubRec::new(*id, None)); (Some(i.clone()), st.handle_incoming_packet(i)) }
                    A::InRel(id) => { let i = Incoming::PubRel(PubRel::new(*id, None)); (Some(i.clone()), st.handle_incoming_packet(i)) }
                    A::InComp(id) => { let i = Incoming::PubComp(PubComp::new(*id, None)); (Some(i.clone()), st.handle_incoming_packet(i)) }
                    A::InSubAck => { let i = Incoming::SubAck(SubAck { pkid: 1, return_codes: vec![SubscribeReasonCode::Success(QoS::AtMostOnce)], properties: None }); (Some(i.clone()), st.handle_incoming_packet(i)) }
                    A::InPingResp => { let i = Incoming::PingResp(PingResp); (Some(i.clone()), st.handle_incoming_packet(i)) }
                    A::InConnAck => { let i = Incoming::ConnAck(ConnAck { session_present: false, code: ConnectReturnCode::Success, properties: None }); (Some(i.clone()), st.handle_incoming_packet(i)) }
                };
                let after: Vec<Event> = st.events.iter().cloned().collect();
                let desc = format!("manual_acks={} history={:?} (step {})", manual, seq, k);
                if after.len() < before.len() || after[..before.len()] != before[..] {
                    fail = Some(format!("input=[{}] detail=[earlier events were changed]", desc));
                    break 'outer;
                }
                let mut new = after[before.len()..].to_vec();
                if let Some(i) = &incoming {
                    // the received packet is surfaced first, exactly once
                    if new.first() != Some(&Event::Incoming(i.clone())) {
                        fail = Some(format!("input=[{}] detail=[received {:?} but the events added were {:?}]", desc, i, new));
                        break 'outer;
                    }
                    new.remove(0);
                }
                let written = match &res { Ok(Some(p)) => Some(kind_id(p)), _ => None };
                let announced: Vec<(u8, u16)> = new.iter().filter_map(|e| match e { Event::Outgoing(o) => Some(okind_id(o)), _ => None }).collect();
                if new.len() != announced.len() {
                    fail = Some(format!("input=[{}] detail=[unexpected extra Incoming events {:?}]", desc, new));
                    break 'outer;
                }
                let ok = match written {
                    Some(w) => announced == vec![w],
                    // nothing is written: nothing may be announced, except the documented AwaitAck of a parked publish
                    None => announced.is_empty() || (announced.len() == 1 && announced[0].0 == 10 && matches!(res, Ok(None))),
                };
                if !ok {
                    fail = Some(format!("input=[{}] detail=[packet handed to the network: {:?}; outgoing notifications added: {:?}]", desc, res.as_ref().map(|o| o.as_ref().map(kind_id)).map_err(|e| format!("{:?}", e)), new));
                    break 'outer;
                }
                // replies to inbound QoS flows
                if let (Some(Incoming::Publish(p)), Ok(out)) = (&incoming, &res) {
                    // an alias the broker never registered is a protocol error: the only thing written is the DISCONNECT
                    let exp = if unknown_alias { Some((9u8, 0u16)) } else if manual || p.qos == QoS::AtMostOnce { None } else if p.qos == QoS::AtLeastOnce { Some((2u8, p.pkid)) } else { Some((3u8, p.pkid)) };
                    if out.as_ref().map(kind_id) != exp {
                        fail = Some(format!("input=[{}] detail=[inbound publish QoS {:?} id {} answered with {:?}, expected {:?}]", desc, p.qos, p.pkid, out.as_ref().map(kind_id), exp));
                        break 'outer;
                    }
                }
                if res.is_err() && incoming.is_none() && !matches!(a, A::OutPing) {
                    fail = Some(format!("input=[{}] detail=[a user request failed: {:?}]", desc, res.err()));
                    break 'outer;
                }
            }
        }
    }
    match fail {
        None => println!("VERIF-OBLIGATION {} props=C10 bound=\"all histories of {} steps over {} request/packet kinds, inflight limit 2, manual acks on/off\" cases={} ok", name, depth, n, cases),
        Some(f) => {
            println!("VERIF-FAIL {} props=C10 {}", name, f);
            panic!("{}", f);
        }
    }
}
