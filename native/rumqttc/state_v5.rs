// Native bounded stand-ins for rumqttc/src/v5/state.rs (see state_v4.rs for the protocol).

/// `new` establishes the representation invariant: tables sized for every id the wire can carry
// @native props=C10,C07,C02 tier=quick fn=v5::MqttState::new
#[test]
fn new_state_is_well_formed() {
    let name = "rumqttc::v5::MqttState::new#tables_sized_and_empty";
    let mut cases = 0;
    let mut fail: Option<String> = None;
    for n in [1u16, 2, 3, 100, 65535] {
        for manual in [false, true] {
            cases += 1;
            let st = MqttState::new(n, manual);
            let ok = st.outgoing_pub.len() == n as usize + 1
                && st.outgoing_pub.iter().all(|s| s.is_none())
                && st.outgoing_rel.len() == n as usize + 1
                && st.outgoing_rel.count_ones(..) == 0
                && st.incoming_pub.len() == u16::MAX as usize + 1
                && st.incoming_pub.count_ones(..) == 0
                && st.max_outgoing_inflight == n && st.max_outgoing_inflight_upper_limit == n
                && st.inflight == 0 && st.last_pkid == 0 && st.collision.is_none() && !st.await_pingresp && st.manual_acks == manual && st.events.is_empty();
            if !ok {
                fail = Some(format!("input=[new({}, {})] detail=[tables: outgoing_pub {}, outgoing_rel {}, incoming_pub {} bits]", n, manual, st.outgoing_pub.len(), st.outgoing_rel.len(), st.incoming_pub.len()));
                break;
            }
        }
    }
    match fail {
        None => println!("VERIF-OBLIGATION {} props=C10,C07,C02 bound=\"max_inflight in 1,2,3,100,65535 x manual_acks\" cases={} ok", name, cases),
        Some(f) => {
            println!("VERIF-FAIL {} props=C10,C07,C02 {}", name, f);
            panic!("{}", f);
        }
    }
}
