// C11 at event-loop level — the SYNCHRONOUS part: EventLoop::clean() (what is carried over, and in which order) together
// with the way the loop takes requests (`pending` first, then the channel; EventLoop::next_request).  The async rest
// (poll / select!) stays outside every unit.  Bounded native stand-in, child module of the real eventloop.rs.
//
// Oracle from the property: after a connection failure the client sends "every publish left unacknowledged by the
// previous connection ... before any request the user issued afterwards, ... in the order they were originally sent",
// "repeated failures during replay" included.  With QoS 1 publishes taken FIFO and acknowledged in order, that is:
// after every clean(), `pending` lists exactly the publishes that are not yet acknowledged, in the order the user
// issued them.

fn vn_tag(r: &Request) -> Option<u8> {
    match r {
        Request::Publish(p) => p.payload.first().copied(),
        _ => None,
    }
}

// @native props=C11,C02 tier=quick fn=EventLoop::clean+MqttState::{clean,handle_outgoing_packet,handle_incoming_packet}
#[test]
fn carried_over_requests_keep_their_order_across_repeated_failures() {
    let name = "@COPY@::EventLoop::clean#carried_over_requests_stay_in_issue_order";
    let depth: usize = std::env::var("VERIF_LOOP_DEPTH").ok().and_then(|s| s.parse().ok()).unwrap_or(9);
    let mut cases = 0u64;
    let mut fail: Option<String> = None;
    // ops: 0 = the user issues a QoS 1 publish (into the request channel); 1 = the loop takes its next request (pending
    // first, then the channel) and hands it to the state machine, if the window has room; 2 = the broker acknowledges the
    // oldest publish in flight; 3 = the connection fails and the next one resumes the session (EventLoop::clean)
    'outer: for inflight in 1..=3u16 {
        for code in 0..4u64.pow(depth as u32) {
            let ops: Vec<u64> = (0..depth).map(|k| (code / 4u64.pow(k as u32)) % 4).collect();
            cases += 1;
            let mut el = @NEW@;
            let mut issued = 0u8;
            let mut acked: Vec<u8> = vec![]; // tags acknowledged so far (the MQTT 5 client may resend, and so have acknowledged, out of issue order)
            let mut max_sent = 0u8; // tags 1..=max_sent have been handed to the state machine at least once
            let mut in_flight: std::collections::VecDeque<(u8, u16)> = Default::default();
            let mut script = String::new();
            for op in ops.iter().chain([3u64].iter()) {
                match op {
                    0 => {
                        if issued >= 8 {
                            continue;
                        }
                        issued += 1;
                        let p = @PUBLISH@;
                        if el.requests_tx.try_send(Request::Publish(p)).is_err() {
                            issued -= 1;
                            continue;
                        }
                        script.push_str(&format!("issue{} ", issued));
                    }
                    1 => {
                        if el.state.inflight >= inflight || el.state.collision.is_some() {
                            continue;
                        }
                        let next = match el.pending.pop_front() {
                            Some(r) => Some(r),
                            None => el.requests_rx.try_recv().ok(),
                        };
                        let Some(r) = next else { continue };
                        let tag = vn_tag(&r).unwrap();
                        match el.state.handle_outgoing_packet(r) {
                            Ok(Some(Packet::Publish(q))) => {
                                script.push_str(&format!("send{}(id{}) ", tag, q.pkid));
                                in_flight.push_back((tag, q.pkid));
                                max_sent = max_sent.max(tag);
                            }
                            other => {
                                fail = Some(format!("input=[inflight={} script={}] detail=[publish {} in an open window was not sent: {:?}]", inflight, script, tag, other.map(|_| ())));
                                break 'outer;
                            }
                        }
                    }
                    2 => {
                        let Some((tag, pkid)) = in_flight.pop_front() else { continue };
                        script.push_str(&format!("ack{} ", tag));
                        if el.state.handle_incoming_packet(@PUBACK@).is_err() {
                            fail = Some(format!("input=[inflight={} script={}] detail=[in-order PUBACK rejected]", inflight, script));
                            break 'outer;
                        }
                        acked.push(tag);
                    }
                    _ => {
                        script.push_str("FAIL+resume ");
                        el.clean();
                        // publishes that have been on the wire at least once and are not acknowledged
                        let resent = (1..=issued).filter(|t| !acked.contains(t) && *t <= max_sent).count();
                        in_flight.clear();
                        let mut got: Vec<u8> = el.pending.iter().filter_map(vn_tag).collect();
                        let want: Vec<u8> = (1..=issued).filter(|t| !acked.contains(t)).collect();
                        // the send-order clause of C11 is stated for the MQTT 3.1.1 client only: for the MQTT 5 client the
                        // publishes that were in flight may come back in any order, but before everything issued afterwards
                        if !@ORDERED@ && got.len() >= resent {
                            got[..resent].sort();
                        }
                        if got != want {
                            fail = Some(format!("input=[inflight={} script={}] detail=[after clean() the requests carried over are publishes {:?}; not yet acknowledged, in issue order: {:?}]", inflight, script, got, want));
                            break 'outer;
                        }
                    }
                }
            }
        }
    }
    match fail {
        None => println!("VERIF-OBLIGATION {} props=C11,C02 bound=\"inflight limits 1..=3 x all scripts of {} steps over issue / take / ack-oldest / fail+resume (QoS 1, up to 8 publishes), plus a final failure\" cases={} ok", name, depth, cases),
        Some(f) => {
            println!("VERIF-FAIL {} props=C11,C02 {}", name, f);
            panic!("{}", f);
        }
    }
}

// C02 at event-loop level, QoS 2: "every such message (and every pending release of a QoS 2 message) is transmitted again
// without user action".  Oracle from the property: after every clean() the requests carried over contain exactly one
// publish for every issued QoS 2 publish the broker has not yet answered with PUBREC, and exactly one release for every
// publish that has its PUBREC but not its PUBCOMP — whether that release was on the wire, or was itself still waiting in
// `pending` when the next failure came.  A request of another kind waiting in the channel (SUBSCRIBE) stays, behind them.
// @native props=C02 tier=quick fn=EventLoop::clean+MqttState::{clean,handle_outgoing_packet,handle_incoming_packet}
#[test]
fn carried_over_requests_cover_every_unfinished_qos2_flow() {
    let name = "@COPY@::EventLoop::clean#every_unfinished_qos2_flow_is_carried_over";
    let depth: usize = std::env::var("VERIF_LOOP_DEPTH").ok().and_then(|s| s.parse().ok()).unwrap_or(9).min(8);
    let mut cases = 0u64;
    let mut fail: Option<String> = None;
    // ops: 0 = the user issues a QoS 2 publish; 1 = the loop takes its next request (pending first — served whatever the
    // window —, then the channel if the window has room and no collision is unresolved); 2 = PUBREC for the oldest publish
    // on the wire; 3 = PUBCOMP for the oldest release on the wire; 4 = the connection fails, the next one resumes the session
    'outer: for inflight in 1..=3u16 {
        for code in 0..5u64.pow(depth as u32) {
            let ops: Vec<u64> = (0..depth).map(|k| (code / 5u64.pow(k as u32)) % 5).collect();
            cases += 1;
            let mut el = @NEW@;
            let mut issued = 0u8;
            let mut received: Vec<u8> = vec![]; // tags whose PUBREC has arrived
            let mut owed: Vec<u16> = vec![]; // ids with PUBREC but no PUBCOMP yet: a release is owed to the broker
            let mut wire_pub: std::collections::VecDeque<(u8, u16)> = Default::default();
            let mut wire_rel: std::collections::VecDeque<u16> = Default::default();
            let mut script = String::new();
            for op in ops.iter().chain([4u64].iter()) {
                match op {
                    0 => {
                        if issued >= 6 {
                            continue;
                        }
                        issued += 1;
                        let p = @PUBLISH2@;
                        if el.requests_tx.try_send(Request::Publish(p)).is_err() {
                            issued -= 1;
                            continue;
                        }
                        script.push_str(&format!("issue{} ", issued));
                    }
                    1 => {
                        // the two recorded known findings of outgoing_publish (#previous_parked_publish_not_overwritten: a second
                        // publish parked while one is parked replaces it; #id_not_awaiting_pubcomp: with the window full a fresh
                        // id can be one whose release still awaits PUBCOMP) are reachable here because the loop serves `pending`
                        // whatever the window and the collision flag.  They are reported under their own obligations; this one
                        // stays off those histories: a publish waits in `pending` while the window is full or a collision is open.
                        if (el.state.collision.is_some() || el.state.inflight >= inflight) && matches!(el.pending.front(), Some(Request::Publish(_))) {
                            continue;
                        }
                        let next = match el.pending.pop_front() {
                            Some(r) => Some(r),
                            None if el.state.inflight < inflight && el.state.collision.is_none() => el.requests_rx.try_recv().ok(),
                            None => None,
                        };
                        let Some(r) = next else { continue };
                        let what = match &r { Request::Publish(p) => format!("publish{}", p.payload[0]), Request::PubRel(p) => format!("release(id{})", p.pkid), _ => "other".to_string() };
                        match el.state.handle_outgoing_packet(r) {
                            Ok(Some(Packet::Publish(q))) => {
                                script.push_str(&format!("send{}(id{}) ", q.payload[0], q.pkid));
                                wire_pub.push_back((q.payload[0], q.pkid));
                            }
                            Ok(Some(Packet::PubRel(q))) => {
                                script.push_str(&format!("sendrel(id{}) ", q.pkid));
                                wire_rel.push_back(q.pkid);
                            }
                            Ok(None) => script.push_str(&format!("{}-parked ", what)),
                            other => {
                                fail = Some(format!("input=[inflight={} script={}] detail=[{} was refused: {:?}]", inflight, script, what, other.map(|_| ())));
                                break 'outer;
                            }
                        }
                    }
                    2 => {
                        let Some((tag, pkid)) = wire_pub.pop_front() else { continue };
                        script.push_str(&format!("pubrec{}(id{}) ", tag, pkid));
                        match el.state.handle_incoming_packet(@PUBREC@) {
                            Ok(Some(Packet::PubRel(q))) if q.pkid == pkid => {
                                received.push(tag);
                                owed.push(pkid);
                                wire_rel.push_back(pkid);
                            }
                            other => {
                                fail = Some(format!("input=[inflight={} script={}] detail=[PUBREC for a publish on the wire not answered with its release: {:?}]", inflight, script, other.map(|_| ())));
                                break 'outer;
                            }
                        }
                    }
                    3 => {
                        let Some(pkid) = wire_rel.pop_front() else { continue };
                        script.push_str(&format!("pubcomp(id{}) ", pkid));
                        match el.state.handle_incoming_packet(@PUBCOMP@) {
                            Ok(out) => {
                                owed.retain(|p| *p != pkid);
                                // a publish parked on this id goes out now
                                if let Some(Packet::Publish(q)) = out {
                                    script.push_str(&format!("send{}(id{}) ", q.payload[0], q.pkid));
                                    wire_pub.push_back((q.payload[0], q.pkid));
                                }
                            }
                            Err(e) => {
                                fail = Some(format!("input=[inflight={} script={}] detail=[PUBCOMP for a release on the wire rejected: {:?}]", inflight, script, e));
                                break 'outer;
                            }
                        }
                    }
                    _ => {
                        script.push_str("FAIL+resume ");
                        el.clean();
                        wire_pub.clear();
                        wire_rel.clear();
                        let mut got_pubs: Vec<u8> = el.pending.iter().filter_map(|r| match r { Request::Publish(p) => Some(p.payload[0]), _ => None }).collect();
                        let mut got_rels: Vec<u16> = el.pending.iter().filter_map(|r| match r { Request::PubRel(p) => Some(p.pkid), _ => None }).collect();
                        got_pubs.sort();
                        got_rels.sort();
                        let want_pubs: Vec<u8> = (1..=issued).filter(|t| !received.contains(t)).collect();
                        let mut want_rels = owed.clone();
                        want_rels.sort();
                        if got_pubs != want_pubs || got_rels != want_rels {
                            fail = Some(format!("input=[inflight={} script={}] detail=[after clean() the requests carried over hold publishes {:?} and releases for ids {:?}; unfinished: publishes {:?} without PUBREC, releases owed for ids {:?}]", inflight, script, got_pubs, got_rels, want_pubs, want_rels));
                            break 'outer;
                        }
                    }
                }
            }
        }
    }
    match fail {
        None => println!("VERIF-OBLIGATION {} props=C02 bound=\"inflight limits 1..=3 x all scripts of {} steps over issue QoS 2 / take / PUBREC oldest / PUBCOMP oldest / fail+resume (up to 6 publishes), plus a final failure\" cases={} ok", name, depth, cases),
        Some(f) => {
            println!("VERIF-FAIL {} props=C02 {}", name, f);
            panic!("{}", f);
        }
    }
}
