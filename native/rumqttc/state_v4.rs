// Native bounded stand-ins for rumqttc/src/state.rs (included as `#[cfg(test)] mod verif_native` child
// module of `state` in a scratch copy).  Used where CBMC cannot finish (measured: inspecting the
// `Vec<Request>` returned by `clean()` makes CBMC 6.11 recurse until stack overflow / OOM).
// Every test enumerates a finite space EXHAUSTIVELY (stated bound), runs the REAL function and
// checks the contract; output protocol (parsed by the driver):
//   VERIF-OBLIGATION <name> props=<..> bound="<..>" cases=<n> ok
//   VERIF-FAIL <name> props=<..> input=<concrete failing input> detail=<..>

fn mk_pub(pkid: u16, qos: u8, tag: u8) -> Publish {
    let q = if qos == 1 { QoS::AtLeastOnce } else { QoS::ExactlyOnce };
    let mut p = Publish::new(format!("t/{}", tag), q, vec![tag, pkid as u8]);
    p.pkid = pkid;
    p
}

/// all well-formed states with table size n: slot in {None, qos1, qos2}, release bit (only where the slot
/// is empty), last_puback in 0..=n, last_pkid in 0..n, optional parked publish on a held id
fn for_all_wf_states(n: usize, f: &mut dyn FnMut(&MqttState, &str)) -> u64 {
    let mut cases = 0u64;
    let slots_space = 3usize.pow(n as u32);
    for sc in 0..slots_space {
        for rc in 0..(1usize << n) {
            let mut ok = true;
            let mut st = MqttState::new(n as u16, false);
            let mut held = vec![];
            let mut c = sc;
            for i in 1..=n {
                let s = c % 3;
                c /= 3;
                let r = (rc >> (i - 1)) & 1 == 1;
                if s != 0 && r {
                    ok = false;
                    break;
                }
                if s != 0 {
                    st.outgoing_pub[i] = Some(mk_pub(i as u16, s as u8, i as u8));
                    st.inflight += 1;
                    held.push(i);
                }
                if r {
                    st.outgoing_rel.insert(i);
                    st.inflight += 1;
                    held.push(i);
                }
            }
            if !ok {
                continue;
            }
            for last_puback in 0..=n {
                for last_pkid in 0..n {
                    for coll in 0..=held.len() {
                        let mut s2 = st.clone();
                        s2.last_puback = last_puback as u16;
                        s2.last_pkid = last_pkid as u16;
                        if coll > 0 {
                            s2.collision = Some(mk_pub(held[coll - 1] as u16, 1, 200));
                        }
                        let desc = format!("n={} slots_code={} rel_code={} last_puback={} last_pkid={} collision={:?}", n, sc, rc, last_puback, last_pkid, s2.collision.as_ref().map(|p| p.pkid));
                        f(&s2, &desc);
                        cases += 1;
                    }
                }
            }
        }
    }
    cases
}

fn nmax() -> usize {
    std::env::var("VERIF_NMAX").ok().and_then(|s| s.parse().ok()).unwrap_or(3)
}

// @native props=C02,C11,C07 tier=quick fn=MqttState::clean
#[test]
fn clean_returns_everything_unacked_in_order() {
    let name = "rumqttc::MqttState::clean#returns_all_unacked_in_documented_order";
    let mut cases = 0;
    let mut fail: Option<String> = None;
    for n in 1..=nmax() {
        cases += for_all_wf_states(n, &mut |pre, desc| {
            if fail.is_some() {
                return;
            }
            let mut st = pre.clone();
            let pending = st.clean();
            // expected: slots last_puback+1..=n, then 1..=last_puback, then pending releases ascending
            let mut exp: Vec<Request> = vec![];
            let lp = pre.last_puback as usize;
            for i in (lp + 1..=n).chain(1..=lp) {
                if let Some(p) = &pre.outgoing_pub[i] {
                    exp.push(Request::Publish(p.clone()));
                }
            }
            // a publish parked on an id collision was accepted after all of those and never transmitted: it is handed back
            // too (C02: held for retransmission), without an id, and no collision stays pending on a table that is empty now
            // (C07: "a collision is only ever pending while the colliding id is genuinely held")
            if let Some(p) = &pre.collision {
                let mut q = p.clone();
                q.pkid = 0;
                exp.push(Request::Publish(q));
            }
            for i in 1..=n {
                if pre.outgoing_rel.contains(i) {
                    exp.push(Request::PubRel(PubRel::new(i as u16)));
                }
            }
            let mut why = String::new();
            if pending != exp {
                why = format!("returned {:?} expected {:?}", pending, exp);
            } else if st.outgoing_pub.iter().any(|x| x.is_some()) || st.outgoing_rel.count_ones(..) != 0 {
                why = "tables not emptied".into();
            } else if st.inflight != 0 {
                why = format!("inflight {} after clean", st.inflight);
            } else if st.collision.is_some() {
                why = "a collision is still pending although no id is held any more (it can never be resolved)".into();
            } else if st.last_pkid != pre.last_pkid {
                why = "packet id counter changed".into();
            } else if st.await_pingresp || st.collision_ping_count != 0 {
                why = "ping state not reset".into();
            }
            if !why.is_empty() {
                fail = Some(format!("input=[{}] detail=[{}]", desc, why));
            }
        });
    }
    match fail {
        None => println!("VERIF-OBLIGATION {} props=C02,C11 bound=\"all wf states, max_inflight 1..={}\" cases={} ok", name, nmax(), cases),
        Some(f) => {
            println!("VERIF-FAIL {} props=C02,C11 {}", name, f);
            panic!("{}", f);
        }
    }
}

struct Hist {
    n: usize,
    mode: u8,
    kind: u8,
    cases: u64,
    deviations: u64,
    fail: Option<String>,
}

impl Hist {
    // script notation: pK = QoS 1 publish sent with id K, qK = QoS 2 publish sent with id K, aK = in-order ack of id K (PUBACK, or
    // PUBREC+PUBCOMP for a QoS 2 one), F = connection failure + session resumed (carried-over requests replayed first),
    // L = connection failure + broker reports no session (carried-over requests dropped, state kept)
    /// verdict on one clean(): None = fine for this kind of obligation
    fn judge(&mut self, script: &str, pending: &Vec<Request>, sent: &std::collections::VecDeque<Publish>, marker: u16) -> Option<String> {
        let n = self.n;
        let exp: Vec<Request> = sent.iter().cloned().map(Request::Publish).collect();
        let q1 = |v: &Vec<Request>| -> Vec<u16> { v.iter().filter_map(|r| match r { Request::Publish(p) if p.qos == QoS::AtLeastOnce => Some(p.pkid), _ => None }).collect() };
        let ids = |v: &Vec<Request>| -> Vec<u16> { v.iter().map(|r| match r { Request::Publish(p) => p.pkid, _ => 0 }).collect() };
        let mut a: Vec<&Request> = pending.iter().collect();
        let mut b: Vec<&Request> = exp.iter().collect();
        let key = |r: &&Request| match r { Request::Publish(p) => (p.pkid, p.payload.to_vec()), _ => (0, vec![]) };
        a.sort_by_key(key);
        b.sort_by_key(key);
        if a != b {
            return Some(format!("input=[n={} script={}] detail=[clean returned ids {:?}, unacknowledged are {:?}: something lost, invented or altered]", n, script, ids(pending), ids(&exp)));
        }
        if q1(pending) == q1(&exp) {
            return None;
        }
        self.deviations += 1;
        if self.kind == 0 {
            return Some(format!("input=[n={} script={}] detail=[clean returned ids {:?}, send order was {:?}]", n, script, ids(pending), ids(&exp)));
        }
        // the recorded finding: the list is the slot order started after the id named by the last PUBACK
        let mut recorded: Vec<u16> = sent.iter().map(|p| p.pkid).collect();
        recorded.sort_by_key(|id| if *id > marker { (0, *id) } else { (1, *id) });
        if ids(pending) != recorded {
            return Some(format!("input=[n={} script={}] detail=[clean returned ids {:?}; send order was {:?}; the recorded deviation (list starts after the last PUBACKed id {}) would be {:?}: a different deviation]", n, script, ids(pending), ids(&exp), marker, recorded));
        }
        None
    }

    /// depth-first over all histories of at most `left` further effective steps (steps without effect are not taken)
    fn dfs(&mut self, st: &MqttState, sent: &std::collections::VecDeque<Publish>, marker: u16, tag: u8, script: &mut String, left: usize) {
        if self.fail.is_some() {
            return;
        }
        // the connection may fail here: what clean() hands back now
        let pending = st.clone().clean();
        self.cases += 1;
        if let Some(f) = self.judge(script, &pending, sent, marker) {
            self.fail = Some(f);
            return;
        }
        if left == 0 {
            return;
        }
        let mark = script.len();
        // publish QoS 1 / QoS 2 (window not full, nothing parked)
        for qos2 in [false, true] {
            if qos2 && self.mode != 1 {
                continue;
            }
            if st.inflight >= st.max_inflight || st.collision.is_some() {
                continue;
            }
            let mut st2 = st.clone();
            let p = Publish::new("t", if qos2 { QoS::ExactlyOnce } else { QoS::AtLeastOnce }, vec![tag.wrapping_add(1)]);
            match st2.handle_outgoing_packet(Request::Publish(p)) {
                Ok(Some(Packet::Publish(q))) => {
                    script.push(if qos2 { 'q' } else { 'p' });
                    script.push_str(&q.pkid.to_string());
                    script.push(' ');
                    let mut sent2 = sent.clone();
                    sent2.push_back(q);
                    st2.events.clear();
                    self.dfs(&st2, &sent2, marker, tag.wrapping_add(1), script, left - 1);
                    script.truncate(mark);
                }
                other => {
                    self.fail = Some(format!("input=[n={} script={}] detail=[publish in open window not sent: {:?}]", self.n, script, other.map(|_| ())));
                    return;
                }
            }
        }
        // the broker acknowledges the oldest unacknowledged publish
        if let Some(p) = sent.front() {
            let mut st2 = st.clone();
            let mut sent2 = sent.clone();
            sent2.pop_front();
            let mut marker2 = marker;
            let acked = if p.qos == QoS::AtLeastOnce {
                marker2 = p.pkid;
                st2.handle_incoming_packet(Incoming::PubAck(PubAck::new(p.pkid))).is_ok()
            } else {
                st2.handle_incoming_packet(Incoming::PubRec(PubRec::new(p.pkid))).is_ok() && st2.handle_incoming_packet(Incoming::PubComp(PubComp::new(p.pkid))).is_ok()
            };
            script.push('a');
            script.push_str(&p.pkid.to_string());
            script.push(' ');
            if !acked {
                self.fail = Some(format!("input=[n={} script={}] detail=[in-order ack rejected]", self.n, script));
                return;
            }
            st2.events.clear();
            self.dfs(&st2, &sent2, marker2, tag, script, left - 1);
            script.truncate(mark);
        }
        // connection failure, session resumed: the carried-over publishes are replayed first (in send order, as a faithful client)
        {
            let mut st2 = st.clone();
            let _ = st2.clean();
            script.push_str("F ");
            for p in sent.iter() {
                let r = Request::Publish(p.clone());
                match st2.handle_outgoing_packet(r.clone()) {
                    Ok(Some(Packet::Publish(q))) if Request::Publish(q.clone()) == r => {}
                    other => {
                        self.fail = Some(format!("input=[n={} script={}] detail=[replay of {:?} produced {:?}]", self.n, script, r, other.map(|_| ())));
                        return;
                    }
                }
            }
            st2.events.clear();
            self.dfs(&st2, sent, marker, tag, script, left - 1);
            script.truncate(mark);
        }
        // connection failure, the broker reports no session: carried-over requests dropped, state kept (EventLoop)
        if self.mode == 2 {
            let mut st2 = st.clone();
            let _ = st2.clean();
            script.push_str("L ");
            st2.events.clear();
            self.dfs(&st2, &Default::default(), marker, tag, script, left - 1);
            script.truncate(mark);
        }
    }
}

/// Engine of the C11 history lemmas.  `mode`: 0 = QoS 1 only, 1 = QoS 2 publishes interleaved, 2 = reconnects on which
/// the broker reports no session interleaved (carried-over requests dropped, state kept, as EventLoop does).
/// `kind`: 0 = "clean() hands the unacknowledged QoS 1 publishes back in send order" (stops at the first deviation);
/// 1 = "whenever the order deviates, it is exactly the deviation recorded as known finding: the list starts after the
/// id named by the last PUBACK" (so that any OTHER deviation is still reported although the finding is listed).
fn history_lemma(name: &str, mode: u8, kind: u8) {
    let depth: usize = std::env::var("VERIF_DEPTH").ok().and_then(|s| s.parse().ok()).unwrap_or(9);
    let mut cases = 0u64;
    let mut deviations = 0u64;
    let mut fail: Option<String> = None;
    for n in 1..=nmax() {
        let mut h = Hist { n, mode, kind, cases: 0, deviations: 0, fail: None };
        let mut st = MqttState::new(n as u16, false);
        // the inbound QoS 2 table plays no part here: keep the clones small
        st.incoming_pub = FixedBitSet::with_capacity(0);
        h.dfs(&st, &Default::default(), 0, 0, &mut String::new(), depth);
        cases += h.cases;
        deviations += h.deviations;
        if h.fail.is_some() {
            fail = h.fail;
            break;
        }
    }
    match fail {
        None => println!("VERIF-OBLIGATION {} props=C11 bound=\"every history of at most {} effective steps over publish QoS1 /{} ack-oldest / failure+resume{} from new(n), n 1..={}, with a failure after every prefix; {} deviating histories, each the recorded one\" cases={} ok", name, depth,
            if mode == 1 { " publish QoS2 /" } else { "" }, if mode == 2 { " / failure+no-session" } else { "" }, nmax(), deviations, cases),
        Some(f) => {
            println!("VERIF-FAIL {} props=C11 {}", name, f);
            panic!("{}", f);
        }
    }
}

// @native props=C11 tier=quick fn=MqttState::clean+outgoing_publish+handle_incoming_puback
#[test]
fn clean_after_in_order_ack_history_is_send_order() {
    history_lemma("rumqttc::MqttState::clean#send_order_after_in_order_acks", 0, 0);
}

/// the same with QoS 2 publishes interleaved (their ids are never named by a PUBACK, so the rotation marker
/// `last_puback` does not move for them): recorded as a KNOWN FINDING on the pinned tree, kept as a separate obligation
/// so that the pure QoS 1 lemma above still reports any other change
// @native props=C11 tier=quick fn=MqttState::clean+outgoing_publish+handle_incoming_{puback,pubrec,pubcomp}
#[test]
fn clean_send_order_with_qos2_publishes_interleaved() {
    history_lemma("rumqttc::MqttState::clean#send_order_with_qos2_interleaved", 1, 0);
}

/// ... and every deviating history of that space deviates exactly as recorded (anything else is a new violation)
// @native props=C11 tier=quick fn=MqttState::clean+outgoing_publish+handle_incoming_{puback,pubrec,pubcomp}
#[test]
fn clean_deviation_with_qos2_is_the_recorded_one() {
    history_lemma("rumqttc::MqttState::clean#qos2_interleaved_deviation_is_the_recorded_one", 1, 1);
}

/// reconnects on which the broker reports no session (EventLoop drops the carried-over requests, keeps the state)
// @native props=C11 tier=quick fn=MqttState::clean+outgoing_publish+handle_incoming_puback
#[test]
fn clean_send_order_after_a_lost_session() {
    history_lemma("rumqttc::MqttState::clean#send_order_after_a_lost_session", 2, 0);
}

// @native props=C11 tier=quick fn=MqttState::clean+outgoing_publish+handle_incoming_puback
#[test]
fn clean_deviation_after_a_lost_session_is_the_recorded_one() {
    history_lemma("rumqttc::MqttState::clean#lost_session_deviation_is_the_recorded_one", 2, 1);
}

/// `new` establishes the representation invariant: tables sized for every id the wire can carry
// @native props=C10,C07,C02 tier=quick fn=MqttState::new
#[test]
fn new_state_is_well_formed() {
    let name = "rumqttc::MqttState::new#tables_sized_and_empty";
    let mut cases = 0;
    let mut fail: Option<String> = None;
    for n in [1u16, 2, 3, 100, 65535] {
        for manual in [false, true] {
            cases += 1;
            let st = MqttState::new(n, manual);
            let ok = st.outgoing_pub.len() == n as usize + 1
                && st.outgoing_pub.iter().all(|s| s.is_none())
                && st.outgoing_rel.len() == n as usize + 1
                && st.outgoing_rel.count_ones(..) == 0
                // every u16 packet id of an inbound QoS 2 publish must be representable (no panic on insert)
                && st.incoming_pub.len() == u16::MAX as usize + 1
                && st.incoming_pub.count_ones(..) == 0
                && st.inflight == 0 && st.last_pkid == 0 && st.collision.is_none() && !st.await_pingresp && st.manual_acks == manual && st.events.is_empty();
            if !ok {
                fail = Some(format!("input=[new({}, {})] detail=[tables: outgoing_pub {}, outgoing_rel {}, incoming_pub {} bits]", n, manual, st.outgoing_pub.len(), st.outgoing_rel.len(), st.incoming_pub.len()));
                break;
            }
        }
    }
    match fail {
        None => println!("VERIF-OBLIGATION {} props=C10,C07,C02 bound=\"max_inflight in 1,2,3,100,65535 x manual_acks\" cases={} ok", name, cases),
        Some(f) => {
            println!("VERIF-FAIL {} props=C10,C07,C02 {}", name, f);
            panic!("{}", f);
        }
    }
}

/// C10: `handle_incoming_packet` / `handle_outgoing_packet` surface every received packet exactly once and in wire
/// order, and announce exactly the packets they hand to the network — over every short history of requests and
/// broker packets (solicited, unsolicited, repeated, ids above the limit), manual acks on and off.
// @native props=C10 tier=quick fn=MqttState::handle_incoming_packet+handle_outgoing_packet
#[test]
fn events_mirror_the_wire_exactly() {
    let name = "rumqttc::MqttState::handle_incoming_packet#events_in_wire_order_one_outgoing_per_write";
    #[derive(Clone, Copy, Debug)]
    enum A { OutPub(u8), OutSub, OutUnsub, OutPing, InPub(u8, u16), InAck(u16), InRec(u16), InRel(u16), InComp(u16), InSubAck, InPingResp, InConnAck }
    let acts = [A::OutPub(0), A::OutPub(1), A::OutPub(2), A::OutSub, A::OutUnsub, A::OutPing, A::InPub(0, 0), A::InPub(1, 7), A::InPub(2, 9), A::InPub(2, 65535),
                A::InAck(1), A::InAck(2), A::InAck(9), A::InRec(1), A::InRec(2), A::InRel(9), A::InRel(3), A::InComp(1), A::InComp(2), A::InSubAck, A::InPingResp, A::InConnAck];
    fn kind_id(p: &Packet) -> (u8, u16) {
        match p {
            Packet::Publish(x) => (1, x.pkid), Packet::PubAck(x) => (2, x.pkid), Packet::PubRec(x) => (3, x.pkid), Packet::PubRel(x) => (4, x.pkid),
            Packet::PubComp(x) => (5, x.pkid), Packet::Subscribe(x) => (6, x.pkid), Packet::Unsubscribe(x) => (7, x.pkid), Packet::PingReq => (8, 0),
            Packet::Disconnect => (9, 0), _ => (0, 0),
        }
    }
    fn okind_id(o: &Outgoing) -> (u8, u16) {
        match o {
            Outgoing::Publish(k) => (1, *k), Outgoing::PubAck(k) => (2, *k), Outgoing::PubRec(k) => (3, *k), Outgoing::PubRel(k) => (4, *k), Outgoing::PubComp(k) => (5, *k),
            Outgoing::Subscribe(k) => (6, *k), Outgoing::Unsubscribe(k) => (7, *k), Outgoing::PingReq => (8, 0), Outgoing::Disconnect => (9, 0),
            Outgoing::AwaitAck(k) => (10, *k), Outgoing::PingResp => (11, 0),
        }
    }
    let depth: usize = std::env::var("VERIF_EVT_DEPTH").ok().and_then(|s| s.parse().ok()).unwrap_or(3);
    let n = acts.len();
    let mut cases = 0u64;
    let mut fail: Option<String> = None;
    'outer: for manual in [false, true] {
        for code in 0..n.pow(depth as u32) {
            cases += 1;
            let seq: Vec<A> = (0..depth).map(|k| acts[(code / n.pow(k as u32)) % n]).collect();
            let mut st = MqttState::new(2, manual);
            for (k, a) in seq.iter().enumerate() {
                let before: Vec<Event> = st.events.iter().cloned().collect();
                let (incoming, res): (Option<Incoming>, Result<Option<Packet>, StateError>) = match a {
                    A::OutPub(q) => { let qos = match q { 0 => QoS::AtMostOnce, 1 => QoS::AtLeastOnce, _ => QoS::ExactlyOnce }; (None, st.handle_outgoing_packet(Request::Publish(Publish::new("t", qos, vec![k as u8])))) }
                    A::OutSub => (None, st.handle_outgoing_packet(Request::Subscribe(Subscribe::new("a/b", QoS::AtLeastOnce)))),
                    A::OutUnsub => (None, st.handle_outgoing_packet(Request::Unsubscribe(Unsubscribe::new("a/b")))),
                    A::OutPing => (None, st.handle_outgoing_packet(Request::PingReq(PingReq))),
                    A::InPub(q, id) => { let qos = match q { 0 => QoS::AtMostOnce, 1 => QoS::AtLeastOnce, _ => QoS::ExactlyOnce }; let mut p = Publish::new("x", qos, vec![1u8]); p.pkid = *id; let i = Incoming::Publish(p); (Some(i.clone()), st.handle_incoming_packet(i)) }
                    A::InAck(id) => { let i = Incoming::PubAck(PubAck::new(*id)); (Some(i.clone()), st.handle_incoming_packet(i)) }
                    A::InRec(id) => { let i = Incoming::PubRec(PubRec::new(*id)); (Some(i.clone()), st.handle_incoming_packet(i)) }
                    A::InRel(id) => { let i = Incoming::PubRel(PubRel::new(*id)); (Some(i.clone()), st.handle_incoming_packet(i)) }
                    A::InComp(id) => { let i = Incoming::PubComp(PubComp::new(*id)); (Some(i.clone()), st.handle_incoming_packet(i)) }
                    A::InSubAck => { let i = Incoming::SubAck(SubAck::new(1, vec![SubscribeReasonCode::Success(QoS::AtMostOnce)])); (Some(i.clone()), st.handle_incoming_packet(i)) }
                    A::InPingResp => { let i = Incoming::PingResp; (Some(i.clone()), st.handle_incoming_packet(i)) }
                    A::InConnAck => { let i = Incoming::ConnAck(ConnAck::new(ConnectReturnCode::Success, false)); (Some(i.clone()), st.handle_incoming_packet(i)) }
                };
                let after: Vec<Event> = st.events.iter().cloned().collect();
                let desc = format!("manual_acks={} history={:?} (step {})", manual, seq, k);
                if after.len() < before.len() || after[..before.len()] != before[..] {
                    fail = Some(format!("input=[{}] detail=[earlier events were changed]", desc));
                    break 'outer;
                }
                let mut new = after[before.len()..].to_vec();
                if let Some(i) = &incoming {
                    // the received packet is surfaced first, exactly once
                    if new.first() != Some(&Event::Incoming(i.clone())) {
                        fail = Some(format!("input=[{}] detail=[received {:?} but the events added were {:?}]", desc, i, new));
                        break 'outer;
                    }
                    new.remove(0);
                }
                let written = match &res { Ok(Some(p)) => Some(kind_id(p)), _ => None };
                let announced: Vec<(u8, u16)> = new.iter().filter_map(|e| match e { Event::Outgoing(o) => Some(okind_id(o)), _ => None }).collect();
                if new.len() != announced.len() {
                    fail = Some(format!("input=[{}] detail=[unexpected extra Incoming events {:?}]", desc, new));
                    break 'outer;
                }
                let ok = match written {
                    Some(w) => announced == vec![w],
                    // nothing is written: nothing may be announced, except the documented AwaitAck of a parked publish
                    None => announced.is_empty() || (announced.len() == 1 && announced[0].0 == 10 && matches!(res, Ok(None))),
                };
                if !ok {
                    fail = Some(format!("input=[{}] detail=[packet handed to the network: {:?}; outgoing notifications added: {:?}]", desc, res.as_ref().map(|o| o.as_ref().map(kind_id)).map_err(|e| format!("{:?}", e)), new));
                    break 'outer;
                }
                // replies to inbound QoS flows
                if let (Some(Incoming::Publish(p)), Ok(out)) = (&incoming, &res) {
                    let exp = if manual || p.qos == QoS::AtMostOnce { None } else if p.qos == QoS::AtLeastOnce { Some((2u8, p.pkid)) } else { Some((3u8, p.pkid)) };
                    if out.as_ref().map(kind_id) != exp {
                        fail = Some(format!("input=[{}] detail=[inbound publish QoS {:?} id {} answered with {:?}, expected {:?}]", desc, p.qos, p.pkid, out.as_ref().map(kind_id), exp));
                        break 'outer;
                    }
                }
                if res.is_err() && incoming.is_none() && !matches!(a, A::OutPing) {
                    fail = Some(format!("input=[{}] detail=[a user request failed: {:?}]", desc, res.err()));
                    break 'outer;
                }
            }
        }
    }
    match fail {
        None => println!("VERIF-OBLIGATION {} props=C10 bound=\"all histories of {} steps over {} request/packet kinds, inflight limit 2, manual acks on/off\" cases={} ok", name, depth, n, cases),
        Some(f) => {
            println!("VERIF-FAIL {} props=C10 {}", name, f);
            panic!("{}", f);
        }
    }
}

/// The Verus units cstate4 / cstate5 ASSUME a contract for the `fixedbitset` crate (contains / insert / set over a
/// Seq<bool> view, `insert` / `set` panic outside the capacity).  This checks the assumed contract against the
/// crate as compiled, exhaustively for small capacities and with probes at the real table sizes.
// @native props=C02,C07,C10 tier=quick fn=fixedbitset::FixedBitSet::{with_capacity,contains,insert,set,len}
#[test]
fn fixedbitset_agrees_with_the_assumed_contract() {
    let name = "fixedbitset::FixedBitSet#assumed_contract_of_contains_insert_set";
    let mut cases = 0u64;
    let mut fail: Option<String> = None;
    let prev = std::panic::take_hook();
    std::panic::set_hook(Box::new(|_| {}));
    // op code: 0..cap+1 = insert(i), then set(i,false), set(i,true) — index cap is out of range and must panic
    'outer: for cap in 0usize..=4 {
        let nops = 3 * (cap + 1);
        for len in 0..=3u32 {
            for code in 0..(nops as u64).pow(len) {
                cases += 1;
                let script: Vec<usize> = (0..len).map(|k| ((code / (nops as u64).pow(k)) % nops as u64) as usize).collect();
                let mut b = FixedBitSet::with_capacity(cap);
                let mut model = vec![false; cap];
                if b.len() != cap || b.count_ones(..) != 0 || (0..cap + 3).any(|j| b.contains(j)) {
                    fail = Some(format!("input=[capacity={}] detail=[with_capacity does not give {} clear bits]", cap, cap));
                    break 'outer;
                }
                for op in script.iter() {
                    let (kind, i) = (op / (cap + 1), op % (cap + 1));
                    let mut b2 = b.clone();
                    let r = std::panic::catch_unwind(move || {
                        match kind { 0 => b2.insert(i), 1 => b2.set(i, false), _ => b2.set(i, true) }
                        b2
                    });
                    match r {
                        Ok(nb) => {
                            if i >= cap {
                                fail = Some(format!("input=[capacity={} script={:?}] detail=[op on bit {} outside the capacity did not panic (the assumed precondition would be unnecessary, the view would be wrong)]", cap, script, i));
                                break 'outer;
                            }
                            model[i] = kind != 1;
                            b = nb;
                        }
                        Err(_) => {
                            if i < cap {
                                fail = Some(format!("input=[capacity={} script={:?}] detail=[op on bit {} inside the capacity panicked]", cap, script, i));
                                break 'outer;
                            }
                        }
                    }
                    if b.len() != cap || (0..cap + 3).any(|j| b.contains(j) != (j < cap && model[j])) {
                        fail = Some(format!("input=[capacity={} script={:?}] detail=[view {:?} differs from model {:?} or len {} != {}]", cap, script, (0..cap).map(|j| b.contains(j)).collect::<Vec<_>>(), model, b.len(), cap));
                        break 'outer;
                    }
                }
            }
        }
    }
    // the real table sizes: every bit settable and readable, neighbours untouched, nothing beyond the capacity
    if fail.is_none() {
        for cap in [101usize, 65536] {
            let mut b = FixedBitSet::with_capacity(cap);
            for i in [0usize, 1, 31, 32, 33, 63, 64, 65, cap / 2, cap - 2, cap - 1] {
                cases += 1;
                b.insert(i);
                let ok1 = b.contains(i) && (i == 0 || !b.contains(i - 1)) && (i + 1 >= cap || !b.contains(i + 1)) && !b.contains(cap) && !b.contains(cap + 64);
                b.set(i, false);
                let ok2 = !b.contains(i) && b.count_ones(..) == 0 && b.len() == cap;
                if !(ok1 && ok2) {
                    fail = Some(format!("input=[capacity={} bit={}] detail=[insert/set/contains disagree with the Seq<bool> view]", cap, i));
                    break;
                }
            }
        }
    }
    std::panic::set_hook(prev);
    match fail {
        None => println!("VERIF-OBLIGATION {} props=C02,C07,C10 bound=\"capacities 0..=4, all scripts of <= 3 insert/set operations (out-of-range index included), plus boundary bits at capacities 101 and 65536\" cases={} ok", name, cases),
        Some(f) => {
            println!("VERIF-FAIL {} props=C02,C07,C10 {}", name, f);
            panic!("{}", f);
        }
    }
}
