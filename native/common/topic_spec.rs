// Native bounded stand-in for C12: the topic functions of ONE copy (the module this file is included
// into: `use super::*` brings `matches`, `valid_filter`, `valid_topic`, `has_wildcards` into scope)
// against an executable transcription of the MQTT rules as stated in C12, exhaustively over all
// (topic, filter) pairs up to a length bound over the alphabet  a B / + # $ é(2-byte) 😀(4-byte).
// Output protocol: see native/rumqttc/state_v4.rs.  A digest of every answer is printed so that the
// driver can check that the three copies agree on every input of the space, valid or not.

const ALPHA: [&str; 8] = ["a", "B", "/", "+", "#", "$", "\u{e9}", "\u{1F600}"];

fn all_strings(maxlen: usize) -> Vec<String> {
    let mut out = vec![String::new()];
    let mut frontier = vec![String::new()];
    for _ in 0..maxlen {
        let mut next = vec![];
        for s in &frontier {
            for a in ALPHA.iter() {
                let mut t = s.clone();
                t.push_str(a);
                next.push(t);
            }
        }
        out.extend(next.iter().cloned());
        frontier = next;
    }
    out
}

// ---- the rules, transcribed from the property statement ----
fn spec_valid_topic(t: &str) -> bool {
    !t.chars().any(|c| c == '+' || c == '#')
}

fn spec_valid_filter(f: &str) -> bool {
    if f.is_empty() {
        return false;
    }
    let levels: Vec<&str> = f.split('/').collect();
    for (i, l) in levels.iter().enumerate() {
        let has_hash = l.chars().any(|c| c == '#');
        let has_plus = l.chars().any(|c| c == '+');
        if has_hash && !(*l == "#" && i == levels.len() - 1) {
            return false; // '#' only as a whole level and only last
        }
        if has_plus && *l != "+" {
            return false; // '+' only as a whole level
        }
    }
    true
}

fn spec_match_levels(t: &[&str], f: &[&str]) -> bool {
    match (f.first(), t.first()) {
        (None, None) => true,
        (None, Some(_)) => false,
        (Some(&"#"), _) if f.len() == 1 => true, // trailing '#': the parent and any number of levels
        (Some(_), None) => false,
        (Some(&"+"), Some(_)) => spec_match_levels(&t[1..], &f[1..]), // exactly one level
        (Some(fl), Some(tl)) => fl == tl && spec_match_levels(&t[1..], &f[1..]), // literal, case-sensitive
    }
}

fn spec_matches(topic: &str, filter: &str) -> bool {
    if topic.chars().next() == Some('$') {
        return false; // documented, stricter-than-spec rule of this code base
    }
    let t: Vec<&str> = topic.split('/').collect();
    let f: Vec<&str> = filter.split('/').collect();
    spec_match_levels(&t, &f)
}

fn env_usize(k: &str, d: usize) -> usize {
    std::env::var(k).ok().and_then(|s| s.parse().ok()).unwrap_or(d)
}

// @native props=C12,C03,C01 tier=quick fn=matches+valid_filter+valid_topic+has_wildcards
#[test]
fn topic_functions_follow_the_mqtt_rules() {
    let copy = module_path!();
    let name = format!("{}::topic#follows_mqtt_rules_and_never_panics", copy);
    let tl = env_usize("VERIF_TOPIC_LEN", 4);
    let fl = env_usize("VERIF_FILTER_LEN", 4);
    let topics = all_strings(tl);
    let filters = all_strings(fl);
    let mut cases = 0u64;
    let mut digest: u64 = 0xcbf29ce484222325;
    let mut mix = |b: u8| {
        digest ^= b as u64;
        digest = digest.wrapping_mul(0x100000001b3);
    };
    let mut fail: Option<String> = None;
    let prev = std::panic::take_hook();
    std::panic::set_hook(Box::new(|_| {}));
    'outer: for t in &topics {
        let vt = std::panic::catch_unwind(|| (valid_topic(t), has_wildcards(t)));
        match vt {
            Err(_) => { fail = Some(format!("input=[topic={:?}] detail=[valid_topic/has_wildcards panicked]", t)); break; }
            Ok((v, w)) => {
                mix(v as u8); mix(w as u8);
                if v != spec_valid_topic(t) { fail = Some(format!("input=[topic={:?}] detail=[valid_topic returned {} but the rules say {}]", t, v, !v)); break; }
                if w != t.chars().any(|c| c == '+' || c == '#') { fail = Some(format!("input=[s={:?}] detail=[has_wildcards returned {}]", t, w)); break; }
            }
        }
        for f in &filters {
            cases += 1;
            match std::panic::catch_unwind(|| matches(t, f)) {
                Err(_) => { fail = Some(format!("input=[topic={:?} filter={:?}] detail=[matches panicked]", t, f)); break 'outer; }
                Ok(m) => {
                    mix(m as u8);
                    if spec_valid_topic(t) && spec_valid_filter(f) && m != spec_matches(t, f) {
                        fail = Some(format!("input=[topic={:?} filter={:?}] detail=[matches returned {} but the MQTT rules say {}]", t, f, m, !m));
                        break 'outer;
                    }
                }
            }
        }
    }
    if fail.is_none() {
        for f in &filters {
            match std::panic::catch_unwind(|| valid_filter(f)) {
                Err(_) => { fail = Some(format!("input=[filter={:?}] detail=[valid_filter panicked]", f)); break; }
                Ok(v) => {
                    mix(v as u8);
                    if v != spec_valid_filter(f) { fail = Some(format!("input=[filter={:?}] detail=[valid_filter returned {} but the rules say {}]", f, v, !v)); break; }
                }
            }
        }
    }
    std::panic::set_hook(prev);
    match fail {
        None => {
            println!("VERIF-DIGEST topic-copies-agree {} {:016x}", copy, digest);
            println!("VERIF-OBLIGATION {} props=C12,C03,C01 bound=\"all topics of <= {} and filters of <= {} characters over a B / + # $ e-acute(2 bytes) emoji(4 bytes)\" cases={} ok", name, tl, fl, cases);
        }
        Some(f) => {
            println!("VERIF-FAIL {} props=C12,C03,C01 {}", name, f);
            panic!("{}", f);
        }
    }
}
