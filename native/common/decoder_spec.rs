// Native bounded stand-in for C05 (decoders are total, bounded and chunking-independent), one decoder per
// inclusion (placeholders substituted by the driver: @COPY@ = name of the copy, @DECODE@ = the call).
// The header logic itself (varint, frame check, max size) is PROVED for all inputs by the Kani unit
// kani/common/varint.rs; this file checks the whole decoder on a finite space of byte strings:
//   * every byte string of length <= VERIF_DEC_ALL (default 2; thorough 3), and
//   * every string  byte1(all 256) ++ remaining-length byte ++ body, body over 7 boundary byte values, total
//     length <= VERIF_DEC_LEN (default 6; thorough 7),
// each with max packet sizes {1, 4, 268435455}.  Oracle (from the property text):
//   no panic; Ok / malformed only when the declared frame is complete, consuming exactly the frame (never
//   more); "need more bytes" only while the header or the declared frame is incomplete, and then the buffer
//   is untouched; a declared length above the maximum is refused; the outcome depends only on the frame
//   (bytes after it never matter) — which makes the packet sequence independent of chunking.

use bytes::BytesMut as VBytesMut;

#[derive(PartialEq, Debug, Clone)]
enum Outcome {
    Packet(String),
    NeedMore(usize),
    Refused(String),
}

fn run_decoder(input: &[u8], max: usize) -> Result<(Outcome, usize), ()> {
    let mut buf = VBytesMut::from(input);
    let res = std::panic::catch_unwind(std::panic::AssertUnwindSafe(|| {
        let stream = &mut buf;
        let r = @DECODE@;
        match r {
            Ok(p) => Outcome::Packet(format!("{:?}", p)),
            Err(Error::InsufficientBytes(k)) => Outcome::NeedMore(k),
            Err(e) => Outcome::Refused(format!("{:?}", e)),
        }
    }));
    match res {
        Ok(o) => Ok((o, input.len() - buf.len())),
        Err(_) => Err(()),
    }
}

/// reference parse of the fixed header: Some((header_len, remaining_len)) | None = incomplete | Err = malformed
fn ref_header(b: &[u8]) -> Result<Option<(usize, usize)>, ()> {
    if b.len() < 2 {
        return Ok(None);
    }
    let mut v = 0usize;
    for i in 0..4 {
        match b.get(1 + i) {
            None => return Ok(None),
            Some(x) => {
                v += ((x & 0x7f) as usize) << (7 * i);
                if x & 0x80 == 0 {
                    return Ok(Some((2 + i, v)));
                }
            }
        }
    }
    Err(())
}

fn check_one(b: &[u8], max: usize) -> Result<(), String> {
    let (o, consumed) = run_decoder(b, max).map_err(|_| "decoder panicked".to_string())?;
    match ref_header(b) {
        Ok(None) => {
            if !matches!(o, Outcome::NeedMore(_)) || consumed != 0 {
                return Err(format!("incomplete header: outcome {:?}, consumed {}", o, consumed));
            }
        }
        Err(()) => {
            if !matches!(o, Outcome::Refused(_)) {
                return Err(format!("5-byte remaining length not refused: {:?}", o));
            }
        }
        Ok(Some((hl, rl))) => {
            if rl > max {
                if !matches!(o, Outcome::Refused(_)) {
                    return Err(format!("declared length {} above maximum {} not refused: {:?}", rl, max, o));
                }
            } else if b.len() < hl + rl {
                if o != Outcome::NeedMore(hl + rl - b.len()) || consumed != 0 {
                    return Err(format!("incomplete frame ({} of {} bytes): outcome {:?}, consumed {}", b.len(), hl + rl, o, consumed));
                }
            } else {
                if matches!(o, Outcome::NeedMore(_)) {
                    return Err(format!("asks for more bytes although the declared frame ({} bytes) is complete", hl + rl));
                }
                if consumed > hl + rl || (matches!(o, Outcome::Packet(_)) && consumed != hl + rl) {
                    return Err(format!("consumed {} bytes, declared frame is {} ({:?})", consumed, hl + rl, o));
                }
                // the answer depends on the frame only
                let mut longer = b.to_vec();
                longer.extend_from_slice(&[0xAA, 0x55]);
                let (o2, c2) = run_decoder(&longer, max).map_err(|_| "decoder panicked with trailing bytes".to_string())?;
                let (o3, c3) = run_decoder(&b[..hl + rl], max).map_err(|_| "decoder panicked on the exact frame".to_string())?;
                if o2 != o || c2 != consumed || o3 != o || c3 != consumed {
                    return Err(format!("outcome depends on bytes after the frame: {:?}/{} vs {:?}/{} vs exact {:?}/{}", o, consumed, o2, c2, o3, c3));
                }
            }
        }
    }
    Ok(())
}

fn dec_env(k: &str, d: usize) -> usize {
    std::env::var(k).ok().and_then(|s| s.parse().ok()).unwrap_or(d)
}

// @native props=C05 tier=quick fn=@COPY@ decoder
#[test]
fn decoder_is_total_bounded_and_frame_determined() {
    let name = "@COPY@#decoder_total_bounded_frame_determined";
    let all = dec_env("VERIF_DEC_ALL", 2);
    let maxlen = dec_env("VERIF_DEC_LEN", 6);
    let body: [u8; 7] = [0x00, 0x01, 0x02, 0x04, 0x7f, 0x80, 0xff];
    let rls: [u8; 10] = [0, 1, 2, 3, 4, 5, 6, 0x7f, 0x80, 0xff];
    let maxes = [1usize, 4, 268_435_455];
    let mut cases = 0u64;
    let mut fail: Option<String> = None;
    let prev = std::panic::take_hook();
    std::panic::set_hook(Box::new(|_| {}));
    let mut inputs: Vec<Vec<u8>> = vec![vec![]];
    // every string of length <= all
    let mut frontier: Vec<Vec<u8>> = vec![vec![]];
    for _ in 0..all {
        let mut next = Vec::with_capacity(frontier.len() * 256);
        for s in &frontier {
            for x in 0..=255u8 {
                let mut t = s.clone();
                t.push(x);
                next.push(t);
            }
        }
        inputs.extend(next.iter().cloned());
        frontier = next;
    }
    'outer: for phase in 0..2 {
        if phase == 1 {
            // structured longer strings, generated on the fly
            let mut bodies: Vec<Vec<u8>> = vec![vec![]];
            let mut fr: Vec<Vec<u8>> = vec![vec![]];
            for _ in 0..maxlen.saturating_sub(2) {
                let mut next = vec![];
                for s in &fr {
                    for x in body.iter() {
                        let mut t = s.clone();
                        t.push(*x);
                        next.push(t);
                    }
                }
                bodies.extend(next.iter().cloned());
                fr = next;
            }
            for b1 in 0..=255u8 {
                for rl in rls.iter() {
                    for bd in &bodies {
                        let mut s = vec![b1, *rl];
                        s.extend_from_slice(bd);
                        for m in maxes.iter() {
                            cases += 1;
                            if let Err(e) = check_one(&s, *m) {
                                fail = Some(format!("input=[bytes={:02x?} max_size={}] detail=[{}]", s, m, e));
                                break 'outer;
                            }
                        }
                    }
                }
            }
        } else {
            for s in &inputs {
                for m in maxes.iter() {
                    cases += 1;
                    if let Err(e) = check_one(s, *m) {
                        fail = Some(format!("input=[bytes={:02x?} max_size={}] detail=[{}]", s, m, e));
                        break 'outer;
                    }
                }
            }
        }
    }
    std::panic::set_hook(prev);
    match fail {
        None => println!("VERIF-OBLIGATION {} props=C05 bound=\"all byte strings of length <= {}; byte1(256) x length byte(10) x bodies over 7 boundary values up to total length {}; max sizes 1, 4, 268435455\" cases={} ok", name, all, maxlen, cases),
        Some(f) => {
            println!("VERIF-FAIL {} props=C05 {}", name, f);
            panic!("{}", f);
        }
    }
}
