// Native bounded stand-in for the contract of Waiters::remove (rumqttd/src/router/waiters.rs): the body
// (`iter().position(closure)` in a `while let`) is outside the Verus subset; register / take / with_capacity of the same
// type are under Verus contract (unit `waiters`).  Contract, from C14 ("signals belonging to a connection that has ended
// never act on a connection established later") and C01/C03: after remove(id) NO request of that connection is parked
// any more, however many it had on this log (a plain and a shared subscription on one path park two); the requests of
// other connections are all still there; what is returned is exactly what was taken out.

// @native props=C14,C01,C03 tier=quick fn=Waiters::remove
#[test]
fn remove_takes_out_every_request_of_that_connection_and_nothing_else() {
    let name = "rumqttd::Waiters::remove#all_requests_of_the_connection_and_only_those";
    let mut cases = 0u64;
    let mut fail: Option<String> = None;
    // every queue of up to 6 entries over connection ids {0,1,2}; the request payload is the position it was parked at
    'outer: for len in 0..=6u32 {
        for code in 0..3usize.pow(len) {
            let ids: Vec<usize> = (0..len).map(|k| (code / 3usize.pow(k)) % 3).collect();
            for victim in 0..3usize {
                cases += 1;
                let mut w: Waiters<u32> = Waiters::with_capacity(8);
                for (pos, id) in ids.iter().enumerate() {
                    w.register(*id, pos as u32);
                }
                let mut removed = w.remove(victim);
                removed.sort();
                let want: Vec<u32> = ids.iter().enumerate().filter(|(_, id)| **id == victim).map(|(p, _)| p as u32).collect();
                let mut left: Vec<(usize, u32)> = w.waiters().iter().cloned().collect();
                left.sort();
                let mut want_left: Vec<(usize, u32)> = ids.iter().enumerate().filter(|(_, id)| **id != victim).map(|(p, id)| (*id, p as u32)).collect();
                want_left.sort();
                if removed != want || left != want_left {
                    fail = Some(format!("input=[parked connection ids {:?}, remove({})] detail=[returned requests {:?} (expected {:?}); still parked {:?} (expected {:?})]", ids, victim, removed, want, left, want_left));
                    break 'outer;
                }
            }
        }
    }
    match fail {
        None => println!("VERIF-OBLIGATION {} props=C14,C01,C03 bound=\"every wait queue of <= 6 entries over 3 connection ids x the connection removed\" cases={} ok", name, cases),
        Some(f) => {
            println!("VERIF-FAIL {} props=C14,C01,C03 {}", name, f);
            panic!("{}", f);
        }
    }
}
