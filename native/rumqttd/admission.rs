// Native bounded stand-in for the authentication decision of C19 (rumqttd/src/link/remote.rs: handle_auth, a
// private async fn — outside Verus (async, closures) and Kani (no async runtime)).  Exhaustive over every
// combination of: static credentials {none, containing u/p, not containing u} x external callback {none,
// accepts, rejects} x login {absent, right password, wrong password, unknown user}.
// Oracle from the property: a session is admitted iff no authentication is configured, or the login is present
// and the configuration accepts it (the external callback decides when configured, otherwise the static table).

// @native props=C19 tier=quick fn=rumqttd::link::remote::handle_auth
#[test]
fn authentication_decision_matches_the_configuration() {
    use std::collections::HashMap;
    let name = "rumqttd::link::remote::handle_auth#admits_iff_configuration_accepts";
    let rt = tokio::runtime::Builder::new_current_thread().build().unwrap();
    let mut cases = 0;
    let mut fail: Option<String> = None;
    'outer: for stat in 0..3 {
        for ext in 0..3 {
            for login_kind in 0..4 {
                cases += 1;
                let mut cfg = crate::ConnectionSettings { connection_timeout_ms: 0, max_payload_size: 0, max_inflight_count: 0, auth: None, external_auth: None, dynamic_filters: false };
                if stat > 0 {
                    let mut m = HashMap::new();
                    if stat == 1 {
                        m.insert("u".to_owned(), "p".to_owned());
                    } else {
                        m.insert("someone-else".to_owned(), "p".to_owned());
                    }
                    cfg.auth = Some(m);
                }
                if ext == 1 {
                    cfg.set_auth_handler(|_c, u, p| async move { u == "u" && p == "p" });
                } else if ext == 2 {
                    cfg.set_auth_handler(|_c, _u, _p| async move { false });
                }
                let login = match login_kind {
                    0 => None,
                    1 => Some(crate::protocol::Login { username: "u".into(), password: "p".into() }),
                    2 => Some(crate::protocol::Login { username: "u".into(), password: "wrong".into() }),
                    _ => Some(crate::protocol::Login { username: "nobody".into(), password: "p".into() }),
                };
                let right = login_kind == 1;
                let expected = if stat == 0 && ext == 0 {
                    true
                } else if login.is_none() {
                    false
                } else if ext != 0 {
                    ext == 1 && right
                } else {
                    stat == 1 && right
                };
                let got = rt.block_on(handle_auth(std::sync::Arc::new(cfg), login.as_ref(), "cid")).is_ok();
                if got != expected {
                    fail = Some(format!("input=[static credentials kind {}, external callback kind {}, login kind {}] detail=[admitted = {}, the configuration says {}]", stat, ext, login_kind, got, expected));
                    break 'outer;
                }
            }
        }
    }
    match fail {
        None => println!("VERIF-OBLIGATION {} props=C19 bound=\"3 static-credential shapes x 3 callback shapes x 4 logins (exhaustive)\" cases={} ok", name, cases),
        Some(f) => {
            println!("VERIF-FAIL {} props=C19 {}", name, f);
            panic!("{}", f);
        }
    }
}
