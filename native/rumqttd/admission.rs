// Native bounded stand-in for the authentication decision of C19 (rumqttd/src/link/remote.rs: handle_auth, a
// private async fn — outside Verus (async, closures) and Kani (no async runtime)).  Exhaustive over every
// combination of: static credentials {none, containing u/p, not containing u, u/p plus an account with an empty password} x external
// callback {none, accepts, rejects} x 12 logins (absent, right, wrong, unknown user, empty password, empty user, ...).
// Oracle from the property: a session is admitted iff no authentication is configured, or the login is present
// and the configuration accepts it (the external callback decides when configured, otherwise the static table).

// @native props=C19 tier=quick fn=rumqttd::link::remote::handle_auth
#[test]
fn authentication_decision_matches_the_configuration() {
    use std::collections::HashMap;
    let name = "rumqttd::link::remote::handle_auth#admits_iff_configuration_accepts";
    let rt = tokio::runtime::Builder::new_current_thread().build().unwrap();
    let mut cases = 0;
    let mut fail: Option<String> = None;
    let logins: Vec<Option<(&str, &str)>> = vec![None, Some(("u", "p")), Some(("u", "wrong")), Some(("nobody", "p")), Some(("nobody", "")), Some(("u", "")), Some(("", "")),
        Some(("u", "pp")), Some(("U", "p")), Some(("e", "")), Some(("e", "p")), Some(("", "p"))];
    'outer: for stat in 0..4 {
        for ext in 0..3 {
            for login in logins.iter() {
                cases += 1;
                let mut cfg = crate::ConnectionSettings { connection_timeout_ms: 0, max_payload_size: 0, max_inflight_count: 0, auth: None, external_auth: None, dynamic_filters: false };
                let mut table: Option<HashMap<String, String>> = None;
                if stat > 0 {
                    let mut m = HashMap::new();
                    match stat {
                        1 => { m.insert("u".to_owned(), "p".to_owned()); }
                        2 => { m.insert("someone-else".to_owned(), "p".to_owned()); }
                        // an account whose configured password is empty is an account like any other
                        _ => { m.insert("u".to_owned(), "p".to_owned()); m.insert("e".to_owned(), "".to_owned()); }
                    }
                    table = Some(m.clone());
                    cfg.auth = Some(m);
                }
                if ext == 1 {
                    cfg.set_auth_handler(|_c, u, p| async move { u == "u" && p == "p" });
                } else if ext == 2 {
                    cfg.set_auth_handler(|_c, _u, _p| async move { false });
                }
                let l = login.map(|(u, p)| crate::protocol::Login { username: u.into(), password: p.into() });
                // the property: no authentication configured -> admitted; otherwise a login must be present and the
                // configuration must accept it (the callback decides when configured, otherwise the static table)
                let expected = if stat == 0 && ext == 0 {
                    true
                } else {
                    match login {
                        None => false,
                        Some((u, p)) => if ext != 0 { ext == 1 && *u == "u" && *p == "p" } else { table.as_ref().unwrap().get(*u).map(|x| x.as_str()) == Some(*p) },
                    }
                };
                let got = rt.block_on(handle_auth(std::sync::Arc::new(cfg), l.as_ref(), "cid")).is_ok();
                if got != expected {
                    fail = Some(format!("input=[static credentials kind {} (0 none, 1 u:p, 2 someone-else:p, 3 u:p + e:<empty>), external callback kind {} (0 none, 1 accepts u:p, 2 rejects all), login {:?}] detail=[admitted = {}, the configuration says {}]", stat, ext, login, got, expected));
                    break 'outer;
                }
            }
        }
    }
    match fail {
        None => println!("VERIF-OBLIGATION {} props=C19 bound=\"4 static-credential shapes x 3 callback shapes x 12 logins (absent, right, wrong, unknown user, empty password / user, longer password, other case, account with empty password)\" cases={} ok", name, cases),
        Some(f) => {
            println!("VERIF-FAIL {} props=C19 {}", name, f);
            panic!("{}", f);
        }
    }
}
