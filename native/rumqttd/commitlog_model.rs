// Native companion of the Verus unit `commitlog` (C13): Verus gives no counterexample, so when a Verus obligation
// of the unit fails — and on every run, as an independent cross-check of the *specification* itself — this module
// drives the REAL CommitLog against an executable reference model over an exhaustive space of short scripts and
// prints the first concrete failing script.  Included as `#[cfg(test)] mod verif_native` child of `segments`.

#[derive(Clone, Debug, PartialEq)]
struct Item(u32, usize);
impl Storage for Item {
    fn size(&self) -> usize {
        self.1
    }
}

/// reference model: segments of (absolute offset, entries), head index; straight from the property text
struct Model {
    head: u64,
    segs: Vec<(u64, Vec<Item>)>,
    seg_size: u64,
    max_segs: usize,
}

impl Model {
    fn new(seg_size: usize, max_segs: usize) -> Model {
        Model { head: 0, segs: vec![(0, vec![])], seg_size: seg_size as u64, max_segs }
    }
    fn tail(&self) -> u64 {
        self.head + self.segs.len() as u64 - 1
    }
    fn append(&mut self, it: Item) -> (u64, u64) {
        let active = self.segs.last().unwrap();
        let full: u64 = active.1.iter().map(|i| i.1 as u64).sum();
        if full >= self.seg_size {
            let next_abs = active.0 + active.1.len() as u64;
            if self.segs.len() >= self.max_segs {
                self.segs.remove(0); // only a whole oldest segment is ever discarded
                self.head += 1;
            }
            self.segs.push((next_abs, vec![]));
        }
        let a = self.segs.last_mut().unwrap();
        a.1.push(it);
        let end = a.0 + a.1.len() as u64;
        (self.tail(), end)
    }
    /// retained entries at or after cursor c, each with its own offset
    fn rest(&self, c: (u64, u64)) -> Vec<(Item, (u64, u64))> {
        if c.0 > self.tail() {
            return vec![];
        }
        let c = if c.0 < self.head { (self.head, self.segs[0].0) } else { c };
        let mut out = vec![];
        for (i, (abs, items)) in self.segs.iter().enumerate() {
            let segno = self.head + i as u64;
            if segno < c.0 {
                continue;
            }
            for (j, it) in items.iter().enumerate() {
                let off = abs + j as u64;
                if segno > c.0 || off >= c.1 {
                    out.push((it.clone(), (segno, off)));
                }
            }
        }
        out
    }
}

// @native props=C13,C01,C08 tier=quick fn=CommitLog::{append,apply_retention,readv}+Segment::readv
#[test]
fn commit_log_agrees_with_the_reference_model() {
    let name = "rumqttd::segments::CommitLog#reads_return_the_retained_suffix_retention_bounded";
    let depth: usize = std::env::var("VERIF_LOG_DEPTH").ok().and_then(|s| s.parse().ok()).unwrap_or(7);
    let sizes = [400usize, 1100];
    let lens = [0u64, 1, 2, 100];
    let mut cases = 0u64;
    let mut fail: Option<String> = None;
    let prev = std::panic::take_hook();
    std::panic::set_hook(Box::new(|_| {}));
    'outer: for max_segs in 1..=3usize {
        // a script: each step is append(small) | append(large) | read(issued cursor k, len l)
        // encoded base 6: 0,1 = append sizes; 2..5 = read with lens[..] from a cursor chosen by the step number
        for code in 0..6u64.pow(depth as u32) {
            cases += 1;
            let script: Vec<u64> = (0..depth).map(|k| (code / 6u64.pow(k as u32)) % 6).collect();
            let run = std::panic::catch_unwind(|| -> Result<(), String> {
                let mut log: CommitLog<Item> = CommitLog::new(1024, max_segs).unwrap();
                let mut model = Model::new(1024, max_segs);
                // cursors the log itself has issued so far
                let mut issued: Vec<(u64, u64)> = vec![log.next_offset()];
                let mut n = 0u32;
                for (k, op) in script.iter().enumerate() {
                    if *op < 2 {
                        n += 1;
                        let it = Item(n, sizes[*op as usize]);
                        let got = log.append(it.clone());
                        let exp = model.append(it);
                        if got != exp {
                            return Err(format!("step {}: append returned {:?}, model {:?}", k, got, exp));
                        }
                        if log.memory_segments_count() > max_segs || log.memory_segments_count() != model.segs.len() {
                            return Err(format!("step {}: {} segments kept, limit {} (model keeps {})", k, log.memory_segments_count(), max_segs, model.segs.len()));
                        }
                        issued.push(got);
                        issued.push(log.next_offset());
                    } else {
                        let len = lens[(*op - 2) as usize];
                        let c = issued[(k * 7 + (code as usize % 5)) % issued.len()];
                        let mut out = vec![];
                        let pos = log.readv(c, len, &mut out).map_err(|e| format!("readv failed: {:?}", e))?;
                        let rest = model.rest(c);
                        let take = (len as usize).min(rest.len());
                        if out != rest[..take].to_vec() {
                            return Err(format!("step {}: readv({:?}, {}) returned {:?}, retained suffix is {:?}", k, c, len, out, &rest[..take]));
                        }
                        let (done, end) = match pos { Position::Done { end, .. } => (true, end), Position::Next { end, .. } => (false, end) };
                        if done != (rest.len() <= len as usize) {
                            return Err(format!("step {}: readv({:?}, {}) reported caught-up = {}, but {} retained entries remain", k, c, len, done, rest.len() - take));
                        }
                        if model.rest(end) != rest[take..].to_vec() {
                            return Err(format!("step {}: continuation {:?} of readv({:?}, {}) does not resume where the read stopped", k, end, c, len));
                        }
                        issued.push(end);
                    }
                }
                // fabricated cursors never panic
                for c in [(0u64, u64::MAX), (u64::MAX, 0), (model.head, 0), (model.tail(), u64::MAX - 1), (model.tail() + 1, 0)] {
                    let mut out = vec![];
                    let _ = log.readv(c, 3, &mut out);
                }
                Ok(())
            });
            let verdict = match run { Ok(v) => v, Err(_) => Err("panicked".to_string()) };
            if let Err(e) = verdict {
                fail = Some(format!("input=[max_mem_segments={} script(0/1=append 400/1100 bytes, 2..5=read len 0/1/2/100)={:?}] detail=[{}]", max_segs, script, e));
                break 'outer;
            }
        }
    }
    std::panic::set_hook(prev);
    match fail {
        None => println!("VERIF-OBLIGATION {} props=C13,C01,C08 bound=\"all scripts of {} append/read steps, 1..=3 segments, entries 400/1100 bytes vs 1024-byte segments, reads from previously issued cursors, plus fabricated cursors\" cases={} ok", name, depth, cases),
        Some(f) => {
            println!("VERIF-FAIL {} props=C13,C01,C08 {}", name, f);
            panic!("{}", f);
        }
    }
}
