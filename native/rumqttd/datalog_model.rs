// Caller-side companion of the Verus unit `commitlog` (C13): the router never calls CommitLog::readv directly, it
// goes through DataLog::native_readv.  The Verus contract covers the commit log; this module checks, on the REAL
// DataLog, that the wrapper hands the contract through unchanged: for every small log, every cursor and every
// length (0 included) it returns exactly the position and exactly the entries CommitLog::readv returns, and a
// message whose expiry has passed is the only thing it may drop.  Bounded stand-in (labelled so), included as
// `#[cfg(test)] mod verif_native` child of `router::logs`.

use crate::protocol::QoS;

fn vn_publish(i: u32, size: usize) -> Publish {
    Publish {
        dup: false,
        qos: QoS::AtLeastOnce,
        pkid: 0,
        retain: false,
        topic: "a/b".into(),
        payload: {
            let mut p = vec![0u8; size];
            p[..4].copy_from_slice(&i.to_be_bytes());
            p.into()
        },
    }
}

fn vn_config(max_segment_count: usize) -> RouterConfig {
    RouterConfig {
        max_segment_size: 1024,
        max_connections: 10,
        max_segment_count,
        max_outgoing_packet_count: 1024,
        custom_segment: None,
        initialized_filters: None,
        shared_subscriptions_strategy: Default::default(),
    }
}

// @native props=C13,C01,C08 tier=quick fn=DataLog::native_readv+DataLog::next_native_offset+Data::append
#[test]
fn native_readv_hands_the_commit_log_contract_through() {
    let name = "rumqttd::DataLog::native_readv#same_position_and_entries_as_the_commit_log";
    let depth: usize = std::env::var("VERIF_LOG_DEPTH").ok().and_then(|s| s.parse().ok()).unwrap_or(7);
    let sizes = [400usize, 1100];
    let mut cases = 0u64;
    let mut fail: Option<String> = None;
    let prev = std::panic::take_hook();
    std::panic::set_hook(Box::new(|_| {}));
    'outer: for max_segs in 1..=3usize {
        for n in 0..=depth {
            for code in 0..(1u64 << n) {
                let script: Vec<usize> = (0..n).map(|k| ((code >> k) & 1) as usize).collect();
                let run = std::panic::catch_unwind(|| -> Result<u64, String> {
                    let mut cases = 0u64;
                    let mut datalog = DataLog::new(vn_config(max_segs)).map_err(|e| format!("{:?}", e))?;
                    let mut notifications = VecDeque::new();
                    let (idx, first) = datalog.next_native_offset("a/b");
                    if first != (0, 0) {
                        return Err(format!("a new filter starts at {:?}", first));
                    }
                    let mut cursors = vec![first];
                    for (k, s) in script.iter().enumerate() {
                        let data = datalog.native.get_mut(idx).unwrap();
                        let (off, _) = data.append((vn_publish(k as u32, sizes[*s]), None).into(), &mut notifications);
                        cursors.push(off);
                        let (idx2, tail) = datalog.next_native_offset("a/b");
                        if idx2 != idx {
                            return Err(format!("filter index changed from {} to {}", idx, idx2));
                        }
                        if tail != datalog.native.get(idx).unwrap().log.next_offset() {
                            return Err(format!("next_native_offset {:?} is not the log tail", tail));
                        }
                        cursors.push(tail);
                    }
                    // every segment number up to one beyond the tail, with every entry offset up to one beyond the end
                    let tail = *cursors.last().unwrap();
                    for s in 0..=tail.0 + 1 {
                        for o in 0..=tail.1 + 1 {
                            cursors.push((s, o));
                        }
                    }
                    cursors.sort();
                    cursors.dedup();
                    for c in cursors.iter() {
                        for len in [0u64, 1, 2, 3, 100] {
                            cases += 1;
                            let mut direct = vec![];
                            let want = datalog.native.get(idx).unwrap().log.readv(*c, len, &mut direct).map_err(|e| format!("{:?}", e))?;
                            let (got, out) = datalog.native_readv(idx, *c, len).map_err(|e| format!("{:?}", e))?;
                            if got != want {
                                return Err(format!("native_readv({:?}, {}) reports {:?}, the commit log reports {:?}", c, len, got, want));
                            }
                            let a: Vec<_> = out.iter().map(|((p, _), o)| (p.payload.clone(), *o)).collect();
                            let b: Vec<_> = direct.iter().map(|(p, o)| (p.publish.payload.clone(), *o)).collect();
                            if a != b {
                                return Err(format!("native_readv({:?}, {}) returns entries at {:?}, the commit log returns {:?}", c, len, a.iter().map(|x| x.1).collect::<Vec<_>>(), b.iter().map(|x| x.1).collect::<Vec<_>>()));
                            }
                        }
                    }
                    Ok(cases)
                });
                match run {
                    Ok(Ok(c)) => cases += c,
                    Ok(Err(e)) => {
                        fail = Some(format!("input=[max_segment_count={} appended sizes(0=400,1=1100 bytes)={:?}] detail=[{}]", max_segs, script, e));
                        break 'outer;
                    }
                    Err(_) => {
                        fail = Some(format!("input=[max_segment_count={} appended sizes(0=400,1=1100 bytes)={:?}] detail=[panicked]", max_segs, script));
                        break 'outer;
                    }
                }
            }
        }
    }
    std::panic::set_hook(prev);
    match fail {
        None => println!("VERIF-OBLIGATION {} props=C13,C01,C08 bound=\"every log of up to {} entries of 400/1100 bytes (1024-byte segments, 1..=3 kept), every cursor on the (segment, entry) grid up to one beyond the tail, lengths 0/1/2/3/100\" cases={} ok", name, depth, cases),
        Some(f) => {
            println!("VERIF-FAIL {} props=C13,C01,C08 {}", name, f);
            panic!("{}", f);
        }
    }
}

// @native props=C13 tier=quick fn=DataLog::native_readv
#[test]
fn native_readv_drops_expired_messages_only() {
    let name = "rumqttd::DataLog::native_readv#only_expired_messages_are_dropped";
    let mut cases = 0u64;
    let mut fail: Option<String> = None;
    // each of 5 entries: 0 = no properties, 1 = properties without expiry, 2 = expiry far away, 3 = expiry 0 (already over)
    'outer: for code in 0..4u32.pow(5) {
        let kinds: Vec<u32> = (0..5).map(|k| (code / 4u32.pow(k)) % 4).collect();
        let mut datalog = DataLog::new(vn_config(3)).unwrap();
        let mut notifications = VecDeque::new();
        let (idx, first) = datalog.next_native_offset("a/b");
        for (k, kind) in kinds.iter().enumerate() {
            let props = match kind {
                0 => None,
                1 => Some(PublishProperties::default()),
                2 => Some(PublishProperties { message_expiry_interval: Some(1_000_000), ..Default::default() }),
                _ => Some(PublishProperties { message_expiry_interval: Some(0), ..Default::default() }),
            };
            let data = datalog.native.get_mut(idx).unwrap();
            data.append((vn_publish(k as u32, 100), props).into(), &mut notifications);
        }
        cases += 1;
        let (pos, out) = datalog.native_readv(idx, first, 100).unwrap();
        let got: Vec<u64> = out.iter().map(|(_, o)| o.1).collect();
        let want: Vec<u64> = kinds.iter().enumerate().filter(|(_, k)| **k != 3).map(|(i, _)| i as u64).collect();
        if got != want {
            fail = Some(format!("input=[entry kinds(0=no props,1=props,2=expiry 1e6 s,3=expiry 0)={:?}] detail=[read returned entries {:?}, unexpired entries are {:?}]", kinds, got, want));
            break 'outer;
        }
        if !matches!(pos, Position::Done { end: (0, 5), .. }) {
            fail = Some(format!("input=[entry kinds={:?}] detail=[position {:?}, expected caught-up at (0, 5)]", kinds, pos));
            break 'outer;
        }
        for ((p, props), o) in out.iter() {
            let id = u32::from_be_bytes([p.payload[0], p.payload[1], p.payload[2], p.payload[3]]) as u64;
            let keeps_props = match kinds[o.1 as usize] { 0 => props.is_none(), _ => props.is_some() };
            if id != o.1 || !keeps_props {
                fail = Some(format!("input=[entry kinds={:?}] detail=[entry at {:?} carries payload {} / properties {:?}]", kinds, o, id, props));
                break 'outer;
            }
        }
    }
    match fail {
        None => println!("VERIF-OBLIGATION {} props=C13 bound=\"all 4^5 mixes of no-properties / no-expiry / far expiry / expired entries in one segment\" cases={} ok", name, cases),
        Some(f) => {
            println!("VERIF-FAIL {} props=C13 {}", name, f);
            panic!("{}", f);
        }
    }
}
