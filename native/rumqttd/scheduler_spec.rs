// Native bounded stand-in for the contract of Scheduler::poll (rumqttd/src/router/scheduler.rs).  Kani cannot compile
// a harness that reaches Scheduler::{poll,pause} (compiler ICE, measured) and the body (drain(..).collect(), Slab) is
// outside the Verus subset.  Contract, from C01 ("when the broker has gone idle nothing deliverable is undelivered"):
// the router thread goes to sleep exactly when poll() answers None, so poll() may answer None only when no LIVE
// connection is queued; entries of connections that are gone (handle_disconnection deliberately leaves them in the
// queue) are to be skipped, never mistaken for an empty queue.

// @native props=C01,C03 tier=quick fn=Scheduler::poll
#[test]
fn poll_answers_none_only_when_no_live_connection_is_queued() {
    let name = "rumqttd::Scheduler::poll#none_only_if_nothing_live_is_queued";
    let mut cases = 0u64;
    let mut fail: Option<String> = None;
    // 4 connection slots, every subset removed again, every ready queue of up to 4 distinct ids
    'outer: for gone in 0..16u32 {
        for qlen in 0..=4usize {
            for code in 0..4usize.pow(qlen as u32) {
                let queue: Vec<usize> = (0..qlen).map(|k| (code / 4usize.pow(k as u32)) % 4).collect();
                let mut d = queue.clone();
                d.sort();
                d.dedup();
                if d.len() != queue.len() {
                    continue; // a connection is scheduled at most once
                }
                cases += 1;
                let mut s = Scheduler::with_capacity(4);
                for i in 0..4 {
                    let id = s.add(Tracker::new(format!("c{}", i)));
                    assert_eq!(id, i);
                }
                for i in 0..4 {
                    if gone & (1 << i) != 0 {
                        s.remove(i);
                    }
                }
                for id in &queue {
                    s.readyqueue.push_back(*id);
                }
                let live: Vec<usize> = queue.iter().copied().filter(|i| gone & (1 << i) == 0).collect();
                let desc = format!("4 connections, {:?} already gone, ready queue {:?}", (0..4).filter(|i| gone & (1 << i) != 0).collect::<Vec<_>>(), queue);
                // the router thread: poll until None; every live queued connection must have been served by then
                let mut served = vec![];
                for _ in 0..8 {
                    match s.poll() {
                        Some((id, _)) => {
                            if gone & (1 << id) != 0 {
                                fail = Some(format!("input=[{}] detail=[poll handed out connection {} which is gone]", desc, id));
                                break 'outer;
                            }
                            if served.contains(&id) {
                                break; // served once; poll re-queues it (the router pauses it explicitly)
                            }
                            served.push(id);
                        }
                        None => break,
                    }
                }
                if live.iter().any(|i| !served.contains(i)) {
                    fail = Some(format!("input=[{}] detail=[poll answered None (the router thread goes to sleep) after serving {:?}; live connections {:?} were still queued]", desc, served, live));
                    break 'outer;
                }
            }
        }
    }
    match fail {
        None => println!("VERIF-OBLIGATION {} props=C01,C03 bound=\"4 connection slots x every subset already gone x every ready queue of <= 4 distinct ids\" cases={} ok", name, cases),
        Some(f) => {
            println!("VERIF-FAIL {} props=C01,C03 {}", name, f);
            panic!("{}", f);
        }
    }
}
