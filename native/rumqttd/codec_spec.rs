// Native bounded stand-in for C04 / C20 on the BROKER codecs (rumqttd/src/protocol/{v4,v5}) and across
// implementations (client library encoders/decoders from the `rumqttc` crate, added as a dev-dependency of
// the scratch copy).  Included as `#[cfg(test)] mod verif_native_codec` child module of `protocol`.
// The length arithmetic shared by all packets (remaining-length varint at every width boundary, frame check)
// is PROVED by the Kani unit kani/common/varint.rs; here every packet TYPE is round-tripped over a generated
// finite set of values that covers: all flag/QoS/retain/dup combinations, packet ids 1 and 65535, empty and
// non-empty strings, payload sizes that put the remaining length on both sides of every width boundary
// (127/128, 16383/16384, 2097151/2097152), every optional MQTT 5 property present/absent, multiple
// filters / reason codes / user properties.

use bytes::{Bytes as VBytes, BytesMut as VBytesMut};
use rumqttc::mqttbytes as c4b;
use rumqttc::mqttbytes::v4 as c4;
use rumqttc::v5::mqttbytes as c5b;
use rumqttc::v5::mqttbytes::v5 as c5;

const MAXSZ: usize = 268_435_455;

fn qoss() -> [QoS; 3] {
    [QoS::AtMostOnce, QoS::AtLeastOnce, QoS::ExactlyOnce]
}

fn up() -> Vec<Vec<(String, String)>> {
    vec![vec![], vec![("k".into(), "v".into())], vec![("k".into(), "v".into()), ("".into(), "x".into())]]
}

/// payload sizes that put `fixed + payload` on both sides of each remaining-length width boundary
fn payload_sizes(fixed: usize, big: bool) -> Vec<usize> {
    let mut v = vec![0, 1, 3];
    let mut bounds = vec![127usize, 128, 16_383, 16_384];
    if big {
        bounds.extend_from_slice(&[2_097_151, 2_097_152]);
    }
    for b in bounds {
        if b >= fixed {
            v.push(b - fixed);
        }
    }
    v
}

fn publish_props() -> Vec<Option<PublishProperties>> {
    let mut out = vec![None];
    // (an empty property set has no wire form of its own: `Some(no properties)` and `None` encode identically,
    //  so mask 0 is represented by `None` only)
    for mask in 1..256u32 {
        // subsets of the 8 optional members; to keep the space small, user properties / ids take 2 shapes
        out.push(Some(PublishProperties {
            payload_format_indicator: if mask & 1 != 0 { Some(1) } else { None },
            message_expiry_interval: if mask & 2 != 0 { Some(0xdead_beef) } else { None },
            topic_alias: if mask & 4 != 0 { Some(7) } else { None },
            response_topic: if mask & 8 != 0 { Some("r/t".into()) } else { None },
            correlation_data: if mask & 16 != 0 { Some(VBytes::from_static(b"\x00\xffcd")) } else { None },
            user_properties: if mask & 32 != 0 { up()[2].clone() } else { vec![] },
            subscription_identifiers: if mask & 64 != 0 { vec![1, 200, 268_435_455] } else { vec![] },
            content_type: if mask & 128 != 0 { Some("text/plain".into()) } else { None },
        }));
    }
    // several SHORT subscription identifiers (each one byte on the wire), alone and followed by another property
    for ids in [vec![1usize], vec![1, 2, 3], vec![5, 5, 5, 5, 5], vec![127, 128, 1, 1]] {
        for tail in [false, true] {
            out.push(Some(PublishProperties {
                payload_format_indicator: None,
                message_expiry_interval: None,
                topic_alias: None,
                response_topic: None,
                correlation_data: None,
                user_properties: vec![],
                subscription_identifiers: ids.clone(),
                content_type: if tail { Some("".into()) } else { None },
            }));
        }
    }
    out
}

fn publishes(big: bool) -> Vec<Publish> {
    let mut out = vec![];
    for qos in qoss() {
        for dup in [false, true] {
            for retain in [false, true] {
                for topic in ["t", "a/b/\u{e9}", ""] {
                    if topic.is_empty() && !big {
                        continue;
                    }
                    for pkid in [1u16, 65535] {
                        let pk = if qos == QoS::AtMostOnce { 0 } else { pkid };
                        if qos == QoS::AtMostOnce && pkid == 65535 {
                            continue;
                        }
                        let fixed = 2 + topic.len() + if qos == QoS::AtMostOnce { 0 } else { 2 };
                        let sizes = if dup || retain { vec![0, 3] } else { payload_sizes(fixed, big && qos == QoS::AtLeastOnce && topic == "t" && pkid == 1) };
                        for n in sizes {
                            out.push(Publish { dup, qos, pkid: pk, retain, topic: VBytes::copy_from_slice(topic.as_bytes()), payload: VBytes::from(vec![0x5a; n]) });
                        }
                    }
                }
            }
        }
    }
    out
}

fn filters() -> Vec<Vec<Filter>> {
    let f = |p: &str, q: QoS, nl: bool, pr: bool, r: RetainForwardRule| Filter { path: p.into(), qos: q, nolocal: nl, preserve_retain: pr, retain_forward_rule: r };
    vec![
        vec![f("a/+", QoS::AtMostOnce, false, false, RetainForwardRule::OnEverySubscribe)],
        vec![f("#", QoS::AtLeastOnce, true, false, RetainForwardRule::OnNewSubscribe), f("$share/g/x", QoS::ExactlyOnce, false, true, RetainForwardRule::Never)],
        vec![f("a", QoS::ExactlyOnce, true, true, RetainForwardRule::Never), f("b", QoS::AtMostOnce, false, false, RetainForwardRule::OnEverySubscribe), f("c/\u{e9}", QoS::AtLeastOnce, false, false, RetainForwardRule::OnEverySubscribe)],
    ]
}

fn opt_s() -> [Option<String>; 2] {
    [None, Some("why".to_string())]
}

/// every packet the v5 codec has to carry (properties present and absent); `v4 == true`: the 3.1.1 subset
fn packets(v4: bool, big: bool) -> Vec<Packet> {
    let mut out = vec![Packet::PingReq(PingReq), Packet::PingResp(PingResp)];
    // PUBLISH
    for p in publishes(big) {
        if v4 {
            if !p.topic.is_empty() {
                out.push(Packet::Publish(p, None));
            }
        } else if p.payload.len() <= 3 && !p.dup && p.qos == QoS::AtLeastOnce && p.pkid == 1 && &p.topic[..] == b"t" {
            for pr in publish_props() {
                // topic alias lets the topic be empty in MQTT 5
                out.push(Packet::Publish(p.clone(), pr));
            }
        } else {
            out.push(Packet::Publish(p.clone(), None));
            out.push(Packet::Publish(p, publish_props().last().unwrap().clone()));
        }
    }
    // acks
    for pkid in [1u16, 2, 65535] {
        if v4 {
            out.push(Packet::PubAck(PubAck { pkid, reason: PubAckReason::Success }, None));
            out.push(Packet::PubRec(PubRec { pkid, reason: PubRecReason::Success }, None));
            out.push(Packet::PubRel(PubRel { pkid, reason: PubRelReason::Success }, None));
            out.push(Packet::PubComp(PubComp { pkid, reason: PubCompReason::Success }, None));
            out.push(Packet::UnsubAck(UnsubAck { pkid, reasons: vec![] }, None));
            continue;
        }
        for r in [PubAckReason::Success, PubAckReason::NoMatchingSubscribers, PubAckReason::UnspecifiedError, PubAckReason::ImplementationSpecificError, PubAckReason::NotAuthorized, PubAckReason::TopicNameInvalid, PubAckReason::PacketIdentifierInUse, PubAckReason::QuotaExceeded, PubAckReason::PayloadFormatInvalid] {
            out.push(Packet::PubAck(PubAck { pkid, reason: r }, None));
            for rs in opt_s() {
                for u in up() {
                    if rs.is_none() && u.is_empty() {
                        continue; // `Some(no properties)` has no wire form of its own (encodes like `None`)
                    }
                    out.push(Packet::PubAck(PubAck { pkid, reason: r }, Some(PubAckProperties { reason_string: rs.clone(), user_properties: u })));
                }
            }
        }
        for r in [PubRecReason::Success, PubRecReason::NoMatchingSubscribers, PubRecReason::UnspecifiedError, PubRecReason::ImplementationSpecificError, PubRecReason::NotAuthorized, PubRecReason::TopicNameInvalid, PubRecReason::PacketIdentifierInUse, PubRecReason::QuotaExceeded, PubRecReason::PayloadFormatInvalid] {
            out.push(Packet::PubRec(PubRec { pkid, reason: r }, None));
            for rs in opt_s() {
                for u in up() {
                    if rs.is_none() && u.is_empty() {
                        continue; // `Some(no properties)` has no wire form of its own (encodes like `None`)
                    }
                    out.push(Packet::PubRec(PubRec { pkid, reason: r }, Some(PubRecProperties { reason_string: rs.clone(), user_properties: u })));
                }
            }
        }
        for r in [PubRelReason::Success, PubRelReason::PacketIdentifierNotFound] {
            out.push(Packet::PubRel(PubRel { pkid, reason: r }, None));
            for rs in opt_s() {
                for u in up() {
                    if rs.is_none() && u.is_empty() {
                        continue; // `Some(no properties)` has no wire form of its own (encodes like `None`)
                    }
                    out.push(Packet::PubRel(PubRel { pkid, reason: r }, Some(PubRelProperties { reason_string: rs.clone(), user_properties: u })));
                }
            }
        }
        for r in [PubCompReason::Success, PubCompReason::PacketIdentifierNotFound] {
            out.push(Packet::PubComp(PubComp { pkid, reason: r }, None));
            for rs in opt_s() {
                for u in up() {
                    if rs.is_none() && u.is_empty() {
                        continue; // `Some(no properties)` has no wire form of its own (encodes like `None`)
                    }
                    out.push(Packet::PubComp(PubComp { pkid, reason: r }, Some(PubCompProperties { reason_string: rs.clone(), user_properties: u })));
                }
            }
        }
        for reasons in [vec![UnsubAckReason::Success], vec![UnsubAckReason::NoSubscriptionExisted, UnsubAckReason::NotAuthorized, UnsubAckReason::PacketIdentifierInUse]] {
            out.push(Packet::UnsubAck(UnsubAck { pkid, reasons: reasons.clone() }, None));
            out.push(Packet::UnsubAck(UnsubAck { pkid, reasons }, Some(UnsubAckProperties { reason_string: Some("r".into()), user_properties: up()[1].clone() })));
        }
    }
    // SUBSCRIBE / SUBACK / UNSUBSCRIBE
    for pkid in [1u16, 65535] {
        for fs in filters() {
            if v4 {
                let fs4: Vec<Filter> = fs.iter().map(|f| Filter { path: f.path.clone(), qos: f.qos, nolocal: false, preserve_retain: false, retain_forward_rule: RetainForwardRule::OnEverySubscribe }).collect();
                out.push(Packet::Subscribe(Subscribe { pkid, filters: fs4 }, None));
            } else {
                out.push(Packet::Subscribe(Subscribe { pkid, filters: fs.clone() }, None));
                out.push(Packet::Subscribe(Subscribe { pkid, filters: fs.clone() }, Some(SubscribeProperties { id: Some(268_435_455), user_properties: up()[2].clone() })));
            }
            out.push(Packet::Unsubscribe(Unsubscribe { pkid, filters: fs.iter().map(|f| f.path.clone()).collect() }, None));
            if !v4 {
                out.push(Packet::Unsubscribe(Unsubscribe { pkid, filters: fs.iter().map(|f| f.path.clone()).collect() }, Some(UnsubscribeProperties { user_properties: up()[1].clone() })));
            }
        }
        let codes4 = vec![vec![SubscribeReasonCode::Success(QoS::AtMostOnce)], vec![SubscribeReasonCode::Success(QoS::AtLeastOnce), SubscribeReasonCode::Failure, SubscribeReasonCode::Success(QoS::ExactlyOnce)]];
        let codes5 = vec![
            vec![SubscribeReasonCode::QoS0],
            vec![SubscribeReasonCode::QoS1, SubscribeReasonCode::QoS2, SubscribeReasonCode::Unspecified, SubscribeReasonCode::ImplementationSpecific, SubscribeReasonCode::NotAuthorized, SubscribeReasonCode::TopicFilterInvalid, SubscribeReasonCode::PkidInUse, SubscribeReasonCode::QuotaExceeded, SubscribeReasonCode::SharedSubscriptionsNotSupported, SubscribeReasonCode::SubscriptionIdNotSupported, SubscribeReasonCode::WildcardSubscriptionsNotSupported],
        ];
        for c in if v4 { codes4 } else { codes5 } {
            out.push(Packet::SubAck(SubAck { pkid, return_codes: c.clone() }, None));
            if !v4 {
                out.push(Packet::SubAck(SubAck { pkid, return_codes: c }, Some(SubAckProperties { reason_string: Some("r".into()), user_properties: up()[2].clone() })));
            }
        }
    }
    // CONNECT
    for clean in [false, true] {
        for cid in ["", "client-\u{e9}"] {
            for ka in [0u16, 60, 65535] {
                let connect = Connect { keep_alive: ka, client_id: cid.into(), clean_session: clean };
                let wills = [None, Some(LastWill { topic: VBytes::from_static(b"w/t"), message: VBytes::from_static(b""), qos: QoS::AtLeastOnce, retain: true }), Some(LastWill { topic: VBytes::from_static(b"w"), message: VBytes::from_static(b"bye"), qos: QoS::ExactlyOnce, retain: false })];
                let logins = [None, Some(Login { username: "u".into(), password: "p".into() }), Some(Login { username: "u".into(), password: "".into() })];
                for w in wills.iter() {
                    for l in logins.iter() {
                        out.push(Packet::Connect(connect.clone(), None, w.clone(), None, l.clone()));
                        if !v4 && ka == 60 {
                            let cp = ConnectProperties { session_expiry_interval: Some(9), receive_maximum: Some(3), max_packet_size: Some(1 << 20), topic_alias_max: Some(4), request_response_info: Some(1), request_problem_info: Some(0), user_properties: up()[2].clone(), authentication_method: Some("m".into()), authentication_data: Some(VBytes::from_static(b"\x01\x02")) };
                            let wp = w.as_ref().map(|_| LastWillProperties { delay_interval: Some(5), payload_format_indicator: Some(1), message_expiry_interval: Some(6), content_type: Some("c".into()), response_topic: Some("rt".into()), correlation_data: Some(VBytes::from_static(b"cd")), user_properties: up()[1].clone() });
                            out.push(Packet::Connect(connect.clone(), Some(cp), w.clone(), wp, l.clone()));
                        }
                    }
                }
            }
        }
    }
    // CONNACK
    let codes4 = [ConnectReturnCode::Success, ConnectReturnCode::RefusedProtocolVersion, ConnectReturnCode::BadUserNamePassword, ConnectReturnCode::NotAuthorized, ConnectReturnCode::ServiceUnavailable];
    let codes5 = [ConnectReturnCode::Success, ConnectReturnCode::UnspecifiedError, ConnectReturnCode::MalformedPacket, ConnectReturnCode::ProtocolError, ConnectReturnCode::ImplementationSpecificError, ConnectReturnCode::UnsupportedProtocolVersion, ConnectReturnCode::ClientIdentifierNotValid, ConnectReturnCode::BadUserNamePassword, ConnectReturnCode::NotAuthorized, ConnectReturnCode::ServerUnavailable, ConnectReturnCode::ServerBusy, ConnectReturnCode::Banned, ConnectReturnCode::BadAuthenticationMethod, ConnectReturnCode::TopicNameInvalid, ConnectReturnCode::PacketTooLarge, ConnectReturnCode::QuotaExceeded, ConnectReturnCode::PayloadFormatInvalid, ConnectReturnCode::RetainNotSupported, ConnectReturnCode::QoSNotSupported, ConnectReturnCode::UseAnotherServer, ConnectReturnCode::ServerMoved, ConnectReturnCode::ConnectionRateExceeded];
    for sp in [false, true] {
        for code in if v4 { &codes4[..] } else { &codes5[..] } {
            out.push(Packet::ConnAck(ConnAck { session_present: sp, code: *code }, None));
            if !v4 {
                out.push(Packet::ConnAck(ConnAck { session_present: sp, code: *code }, Some(ConnAckProperties { topic_alias_max: Some(10), ..Default::default() })));
                out.push(Packet::ConnAck(ConnAck { session_present: sp, code: *code }, Some(ConnAckProperties {
                    session_expiry_interval: Some(1), receive_max: Some(2), max_qos: Some(1), retain_available: Some(1), max_packet_size: Some(100), assigned_client_identifier: Some("id".into()),
                    topic_alias_max: Some(3), reason_string: Some("rs".into()), user_properties: up()[2].clone(), wildcard_subscription_available: Some(1), subscription_identifiers_available: Some(0),
                    shared_subscription_available: Some(1), server_keep_alive: Some(30), response_information: Some("ri".into()), server_reference: Some("sr".into()), authentication_method: Some("am".into()),
                    authentication_data: Some(VBytes::from_static(b"ad")),
                })));
            }
        }
    }
    // DISCONNECT
    out.push(Packet::Disconnect(Disconnect { reason_code: DisconnectReasonCode::NormalDisconnection }, None));
    if !v4 {
        for rc in [DisconnectReasonCode::DisconnectWithWillMessage, DisconnectReasonCode::ProtocolError, DisconnectReasonCode::SessionTakenOver, DisconnectReasonCode::KeepAliveTimeout, DisconnectReasonCode::WildcardSubscriptionsNotSupported] {
            out.push(Packet::Disconnect(Disconnect { reason_code: rc }, None));
            out.push(Packet::Disconnect(Disconnect { reason_code: rc }, Some(DisconnectProperties { session_expiry_interval: Some(3), reason_string: Some("r".into()), user_properties: up()[2].clone(), server_reference: Some("s".into()) })));
        }
    }
    out
}

fn brief(p: &Packet) -> String {
    let s = format!("{:?}", p);
    if s.len() > 400 { format!("{}...({} chars)", &s[..400], s.len()) } else { s }
}

fn roundtrip<P: Protocol + Clone>(mut proto: P, p: &Packet) -> Result<(), String> {
    let mut buf = VBytesMut::new();
    let n = std::panic::catch_unwind(std::panic::AssertUnwindSafe(|| proto.write(p.clone(), &mut buf)))
        .map_err(|_| "encoder panicked".to_string())?
        .map_err(|e| format!("encoder refused a well-formed packet: {:?}", e))?;
    if n != buf.len() {
        return Err(format!("write reported {} bytes but appended {}", n, buf.len()));
    }
    // whatever follows the frame stays in the stream
    buf.extend_from_slice(&[0xC0, 0x00]);
    let back = std::panic::catch_unwind(std::panic::AssertUnwindSafe(|| proto.read_mut(&mut buf, MAXSZ)))
        .map_err(|_| "decoder panicked".to_string())?
        .map_err(|e| format!("decoder refused what the encoder wrote: {:?}", e))?;
    if &back != p {
        return Err(format!("decoded {} ", brief(&back)));
    }
    if &buf[..] != &[0xC0, 0x00] {
        return Err(format!("decoder consumed {} bytes, frame was {}", n + 2 - buf.len(), n));
    }
    // the encoder APPENDS to the buffer it is given: the frame is the same whatever the buffer already holds
    let mut fresh = VBytesMut::new();
    let _ = proto.write(p.clone(), &mut fresh);
    let mut appended = VBytesMut::from(&[0xC0u8, 0x00, 0xD0, 0x00][..]);
    let m = std::panic::catch_unwind(std::panic::AssertUnwindSafe(|| proto.write(p.clone(), &mut appended)))
        .map_err(|_| "encoder panicked when appending to a non-empty buffer".to_string())?
        .map_err(|e| format!("encoder refused to append to a non-empty buffer: {:?}", e))?;
    if m != n || appended[..4] != [0xC0u8, 0x00, 0xD0, 0x00] || appended[4..] != fresh[..] {
        return Err(format!("appended to a buffer that already held 4 bytes, the encoder wrote {:02x?} (and left the first 4 bytes as {:02x?}); into an empty buffer it writes {:02x?}", &appended[4..], &appended[..4], &fresh[..]));
    }
    Ok(())
}

fn finish(name: &str, props: &str, bound: &str, cases: u64, fail: Option<String>) {
    match fail {
        None => println!("VERIF-OBLIGATION {} props={} bound=\"{}\" cases={} ok", name, props, bound, cases),
        Some(f) => {
            println!("VERIF-FAIL {} props={} {}", name, props, f);
            panic!("{}", f);
        }
    }
}

fn big() -> bool {
    std::env::var("VERIF_CODEC_BIG").map(|v| v == "1").unwrap_or(false)
}

// @native props=C04 tier=quick fn=rumqttd::protocol::v4::V4::{write,read_mut}
#[test]
fn broker_v4_codec_roundtrips() {
    let prev = std::panic::take_hook();
    std::panic::set_hook(Box::new(|_| {}));
    let mut cases = 0;
    let mut fail = None;
    for p in packets(true, big()) {
        cases += 1;
        if let Err(e) = roundtrip(v4::V4, &p) {
            fail = Some(format!("input=[{}] detail=[{}]", brief(&p), e));
            break;
        }
    }
    std::panic::set_hook(prev);
    finish("rumqttd::protocol::v4::V4#encode_decode_roundtrip", "C04", "generated MQTT 3.1.1 packet set (see native/rumqttd/codec_spec.rs)", cases, fail);
}

// @native props=C04 tier=quick fn=rumqttd::protocol::v5::V5::{write,read_mut}
#[test]
fn broker_v5_codec_roundtrips() {
    let prev = std::panic::take_hook();
    std::panic::set_hook(Box::new(|_| {}));
    let mut cases = 0;
    let mut fail = None;
    for p in packets(false, big()) {
        cases += 1;
        if let Err(e) = roundtrip(v5::V5, &p) {
            fail = Some(format!("input=[{}] detail=[{}]", brief(&p), e));
            break;
        }
    }
    std::panic::set_hook(prev);
    finish("rumqttd::protocol::v5::V5#encode_decode_roundtrip", "C04", "generated MQTT 5 packet set, every optional PUBLISH property present/absent", cases, fail);
}

// ---------------------------------------------------------------------------------------------
// C20: every notification the routing core emits can be encoded by either protocol
// ---------------------------------------------------------------------------------------------
fn router_emittable() -> Vec<Packet> {
    let mut out = vec![];
    for p in packets(false, false) {
        match &p {
            // forwards carry the publisher's properties (None for a 3.1.1 publisher)
            Packet::Publish(..) => out.push(p),
            // CONNACK always carries properties; the other acks never do; router-initiated DISCONNECT has none
            // (the routing core only ever emits a successful CONNACK; refusals are written by the link itself)
            Packet::ConnAck(c, Some(_)) if c.code == ConnectReturnCode::Success => out.push(p),
            Packet::PubAck(_, None) | Packet::PubRec(_, None) | Packet::PubRel(_, None) | Packet::PubComp(_, None) | Packet::SubAck(_, None) | Packet::UnsubAck(_, None) | Packet::Disconnect(_, None) | Packet::PingResp(_) => out.push(p),
            _ => {}
        }
    }
    out
}

// @native props=C20 tier=quick fn=rumqttd::protocol::v4::V4::write+rumqttd::protocol::v5::V5::write
#[test]
fn every_router_notification_is_encodable_by_both_protocols() {
    let prev = std::panic::take_hook();
    std::panic::set_hook(Box::new(|_| {}));
    let mut cases = 0;
    let mut fail: Option<String> = None;
    for p in router_emittable() {
        cases += 1;
        // MQTT 5 link: content and properties preserved
        if let Err(e) = roundtrip(v5::V5, &p) {
            fail = Some(format!("input=[to a v5 link: {}] detail=[{}]", brief(&p), e));
            break;
        }
        // MQTT 3.1.1 link: must encode without error or panic; same topic/payload/qos/id, properties dropped
        let mut buf = VBytesMut::new();
        let w = std::panic::catch_unwind(std::panic::AssertUnwindSafe(|| v4::V4.write(p.clone(), &mut buf)));
        match w {
            Err(_) => { fail = Some(format!("input=[to a 3.1.1 link: {}] detail=[V4::write panicked]", brief(&p))); break; }
            Ok(Err(e)) => { fail = Some(format!("input=[to a 3.1.1 link: {}] detail=[V4::write failed: {:?}]", brief(&p), e)); break; }
            Ok(Ok(_)) => {}
        }
        if let Packet::Publish(publish, _) = &p {
            if publish.topic.is_empty() {
                continue; // alias-only publishes cannot be expressed in 3.1.1
            }
            let mut c = VBytesMut::from(&buf[..]);
            match c4::Packet::read(&mut c, MAXSZ) {
                Ok(c4::Packet::Publish(q)) => {
                    if q.topic.as_bytes() != &publish.topic[..] || q.payload != publish.payload || q.qos as u8 != publish.qos as u8 || q.retain != publish.retain || (publish.qos != QoS::AtMostOnce && q.pkid != publish.pkid) {
                        fail = Some(format!("input=[to a 3.1.1 client: {}] detail=[client decoded {:?}]", brief(&p), q));
                        break;
                    }
                }
                other => { fail = Some(format!("input=[to a 3.1.1 client: {}] detail=[client decoded {:?}]", brief(&p), other.map(|_| ()))); break; }
            }
        }
    }
    std::panic::set_hook(prev);
    finish("rumqttd::protocol::Protocol::write#router_notifications_encodable_v4_and_v5", "C20", "every notification shape the router emits (forwards with every subset of publish properties, CONNACK with properties, plain acks, DISCONNECT)", cases, fail);
}

// ---------------------------------------------------------------------------------------------
// C04 / C20: client library <-> broker, both protocol versions
// ---------------------------------------------------------------------------------------------
fn cq(q: QoS) -> c4b::QoS {
    match q { QoS::AtMostOnce => c4b::QoS::AtMostOnce, QoS::AtLeastOnce => c4b::QoS::AtLeastOnce, QoS::ExactlyOnce => c4b::QoS::ExactlyOnce }
}
fn cq5(q: QoS) -> c5b::QoS {
    match q { QoS::AtMostOnce => c5b::QoS::AtMostOnce, QoS::AtLeastOnce => c5b::QoS::AtLeastOnce, QoS::ExactlyOnce => c5b::QoS::ExactlyOnce }
}

/// the client-library value with the same content as a broker packet (3.1.1), None where the client has no such packet
fn to_client_v4(p: &Packet) -> Option<c4::Packet> {
    Some(match p {
        Packet::Publish(x, None) => c4::Packet::Publish(c4::Publish { dup: x.dup, qos: cq(x.qos), retain: x.retain, topic: String::from_utf8(x.topic.to_vec()).ok()?, pkid: x.pkid, payload: x.payload.clone() }),
        Packet::PubAck(x, None) => c4::Packet::PubAck(c4::PubAck { pkid: x.pkid }),
        Packet::PubRec(x, None) => c4::Packet::PubRec(c4::PubRec { pkid: x.pkid }),
        Packet::PubRel(x, None) => c4::Packet::PubRel(c4::PubRel { pkid: x.pkid }),
        Packet::PubComp(x, None) => c4::Packet::PubComp(c4::PubComp { pkid: x.pkid }),
        Packet::UnsubAck(x, None) => c4::Packet::UnsubAck(c4::UnsubAck { pkid: x.pkid }),
        Packet::Subscribe(x, None) => c4::Packet::Subscribe(c4::Subscribe { pkid: x.pkid, filters: x.filters.iter().map(|f| c4::SubscribeFilter { path: f.path.clone(), qos: cq(f.qos) }).collect() }),
        Packet::Unsubscribe(x, None) => c4::Packet::Unsubscribe(c4::Unsubscribe { pkid: x.pkid, topics: x.filters.clone() }),
        Packet::SubAck(x, None) => c4::Packet::SubAck(c4::SubAck { pkid: x.pkid, return_codes: x.return_codes.iter().map(|c| match c { SubscribeReasonCode::Success(q) => c4::SubscribeReasonCode::Success(cq(*q)), _ => c4::SubscribeReasonCode::Failure }).collect() }),
        Packet::PingReq(_) => c4::Packet::PingReq,
        Packet::PingResp(_) => c4::Packet::PingResp,
        Packet::Disconnect(_, None) => c4::Packet::Disconnect,
        Packet::ConnAck(x, None) => c4::Packet::ConnAck(c4::ConnAck { session_present: x.session_present, code: match x.code {
            ConnectReturnCode::Success => c4::ConnectReturnCode::Success, ConnectReturnCode::RefusedProtocolVersion => c4::ConnectReturnCode::RefusedProtocolVersion,
            ConnectReturnCode::BadUserNamePassword => c4::ConnectReturnCode::BadUserNamePassword, ConnectReturnCode::NotAuthorized => c4::ConnectReturnCode::NotAuthorized,
            ConnectReturnCode::ServiceUnavailable => c4::ConnectReturnCode::ServiceUnavailable, _ => return None } }),
        Packet::Connect(c, None, w, None, l) => c4::Packet::Connect(c4::Connect {
            protocol: c4b::Protocol::V4, keep_alive: c.keep_alive, client_id: c.client_id.clone(), clean_session: c.clean_session,
            last_will: w.as_ref().map(|w| c4::LastWill { topic: String::from_utf8(w.topic.to_vec()).unwrap(), message: w.message.clone(), qos: cq(w.qos), retain: w.retain }),
            login: l.as_ref().map(|l| c4::Login { username: l.username.clone(), password: l.password.clone() }),
        }),
        _ => return None,
    })
}

// @native props=C04,C20 tier=quick fn=rumqttc::mqttbytes::v4+rumqttd::protocol::v4 (cross-implementation)
#[test]
fn client_and_broker_v4_codecs_interoperate() {
    let prev = std::panic::take_hook();
    std::panic::set_hook(Box::new(|_| {}));
    let mut cases = 0;
    let mut fail: Option<String> = None;
    for p in packets(true, big()) {
        let c = match to_client_v4(&p) { Some(c) => c, None => continue };
        cases += 1;
        // the client library reports the size it is going to write, writes exactly that, and reads it back
        let mut cb = VBytesMut::new();
        let n = match std::panic::catch_unwind(std::panic::AssertUnwindSafe(|| c.write(&mut cb, MAXSZ))) {
            Ok(Ok(n)) => n,
            other => { fail = Some(format!("input=[{:?}] detail=[client encoder failed: {:?}]", c, other.map(|r| r.map_err(|e| format!("{:?}", e))))); break; }
        };
        if n != cb.len() || c.size() != cb.len() {
            fail = Some(format!("input=[{:?}] detail=[client write returned {}, size() says {}, bytes written {}]", c, n, c.size(), cb.len()));
            break;
        }
        let mut again = VBytesMut::from(&cb[..]);
        match c4::Packet::read(&mut again, MAXSZ) {
            Ok(back) if back == c && again.is_empty() => {}
            other => { fail = Some(format!("input=[{:?}] detail=[client decode of its own bytes: {:?}]", c, other.map_err(|e| format!("{:?}", e)))); break; }
        }
        // client bytes -> broker
        let mut to_broker = VBytesMut::from(&cb[..]);
        match v4::V4.read_mut(&mut to_broker, MAXSZ) {
            Ok(back) if back == p && to_broker.is_empty() => {}
            other => { fail = Some(format!("input=[client-encoded {}] detail=[broker decoded {:?}]", brief(&p), other.map(|x| brief(&x)))); break; }
        }
        // broker bytes -> client
        let mut bb = VBytesMut::new();
        if v4::V4.write(p.clone(), &mut bb).is_err() {
            fail = Some(format!("input=[{}] detail=[broker encoder failed]", brief(&p)));
            break;
        }
        if bb != cb {
            fail = Some(format!("input=[{}] detail=[client and broker encode the same packet differently: {:02x?} vs {:02x?}]", brief(&p), &cb[..cb.len().min(24)], &bb[..bb.len().min(24)]));
            break;
        }
    }
    std::panic::set_hook(prev);
    finish("rumqttc<->rumqttd#v4_codecs_interoperate", "C04,C20", "generated MQTT 3.1.1 packet set, both directions, byte-identical encodings", cases, fail);
}

fn to_client_v5_publish(x: &Publish, pr: &Option<PublishProperties>) -> c5::Publish {
    c5::Publish {
        dup: x.dup, qos: cq5(x.qos), retain: x.retain, topic: x.topic.clone(), pkid: x.pkid, payload: x.payload.clone(),
        properties: pr.as_ref().map(|p| c5::PublishProperties {
            payload_format_indicator: p.payload_format_indicator, message_expiry_interval: p.message_expiry_interval, topic_alias: p.topic_alias,
            response_topic: p.response_topic.clone(), correlation_data: p.correlation_data.clone(), user_properties: p.user_properties.clone(),
            subscription_identifiers: p.subscription_identifiers.clone(), content_type: p.content_type.clone(),
        }),
    }
}

// @native props=C04,C20 tier=quick fn=rumqttc::v5::mqttbytes::v5+rumqttd::protocol::v5 (cross-implementation, PUBLISH and acks)
#[test]
fn client_and_broker_v5_codecs_interoperate() {
    let prev = std::panic::take_hook();
    std::panic::set_hook(Box::new(|_| {}));
    let mut cases = 0;
    let mut fail: Option<String> = None;
    for p in packets(false, big()) {
        let c = match &p {
            Packet::Publish(x, pr) => c5::Packet::Publish(to_client_v5_publish(x, pr)),
            Packet::PingReq(_) => c5::Packet::PingReq(c5::PingReq),
            Packet::PingResp(_) => c5::Packet::PingResp(c5::PingResp),
            _ => continue,
        };
        cases += 1;
        let mut cb = VBytesMut::new();
        let n = match std::panic::catch_unwind(std::panic::AssertUnwindSafe(|| c.write(&mut cb, None))) {
            Ok(Ok(n)) => n,
            other => { fail = Some(format!("input=[{:?}] detail=[client encoder failed: {:?}]", c, other.map(|r| r.map_err(|e| format!("{:?}", e))))); break; }
        };
        if n != cb.len() || c.size() != cb.len() {
            fail = Some(format!("input=[{:?}] detail=[client write returned {}, size() says {}, bytes written {}]", c, n, c.size(), cb.len()));
            break;
        }
        let mut again = VBytesMut::from(&cb[..]);
        match c5::Packet::read(&mut again, None) {
            Ok(back) if back == c && again.is_empty() => {}
            other => { fail = Some(format!("input=[{:?}] detail=[client decode of its own bytes: {:?}]", c, other.map_err(|e| format!("{:?}", e)))); break; }
        }
        let mut to_broker = VBytesMut::from(&cb[..]);
        match v5::V5.read_mut(&mut to_broker, MAXSZ) {
            Ok(back) if back == p && to_broker.is_empty() => {}
            other => { fail = Some(format!("input=[client-encoded {}] detail=[broker decoded {:?}]", brief(&p), other.map(|x| brief(&x)))); break; }
        }
        let mut bb = VBytesMut::new();
        if v5::V5.write(p.clone(), &mut bb).is_err() {
            fail = Some(format!("input=[{}] detail=[broker encoder failed]", brief(&p)));
            break;
        }
        let mut to_client = VBytesMut::from(&bb[..]);
        match c5::Packet::read(&mut to_client, None) {
            Ok(back) if back == c && to_client.is_empty() => {}
            other => { fail = Some(format!("input=[broker-encoded {}] detail=[client decoded {:?}]", brief(&p), other.map_err(|e| format!("{:?}", e)))); break; }
        }
    }
    std::panic::set_hook(prev);
    finish("rumqttc<->rumqttd#v5_publish_interoperates", "C04,C20", "MQTT 5 PUBLISH with every subset of properties (and pings), both directions", cases, fail);
}

// ---------------------------------------------------------------------------------------------
// C04: client library codecs through the broker's (round-trip-checked) encodings — every packet type, both versions
// ---------------------------------------------------------------------------------------------
/// For every generated packet P: B = broker.encode(P); C = client.decode(B) must succeed and consume B exactly;
/// B' = client.encode(C) with client.size(C) == bytes written == value returned; client.decode(B') == C; and
/// broker.decode(B') == P.  Since the broker codec round-trips (tests above), this pins the client decoder and
/// encoder (including every len()/size() computation) to the same content without a hand-written field mapping.
// @native props=C04,C20 tier=quick fn=rumqttc::mqttbytes::v4::Packet::{read,write,size}+rumqttc::v5::mqttbytes::v5::Packet::{read,write,size}
#[test]
fn client_codecs_reencode_everything_the_broker_encodes() {
    let prev = std::panic::take_hook();
    std::panic::set_hook(Box::new(|_| {}));
    let mut cases = 0;
    let mut fail: Option<String> = None;
    'outer: for v4 in [true, false] {
        for p in packets(v4, big()) {
            if let Packet::Publish(x, _) = &p {
                if std::str::from_utf8(&x.topic).is_err() {
                    continue;
                }
            }
            cases += 1;
            let mut b = VBytesMut::new();
            let enc = if v4 { v4::V4.write(p.clone(), &mut b) } else { v5::V5.write(p.clone(), &mut b) };
            if enc.is_err() {
                fail = Some(format!("input=[{}] detail=[broker encoder failed]", brief(&p)));
                break 'outer;
            }
            let verdict = std::panic::catch_unwind(std::panic::AssertUnwindSafe(|| -> Result<(), String> {
                let mut b2 = VBytesMut::new();
                if v4 {
                    let mut s = VBytesMut::from(&b[..]);
                    let c = c4::Packet::read(&mut s, MAXSZ).map_err(|e| format!("client 3.1.1 decoder refused the broker's bytes: {:?}", e))?;
                    if !s.is_empty() {
                        return Err(format!("client decoder left {} bytes of the frame", s.len()));
                    }
                    let n = c.write(&mut b2, MAXSZ).map_err(|e| format!("client encoder refused {:?}: {:?}", c, e))?;
                    if n != b2.len() || c.size() != b2.len() {
                        return Err(format!("client write returned {}, size() says {}, bytes written {} for {:?}", n, c.size(), b2.len(), c));
                    }
                    let mut s2 = VBytesMut::from(&b2[..]);
                    let c2 = c4::Packet::read(&mut s2, MAXSZ).map_err(|e| format!("client cannot decode its own bytes: {:?}", e))?;
                    if c2 != c || !s2.is_empty() {
                        return Err(format!("client round trip changed the packet: {:?} -> {:?}", c, c2));
                    }
                } else {
                    let mut s = VBytesMut::from(&b[..]);
                    let c = c5::Packet::read(&mut s, None).map_err(|e| format!("client MQTT 5 decoder refused the broker's bytes: {:?}", e))?;
                    if !s.is_empty() {
                        return Err(format!("client decoder left {} bytes of the frame", s.len()));
                    }
                    let n = c.write(&mut b2, None).map_err(|e| format!("client encoder refused {:?}: {:?}", c, e))?;
                    if n != b2.len() || c.size() != b2.len() {
                        return Err(format!("client write returned {}, size() says {}, bytes written {} for {:?}", n, c.size(), b2.len(), c));
                    }
                    let mut s2 = VBytesMut::from(&b2[..]);
                    let c2 = c5::Packet::read(&mut s2, None).map_err(|e| format!("client cannot decode its own bytes: {:?}", e))?;
                    if c2 != c || !s2.is_empty() {
                        return Err(format!("client round trip changed the packet: {:?} -> {:?}", c, c2));
                    }
                }
                // the client encoders APPEND: the frame is the same whatever the buffer already holds
                let mut b3 = VBytesMut::from(&[0xC0u8, 0x00, 0xD0, 0x00][..]);
                if v4 {
                    let mut s = VBytesMut::from(&b[..]);
                    let c = c4::Packet::read(&mut s, MAXSZ).map_err(|e| format!("{:?}", e))?;
                    c.write(&mut b3, MAXSZ).map_err(|e| format!("client encoder refused to append: {:?}", e))?;
                } else {
                    let mut s = VBytesMut::from(&b[..]);
                    let c = c5::Packet::read(&mut s, None).map_err(|e| format!("{:?}", e))?;
                    c.write(&mut b3, None).map_err(|e| format!("client encoder refused to append: {:?}", e))?;
                }
                if b3[..4] != [0xC0u8, 0x00, 0xD0, 0x00] || b3[4..] != b2[..] {
                    return Err(format!("appended to a buffer that already held 4 bytes, the client encoder wrote {:02x?} (first 4 bytes now {:02x?}); into an empty buffer it writes {:02x?}", &b3[4..], &b3[..4], &b2[..]));
                }
                // and the broker reads the client's encoding as the packet it started from
                let mut s3 = VBytesMut::from(&b2[..]);
                let back = if v4 { v4::V4.read_mut(&mut s3, MAXSZ) } else { v5::V5.read_mut(&mut s3, MAXSZ) };
                match back {
                    Ok(q) if q == p && s3.is_empty() => Ok(()),
                    other => Err(format!("broker decoded the client's encoding as {:?}", other.map(|x| brief(&x)))),
                }
            }));
            let verdict = match verdict { Ok(v) => v, Err(_) => Err("client codec panicked".to_string()) };
            if let Err(e) = verdict {
                fail = Some(format!("input=[{} {}] detail=[{}]", if v4 { "3.1.1" } else { "MQTT 5" }, brief(&p), e));
                break 'outer;
            }
        }
    }
    std::panic::set_hook(prev);
    finish("rumqttc::codecs#reencode_everything_the_broker_encodes", "C04,C20", "generated 3.1.1 and MQTT 5 packet sets, all packet types", cases, fail);
}

// ---------------------------------------------------------------------------------------------
// C05: complete-but-malformed frames (truncations and byte mutations of valid packets), all four decoders
// ---------------------------------------------------------------------------------------------
/// Every valid encoding E = header ++ body of the generated sets is damaged in every way of the following finite
/// family, keeping the frame COMPLETE (the remaining length is rewritten to match): body truncated to each shorter
/// length; each single body byte (first 40 and last 8 positions) replaced by each of 0x00 0x01 0x7f 0x80 0xff.
/// Oracle: no decoder panics; none asks for more bytes of a complete frame; none consumes beyond the frame.
// @native props=C05 tier=quick fn=all four decoders on damaged valid frames
#[test]
fn decoders_survive_every_damaged_valid_frame() {
    fn reframe(byte1: u8, body: &[u8]) -> Vec<u8> {
        let mut out = vec![byte1];
        let mut x = body.len();
        loop {
            let mut b = (x % 128) as u8;
            x /= 128;
            if x > 0 { b |= 0x80; }
            out.push(b);
            if x == 0 { break; }
        }
        out.extend_from_slice(body);
        out
    }
    let prev = std::panic::take_hook();
    std::panic::set_hook(Box::new(|_| {}));
    let mut cases = 0u64;
    let mut fail: Option<String> = None;
    'outer: for v4 in [true, false] {
        for p in packets(v4, false) {
            let mut b = VBytesMut::new();
            if (if v4 { v4::V4.write(p.clone(), &mut b) } else { v5::V5.write(p.clone(), &mut b) }).is_err() {
                continue;
            }
            if b.len() > 300 {
                continue;
            }
            let hl = if b.len() - 2 < 128 { 2 } else { 3 };
            let byte1 = b[0];
            let body = b[hl..].to_vec();
            let mut variants: Vec<Vec<u8>> = vec![];
            for cut in 0..body.len() {
                variants.push(reframe(byte1, &body[..cut]));
            }
            for pos in (0..body.len()).filter(|i| *i < 40 || *i + 8 >= body.len()) {
                for v in [0x00u8, 0x01, 0x7f, 0x80, 0xff] {
                    if body[pos] != v {
                        let mut m = body.clone();
                        m[pos] = v;
                        variants.push(reframe(byte1, &m));
                    }
                }
            }
            for frame in variants {
                for which in 0..2 {
                    cases += 1;
                    let mut s = VBytesMut::from(&frame[..]);
                    s.extend_from_slice(&[0xC0, 0x00]);
                    let total = s.len();
                    let r = std::panic::catch_unwind(std::panic::AssertUnwindSafe(|| -> Result<bool, String> {
                        // Ok(true) = asked for more bytes
                        match (v4, which) {
                            (true, 0) => Ok(matches!(v4::V4.read_mut(&mut s, MAXSZ), Err(Error::InsufficientBytes(_)))),
                            (false, 0) => Ok(matches!(v5::V5.read_mut(&mut s, MAXSZ), Err(Error::InsufficientBytes(_)))),
                            (true, _) => Ok(matches!(c4::Packet::read(&mut s, MAXSZ), Err(c4b::Error::InsufficientBytes(_)))),
                            (false, _) => Ok(matches!(c5::Packet::read(&mut s, None), Err(c5b::Error::InsufficientBytes(_)))),
                        }
                    }));
                    let who = match (v4, which) { (true, 0) => "broker 3.1.1", (false, 0) => "broker MQTT 5", (true, _) => "client 3.1.1", _ => "client MQTT 5" };
                    let consumed = total - s.len();
                    let problem = match r {
                        Err(_) => Some("decoder panicked".to_string()),
                        Ok(Ok(true)) => Some("asks for more bytes although the declared frame is complete".to_string()),
                        Ok(_) if consumed > frame.len() => Some(format!("consumed {} bytes, the frame has {}", consumed, frame.len())),
                        _ => None,
                    };
                    if let Some(pr) = problem {
                        fail = Some(format!("input=[{} decoder, damaged form of {}: bytes={:02x?}] detail=[{}]", who, brief(&p), &frame[..frame.len().min(48)], pr));
                        break 'outer;
                    }
                }
            }
        }
    }
    std::panic::set_hook(prev);
    finish("decoders_x4#damaged_valid_frames_never_panic_never_wait", "C05", "every truncation and single-byte boundary-value mutation (first 40 / last 8 body positions) of every generated valid packet <= 300 bytes, frame kept complete", cases, fail);
}
