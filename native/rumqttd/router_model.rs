// Native bounded stand-ins at ROUTER level (rumqttd/src/router/routing.rs), included as
// `#[cfg(test)] mod verif_native` child module of `routing` in a scratch copy, so that the private
// `Router::events` / `consume` are driven directly on the REAL router, single-threaded and
// deterministic (no tokio, no link threads: the harness plays the link's part exactly as
// link/local.rs does: fill the incoming buffer, send DeviceData; drain the outgoing buffer, answer
// `Unschedule` with `Ready`).
//
// Why native: neither verifier can hold a Router (Kani 0.68: compiler ICE as soon as Router::new is
// reachable; Verus: handler bodies use drain iterators, closures, retain, HashMap).  Every test
// explores a STATED FINITE space exhaustively and checks an oracle taken from the property text;
// these are bounded stand-ins and are never counted as proved.  Output protocol as in
// native/rumqttc/state_v4.rs.

use crate::protocol::{
    Filter as PFilter, PingReq, PubAck, PubAckReason, PubComp, PubCompReason, PubRec, PubRecReason, PubRel,
    PubRelReason, Publish, RetainForwardRule, Subscribe, Unsubscribe,
};
use crate::router::shared_subs::Strategy;
use crate::router::{Ack, Forward, Notification as RNotification, ShadowRequest};
use bytes::Bytes;
use parking_lot::Mutex;
use std::collections::VecDeque;
use std::panic::{catch_unwind, AssertUnwindSafe};
use std::sync::Arc;

pub struct Client {
    pub id: ConnectionId,
    pub name: String,
    pub ibuf: Arc<Mutex<VecDeque<Packet>>>,
    pub obuf: Arc<Mutex<VecDeque<RNotification>>>,
    pub rx: flume::Receiver<()>,
    /// what an MQTT 5 client keeps: alias -> topic, as announced by the broker's forwards
    pub aliases: Mutex<std::collections::HashMap<u16, String>>,
}

pub fn cfg(max_segment_size: usize, max_segment_count: usize, strategy: Strategy) -> RouterConfig {
    RouterConfig {
        max_segment_size,
        max_connections: 10,
        max_segment_count,
        max_outgoing_packet_count: 1024,
        custom_segment: None,
        initialized_filters: None,
        shared_subscriptions_strategy: strategy,
    }
}

pub fn new_router() -> Router {
    Router::new(0, cfg(1024 * 1024, 10, Strategy::RoundRobin))
}

/// let every ready connection make progress until the router is idle
pub fn settle(r: &mut Router) {
    // The real router serves at most 100 ready connections between two looks at its event queue, so a connection
    // that stays ready without making progress (a shared-group member that is skipped because the current member
    // cannot take more: the "parked-member" spin documented with C17) does not block events.  The harness does
    // the same: it gives the ready queue a bounded number of turns and then lets the next event in.
    for _ in 0..3_000 {
        if r.consume().is_none() {
            return;
        }
    }
}

pub fn connect(r: &mut Router, name: &str, clean: bool) -> Option<Client> {
    connect_v5(r, name, clean, 0)
}

/// an MQTT 5 client that announced Topic Alias Maximum = `alias_max` (0: none), as link/remote.rs sets it up
pub fn connect_v5(r: &mut Router, name: &str, clean: bool, alias_max: u16) -> Option<Client> {
    let mut connection = Connection::new(None, name.to_owned(), clean, false);
    connection.topic_alias_max(alias_max);
    let incoming = Incoming::new(connection.client_id.to_owned());
    let (outgoing, rx) = Outgoing::new(connection.client_id.to_owned());
    let ibuf = incoming.buffer();
    let obuf = outgoing.buffer();
    r.events(0, Event::Connect { connection, incoming, outgoing });
    settle(r);
    let id = *r.connection_map.get(name)?;
    // the connection registered under this name must be the one we just handed over
    if !Arc::ptr_eq(&r.obufs.get(id)?.data_buffer, &obuf) {
        return None;
    }
    Some(Client { id, name: name.to_owned(), ibuf, obuf, rx, aliases: Mutex::new(Default::default()) })
}

pub fn send(r: &mut Router, c: &Client, packets: Vec<Packet>) {
    c.ibuf.lock().extend(packets);
    r.events(c.id, Event::DeviceData);
    settle(r);
}

thread_local! {
    /// C20: every notification any of these tests takes from an outgoing buffer is also handed to BOTH protocol writers,
    /// exactly as the link task would (router::MaybePacket::from, then Protocol::write); failures are collected here
    pub static ENCODE_FAILURES: std::cell::RefCell<Vec<String>> = std::cell::RefCell::new(vec![]);
    pub static ENCODED: std::cell::Cell<u64> = std::cell::Cell::new(0);
}

pub fn check_encodable(n: &RNotification) {
    use crate::protocol::Protocol;
    let packet: crate::router::MaybePacket = n.clone().into();
    let Some(packet) = packet else { return };
    ENCODED.with(|c| c.set(c.get() + 1));
    for v5 in [false, true] {
        let mut buf = bytes::BytesMut::new();
        let p = packet.clone();
        let r = catch_unwind(AssertUnwindSafe(|| if v5 { crate::protocol::v5::V5.write(p, &mut buf) } else { crate::protocol::v4::V4.write(p, &mut buf) }));
        let bad = match r { Err(_) => Some("panicked".to_string()), Ok(Err(e)) => Some(format!("failed: {:?}", e)), Ok(Ok(_)) => None };
        if let Some(b) = bad {
            ENCODE_FAILURES.with(|f| f.borrow_mut().push(format!("{} towards an MQTT {} link: write {}", show(n), if v5 { "5" } else { "3.1.1" }, b)));
        }
    }
}

/// C20: what a subscriber's client decodes from the bytes the link writes for this notification (router::MaybePacket::from,
/// Protocol::write of the link's protocol, and the same protocol's reader on the other side)
pub fn on_the_wire(n: &RNotification, v5: bool) -> Result<Option<Packet>, String> {
    use crate::protocol::Protocol;
    let packet: crate::router::MaybePacket = n.clone().into();
    let Some(packet) = packet else { return Ok(None) };
    let mut buf = bytes::BytesMut::new();
    let r = catch_unwind(AssertUnwindSafe(|| {
        if v5 {
            crate::protocol::v5::V5.write(packet, &mut buf)?;
            crate::protocol::v5::V5.read_mut(&mut buf, 1 << 20)
        } else {
            crate::protocol::v4::V4.write(packet, &mut buf)?;
            crate::protocol::v4::V4.read_mut(&mut buf, 1 << 20)
        }
    }));
    match r {
        Err(_) => Err("writing / reading it back panicked".to_string()),
        Ok(Err(e)) => Err(format!("writing / reading it back failed: {:?}", e)),
        Ok(Ok(p)) => Ok(Some(p)),
    }
}

/// what the link would read from its outgoing buffer; answers Unschedule with Ready like the link does
pub fn drain(r: &mut Router, c: &Client) -> Vec<RNotification> {
    let mut out = vec![];
    for _ in 0..64 {
        let got: Vec<RNotification> = c.obuf.lock().drain(..).collect();
        if got.is_empty() {
            break;
        }
        got.iter().for_each(check_encodable);
        let unscheduled = got.iter().any(|n| matches!(n, RNotification::Unschedule));
        out.extend(got.into_iter().filter(|n| !matches!(n, RNotification::Unschedule)));
        if unscheduled {
            r.events(c.id, Event::Ready);
            settle(r);
        }
    }
    out
}

pub fn publish(topic: &str, qos: u8, pkid: u16, payload: &str, retain: bool) -> Packet {
    let q = match qos { 0 => QoS::AtMostOnce, 1 => QoS::AtLeastOnce, _ => QoS::ExactlyOnce };
    Packet::Publish(
        Publish { dup: false, qos: q, pkid, retain, topic: Bytes::copy_from_slice(topic.as_bytes()), payload: Bytes::copy_from_slice(payload.as_bytes()) },
        None,
    )
}

pub fn filter(path: &str, qos: u8) -> PFilter {
    let q = match qos { 0 => QoS::AtMostOnce, 1 => QoS::AtLeastOnce, _ => QoS::ExactlyOnce };
    PFilter { path: path.to_owned(), qos: q, nolocal: false, preserve_retain: false, retain_forward_rule: RetainForwardRule::OnEverySubscribe }
}

pub fn subscribe(pkid: u16, filters: &[(&str, u8)]) -> Packet {
    Packet::Subscribe(Subscribe { pkid, filters: filters.iter().map(|(p, q)| filter(p, *q)).collect() }, None)
}

pub fn unsubscribe(pkid: u16, filters: &[&str]) -> Packet {
    Packet::Unsubscribe(Unsubscribe { pkid, filters: filters.iter().map(|s| s.to_string()).collect() }, None)
}

pub fn puback(pkid: u16) -> Packet {
    Packet::PubAck(PubAck { pkid, reason: PubAckReason::Success }, None)
}
pub fn pubrec(pkid: u16) -> Packet {
    Packet::PubRec(PubRec { pkid, reason: PubRecReason::Success }, None)
}
pub fn pubrel(pkid: u16) -> Packet {
    Packet::PubRel(PubRel { pkid, reason: PubRelReason::Success }, None)
}
pub fn pubcomp(pkid: u16) -> Packet {
    Packet::PubComp(PubComp { pkid, reason: PubCompReason::Success }, None)
}

/// short printable form of a notification: what a client observes
pub fn show(n: &RNotification) -> String {
    match n {
        RNotification::Forward(Forward { publish, .. }) => format!(
            "PUBLISH({},q{},id{},{}{})",
            // a QoS 0 publish carries no packet id on the wire: whatever the field holds is not observable
            String::from_utf8_lossy(&publish.topic), publish.qos as u8, if publish.qos as u8 == 0 { 0 } else { publish.pkid }, String::from_utf8_lossy(&publish.payload), if publish.retain { ",retained" } else { "" }
        ),
        RNotification::DeviceAck(a) => match a {
            Ack::ConnAck(_, c, _) => format!("CONNACK(sp={})", c.session_present),
            Ack::PubAck(p) | Ack::PubAckWithProperties(p, _) => format!("PUBACK({})", p.pkid),
            Ack::SubAck(s) | Ack::SubAckWithProperties(s, _) => format!("SUBACK({},{} codes)", s.pkid, s.return_codes.len()),
            Ack::PubRec(p) | Ack::PubRecWithProperties(p, _) => format!("PUBREC({})", p.pkid),
            Ack::PubRel(p) | Ack::PubRelWithProperties(p, _) => format!("PUBREL({})", p.pkid),
            Ack::PubComp(p) | Ack::PubCompWithProperties(p, _) => format!("PUBCOMP({})", p.pkid),
            Ack::UnsubAck(u) => format!("UNSUBACK({})", u.pkid),
            Ack::PingResp(_) => "PINGRESP".to_string(),
        },
        RNotification::Disconnect(..) => "DISCONNECT".to_string(),
        RNotification::Shadow(_) => "SHADOW".to_string(),
        RNotification::Unschedule => "UNSCHEDULE".to_string(),
        _ => "OTHER".to_string(),
    }
}

pub fn shown(v: &[RNotification]) -> Vec<String> {
    v.iter().map(show).collect()
}

fn env_usize(k: &str, d: usize) -> usize {
    std::env::var(k).ok().and_then(|s| s.parse().ok()).unwrap_or(d)
}

fn report(name: &str, props: &str, bound: &str, cases: u64, fail: Option<String>) {
    match fail {
        None => println!("VERIF-OBLIGATION {} props={} bound=\"{}\" cases={} ok", name, props, bound, cases),
        Some(f) => {
            println!("VERIF-FAIL {} props={} {}", name, props, f);
            panic!("{}", f);
        }
    }
}

// ---------------------------------------------------------------------------------------------
// C03 (and the stale-signal clause of C14): no event sequence can panic or wedge the routing core
// ---------------------------------------------------------------------------------------------
#[derive(Clone, Copy, Debug, PartialEq)]
enum Act {
    ConnA(bool),
    ConnB,
    SubA,
    SubShareA,
    /// one SUBSCRIBE naming a path both plainly and through a shared group (two legal, distinct subscriptions on one log)
    SubPlainAndSharedA,
    /// SUBSCRIBEs the router refuses: a `$`-filter, subscription identifier 0
    SubRefusedA(u8),
    PubB(u8),
    PubBUnicode,
    AckA(u16),
    RecA(u16),
    RelB(u16),
    CompA(u16),
    UnsubA,
    PingA,
    DisconnectPacketA,
    DisconnectEvt(usize),
    Ready(usize),
    DeviceData(usize),
    Shadow(usize),
    Will,
    /// a request followed by the end of the connection BEFORE the router got to serve it (still in the ready queue)
    SubAThenDropUnserved,
    PubBThenDropUnserved,
    ConnectThenDropUnserved,
    /// ONE read of A's link holding a publish on a topic A itself may be subscribed to, followed by the packet that ends the
    /// connection (0: an unsolicited PUBACK, 1: DISCONNECT) — the batch wakes A's own parked request and closes A
    BatchPubThenEndA(u8),
    /// shared subscriptions with unusual names: 0 a multi-byte group name, 1 an empty group name and an empty filter
    SubShareOddA(u8),
}

const ACTS: [Act; 34] = [
    Act::SubShareOddA(0), Act::SubShareOddA(1),
    Act::BatchPubThenEndA(0), Act::BatchPubThenEndA(1),
    Act::SubPlainAndSharedA, Act::SubRefusedA(0), Act::SubRefusedA(1),
    Act::SubAThenDropUnserved, Act::PubBThenDropUnserved, Act::ConnectThenDropUnserved,
    Act::ConnA(true), Act::ConnA(false), Act::ConnB, Act::SubA, Act::SubShareA, Act::PubB(0), Act::PubB(1), Act::PubB(2),
    Act::PubBUnicode, Act::AckA(1), Act::AckA(7), Act::RecA(1), Act::RelB(1), Act::CompA(1), Act::UnsubA, Act::PingA,
    Act::DisconnectPacketA, Act::DisconnectEvt(0), Act::DisconnectEvt(5), Act::Ready(0), Act::Ready(5), Act::DeviceData(5), Act::Shadow(0), Act::Will,
];

fn apply(r: &mut Router, a: &mut Option<Client>, b: &mut Option<Client>, act: Act) {
    match act {
        Act::ConnA(clean) => *a = connect(r, "a", clean).or(a.take()),
        Act::ConnB => *b = connect(r, "b", true).or(b.take()),
        Act::SubA => { if let Some(c) = a { send(r, c, vec![subscribe(1, &[("t/#", 1)])]); } }
        Act::SubShareA => { if let Some(c) = a { send(r, c, vec![subscribe(2, &[("$share/g/t/+", 1)])]); } }
        Act::SubRefusedA(k) => {
            if let Some(c) = a {
                let pkt = if k == 0 { subscribe(6, &[("$SYS/#", 0)]) } else { Packet::Subscribe(Subscribe { pkid: 7, filters: vec![filter("t/y", 0)] }, Some(crate::protocol::SubscribeProperties { id: Some(0), user_properties: vec![] })) };
                send(r, c, vec![pkt]);
            }
        }
        Act::SubPlainAndSharedA => { if let Some(c) = a { send(r, c, vec![subscribe(5, &[("t/x", 1), ("$share/g/t/x", 1)])]); } }
        Act::PubB(q) => { if let Some(c) = b { send(r, c, vec![publish("t/x", q, if q == 0 { 0 } else { 1 }, "m", false)]); } }
        Act::PubBUnicode => { if let Some(c) = b { send(r, c, vec![publish("\u{e9}t/\u{1F600}", 0, 0, "m", false)]); } }
        Act::AckA(k) => { if let Some(c) = a { send(r, c, vec![puback(k)]); } }
        Act::RecA(k) => { if let Some(c) = a { send(r, c, vec![pubrec(k)]); } }
        Act::RelB(k) => { if let Some(c) = b { send(r, c, vec![pubrel(k)]); } }
        Act::CompA(k) => { if let Some(c) = a { send(r, c, vec![pubcomp(k)]); } }
        Act::UnsubA => { if let Some(c) = a { send(r, c, vec![unsubscribe(3, &["t/#"])]); } }
        Act::PingA => { if let Some(c) = a { send(r, c, vec![Packet::PingReq(PingReq)]); } }
        Act::DisconnectPacketA => {
            if let Some(c) = a {
                send(r, c, vec![Packet::Disconnect(crate::protocol::Disconnect { reason_code: crate::protocol::DisconnectReasonCode::NormalDisconnection }, None)]);
            }
        }
        Act::DisconnectEvt(id) => { r.events(id, Event::Disconnect); settle(r); }
        Act::Ready(id) => { r.events(id, Event::Ready); settle(r); }
        Act::DeviceData(id) => { r.events(id, Event::DeviceData); settle(r); }
        Act::Shadow(id) => { r.events(id, Event::Shadow(ShadowRequest { filter: "t/x".to_owned() })); settle(r); }
        Act::Will => { r.events(0, Event::PublishWill(("a".to_owned(), None))); settle(r); }
        Act::SubShareOddA(k) => {
            if let Some(c) = a {
                let pkt = if k == 0 { subscribe(8, &[("$share/\u{f1}\u{1F600}/t/+", 1)]) } else { subscribe(8, &[("$share//t/x", 0), ("$share/g/", 0), ("$share/g", 0)]) };
                send(r, c, vec![pkt]);
            }
        }
        Act::BatchPubThenEndA(k) => {
            if let Some(c) = a {
                let end = if k == 0 { puback(42) } else { Packet::Disconnect(crate::protocol::Disconnect { reason_code: crate::protocol::DisconnectReasonCode::NormalDisconnection }, None) };
                send(r, c, vec![publish("t/x", k, if k == 0 { 0 } else { 3 }, "own", false), end]);
            }
        }
        Act::SubAThenDropUnserved => {
            if let Some(c) = a.take() {
                c.ibuf.lock().push_back(subscribe(4, &[("t/#", 1)]));
                r.events(c.id, Event::DeviceData);
                r.events(c.id, Event::Disconnect);
                settle(r);
            }
        }
        Act::PubBThenDropUnserved => {
            if let Some(c) = b.take() {
                c.ibuf.lock().push_back(publish("t/x", 1, 5, "m", false));
                r.events(c.id, Event::DeviceData);
                r.events(c.id, Event::Disconnect);
                settle(r);
            }
        }
        Act::ConnectThenDropUnserved => {
            let connection = Connection::new(None, "c".to_owned(), true, false);
            let incoming = Incoming::new("c".to_owned());
            let (outgoing, _rx) = Outgoing::new("c".to_owned());
            r.events(0, Event::Connect { connection, incoming, outgoing });
            if let Some(id) = r.connection_map.get("c").copied() {
                r.events(id, Event::Disconnect);
            }
            settle(r);
        }
    }
}

/// after any history the router must still accept and serve a fresh well-behaved pair of clients
fn still_serves(r: &mut Router) -> Result<(), String> {
    let s = connect(r, "probe-sub", true).ok_or("probe subscriber cannot connect")?;
    let p = connect(r, "probe-pub", true).ok_or("probe publisher cannot connect")?;
    send(r, &s, vec![subscribe(9, &[("probe/+", 0)])]);
    send(r, &p, vec![publish("probe/1", 0, 0, "ping", false)]);
    let got = shown(&drain(r, &s));
    if !got.iter().any(|x| x.starts_with("PUBLISH(probe/1")) {
        return Err(format!("probe subscriber got {:?}", got));
    }
    r.events(s.id, Event::Disconnect);
    r.events(p.id, Event::Disconnect);
    settle(r);
    Ok(())
}

// @native props=C03,C14 tier=quick fn=Router::events+handle_device_payload+handle_disconnection+consume
#[test]
fn router_survives_every_short_event_history() {
    let name = "rumqttd::Router::events#no_history_panics_or_wedges_the_router";
    let depth = env_usize("VERIF_EVENT_DEPTH", 3);
    let mut cases = 0u64;
    let mut fail: Option<String> = None;
    let prev = std::panic::take_hook();
    std::panic::set_hook(Box::new(|_| {}));
    let n = ACTS.len();
    let total = n.pow(depth as u32);
    'outer: for code in 0..total {
        let mut seq = vec![];
        let mut c = code;
        for _ in 0..depth {
            seq.push(ACTS[c % n]);
            c /= n;
        }
        cases += 1;
        let res = catch_unwind(AssertUnwindSafe(|| {
            let mut r = new_router();
            let mut a: Option<Client> = None;
            let mut b: Option<Client> = None;
            for (i, act) in seq.iter().enumerate() {
                let step = catch_unwind(AssertUnwindSafe(|| apply(&mut r, &mut a, &mut b, *act)));
                if step.is_err() {
                    return Err(format!("routing core panicked at step {} ({:?})", i, act));
                }
            }
            match catch_unwind(AssertUnwindSafe(|| still_serves(&mut r))) {
                Ok(Ok(())) => Ok(()),
                Ok(Err(e)) => Err(format!("router no longer serves new clients: {}", e)),
                Err(_) => Err("routing core panicked while serving a fresh client afterwards".to_string()),
            }
        }));
        let verdict = match res { Ok(v) => v, Err(_) => Err("panic".to_string()) };
        if let Err(e) = verdict {
            fail = Some(format!("input=[history={:?}] detail=[{}]", seq, e));
            break 'outer;
        }
    }
    std::panic::set_hook(prev);
    report(name, "C03,C14", &format!("all histories of {} actions over {} router-level actions (connect/subscribe/publish/acks incl. unsolicited, Ready/Disconnect/DeviceData/Shadow for live and stale ids, unicode topic)", depth, n), cases, fail);
}

/// the same exploration started from warmed-up routers (clients connected, subscribed and caught up, a forward awaiting
/// its ack, a shared group, a persistent session), so that short histories reach the states cold ones need 5+ steps for
// @native props=C03,C14 tier=quick fn=Router::{events,handle_device_payload,handle_disconnection,consume}+Scheduler+DataLog::clean
#[test]
fn router_survives_every_short_history_after_a_warm_up() {
    let name = "rumqttd::Router::events#no_history_after_a_warm_up_panics_or_wedges_the_router";
    let depth = env_usize("VERIF_EVENT_DEPTH", 3).saturating_sub(1).max(2);
    let warmups: [&[Act]; 7] = [
        &[Act::ConnA(true), Act::ConnB, Act::SubA],
        &[Act::ConnA(false), Act::ConnB, Act::SubA],
        &[Act::ConnA(true), Act::ConnB, Act::SubShareA],
        &[Act::ConnA(true), Act::ConnB, Act::SubA, Act::PubB(1)],
        &[Act::ConnA(false), Act::ConnB, Act::SubA, Act::PubB(2)],
        &[Act::ConnA(true), Act::ConnB, Act::SubA, Act::SubShareA, Act::PubB(0)],
        &[Act::ConnA(false), Act::SubA, Act::DisconnectEvt(0), Act::ConnB],
    ];
    let mut cases = 0u64;
    let mut fail: Option<String> = None;
    let prev = std::panic::take_hook();
    std::panic::set_hook(Box::new(|_| {}));
    let n = ACTS.len();
    let total = n.pow(depth as u32);
    'outer: for warm in warmups.iter() {
        for code in 0..total {
            let mut seq = vec![];
            let mut c = code;
            for _ in 0..depth {
                seq.push(ACTS[c % n]);
                c /= n;
            }
            cases += 1;
            let res = catch_unwind(AssertUnwindSafe(|| {
                let mut r = new_router();
                let mut a: Option<Client> = None;
                let mut b: Option<Client> = None;
                for act in warm.iter() {
                    apply(&mut r, &mut a, &mut b, *act);
                }
                for (i, act) in seq.iter().enumerate() {
                    let step = catch_unwind(AssertUnwindSafe(|| apply(&mut r, &mut a, &mut b, *act)));
                    if step.is_err() {
                        return Err(format!("routing core panicked at step {} ({:?})", i, act));
                    }
                }
                match catch_unwind(AssertUnwindSafe(|| still_serves(&mut r))) {
                    Ok(Ok(())) => Ok(()),
                    Ok(Err(e)) => Err(format!("router no longer serves new clients: {}", e)),
                    Err(_) => Err("routing core panicked while serving a fresh client afterwards".to_string()),
                }
            }));
            let verdict = match res { Ok(v) => v, Err(_) => Err("panic during the warm-up".to_string()) };
            if let Err(e) = verdict {
                fail = Some(format!("input=[warm-up={:?} history={:?}] detail=[{}]", warm, seq, e));
                break 'outer;
            }
        }
    }
    std::panic::set_hook(prev);
    report(name, "C03,C14", &format!("7 warmed-up routers x all histories of {} actions over {} router-level actions", depth, n), cases, fail);
}

// ---------------------------------------------------------------------------------------------
// C06: every request gets exactly one matching reply, in request order, to that client only
// ---------------------------------------------------------------------------------------------
#[derive(Clone, Copy, Debug)]
enum Req {
    Pub1(u16),
    Pub2(u16),
    /// a QoS 2 publish retransmitted with the DUP flag that this connection sees for the first time
    Pub2Dup(u16),
    Rel(u16),
    Sub(u16, usize),
    Unsub(u16, bool),
    UnsubTwo(u16),
    Ping,
    Pub0,
}

/// returns (expected replies, protocol_violation): after a protocol violation (a release the broker never
/// solicited) the broker closes that connection; replies already queued for earlier packets of the same
/// batch may then never be flushed, so only "no wrong, duplicate or reordered reply" is demanded (prefix).
fn expected_replies(reqs: &[Req]) -> (Vec<String>, bool) {
    let mut out = vec![];
    let mut held: VecDeque<u16> = VecDeque::new();
    for q in reqs {
        match q {
            Req::Pub1(k) => out.push(format!("PUBACK({})", k)),
            Req::Pub2(k) | Req::Pub2Dup(k) => { out.push(format!("PUBREC({})", k)); held.push_back(*k); }
            Req::Rel(k) => { if held.pop_front().is_some() { out.push(format!("PUBCOMP({})", k)); } else { return (out, true); /* unsolicited release: connection closed */ } }
            Req::Sub(k, n) => out.push(format!("SUBACK({},{} codes)", k, n)),
            Req::Unsub(k, _) => out.push(format!("UNSUBACK({})", k)),
            Req::UnsubTwo(k) => out.push(format!("UNSUBACK({})", k)),
            Req::Ping => out.push("PINGRESP".to_string()),
            Req::Pub0 => {}
        }
    }
    (out, false)
}

fn to_packet(q: &Req) -> Packet {
    match q {
        Req::Pub1(k) => publish("q/1", 1, *k, "x", false),
        Req::Pub2(k) => publish("q/2", 2, *k, "y", false),
        Req::Pub2Dup(k) => match publish("q/2", 2, *k, "y", false) { Packet::Publish(mut p, pr) => { p.dup = true; Packet::Publish(p, pr) } other => other },
        Req::Rel(k) => pubrel(*k),
        Req::Sub(k, n) => {
            let fs: Vec<(&str, u8)> = [("s/a", 0u8), ("s/+", 1u8), ("s/#", 2u8)][..*n].to_vec();
            subscribe(*k, &fs)
        }
        Req::Unsub(k, subscribed) => unsubscribe(*k, &[if *subscribed { "s/a" } else { "never/subscribed" }]),
        Req::UnsubTwo(k) => unsubscribe(*k, &["s/a", "s/+"]),
        Req::Ping => Packet::PingReq(PingReq),
        Req::Pub0 => publish("q/0", 0, 0, "z", false),
    }
}

/// the same request as an MQTT 5 client may send it: carrying (harmless) properties wherever the packet type has them
fn with_v5_properties(p: Packet) -> Packet {
    let up = || vec![("k".to_string(), "v".to_string())];
    match p {
        Packet::Publish(x, None) => Packet::Publish(x, Some(crate::protocol::PublishProperties { payload_format_indicator: None, message_expiry_interval: None, topic_alias: None, response_topic: None, correlation_data: None, user_properties: up(), subscription_identifiers: vec![], content_type: None })),
        Packet::PubRel(x, None) => Packet::PubRel(x, Some(crate::protocol::PubRelProperties { reason_string: None, user_properties: up() })),
        Packet::Subscribe(x, None) => Packet::Subscribe(x, Some(crate::protocol::SubscribeProperties { id: None, user_properties: up() })),
        Packet::Unsubscribe(x, None) => Packet::Unsubscribe(x, Some(crate::protocol::UnsubscribeProperties { user_properties: up() })),
        other => other,
    }
}

const REQS: [Req; 10] = [Req::Pub2Dup(12), Req::Pub1(11), Req::Pub2(12), Req::Rel(12), Req::Sub(13, 1), Req::Sub(14, 3), Req::Unsub(15, true), Req::Unsub(16, false), Req::UnsubTwo(17), Req::Ping];

// @native props=C06 tier=quick fn=Router::handle_device_payload+ack_device_data+consume
#[test]
fn every_request_gets_exactly_one_reply_in_order() {
    let name = "rumqttd::Router::handle_device_payload#one_matching_reply_per_request_in_order";
    let depth = env_usize("VERIF_REQ_DEPTH", 3);
    let n = REQS.len() + 1;
    let mut cases = 0u64;
    let mut fail: Option<String> = None;
    'outer: for (batched, v5props) in [(true, false), (false, false), (true, true)] {
        let to_packet = |q: &Req| if v5props { with_v5_properties(to_packet(q)) } else { to_packet(q) };
        for code in 0..n.pow(depth as u32) {
            let mut reqs = vec![];
            let mut c = code;
            for _ in 0..depth {
                reqs.push(if c % n == REQS.len() { Req::Pub0 } else { REQS[c % n] });
                c /= n;
            }
            cases += 1;
            let mut r = new_router();
            let a = connect(&mut r, "a", true).unwrap();
            let other = connect(&mut r, "other", true).unwrap();
            // a subscribes s/a and s/+ beforehand so that Unsub(.., true) and UnsubTwo have something to remove
            send(&mut r, &a, vec![subscribe(1, &[("s/a", 0), ("s/+", 0)])]);
            let _ = drain(&mut r, &a);
            let _ = drain(&mut r, &other);
            if batched {
                send(&mut r, &a, reqs.iter().map(|q| to_packet(q)).collect());
            } else {
                for q in &reqs {
                    send(&mut r, &a, vec![to_packet(q)]);
                }
            }
            let got: Vec<String> = shown(&drain(&mut r, &a)).into_iter().filter(|s| !s.starts_with("PUBLISH(")).collect();
            let (exp, violated) = expected_replies(&reqs);
            let stray = shown(&drain(&mut r, &other));
            // afterwards another client issues two requests of its own: it gets exactly the two replies to those
            send(&mut r, &other, vec![Packet::PingReq(PingReq)]);
            send(&mut r, &other, vec![Packet::PingReq(PingReq)]);
            let own = shown(&drain(&mut r, &other));
            if own != vec!["PINGRESP".to_string(), "PINGRESP".to_string()] {
                fail = Some(format!("input=[requests of client a={:?} batched={}; then client 'other' pings twice] detail=[client 'other' received {:?}: replies to requests it never made]", reqs, batched, own));
                break 'outer;
            }
            let ok = if violated { got.len() <= exp.len() && got[..] == exp[..got.len()] } else { got == exp };
            if !ok {
                fail = Some(format!("input=[requests={:?} batched={} carrying MQTT 5 user properties={}] detail=[replies {:?}, expected {:?}]", reqs, batched, v5props, got, exp));
                break 'outer;
            }
            if !stray.is_empty() {
                fail = Some(format!("input=[requests={:?} batched={}] detail=[another client received {:?}]", reqs, batched, stray));
                break 'outer;
            }
        }
    }
    report(name, "C06", &format!("all sequences of {} requests over {} request kinds (QoS1/QoS2 publish, release, subscribe with 1 and 3 filters, unsubscribe of subscribed / never-subscribed / two filters, ping, QoS0), sent as one batch, one by one, and as one batch with MQTT 5 user properties on every packet that can carry them", depth, n), cases, fail);
}

/// C06: requests that arrive while the connection is paused because its OWN outbound window is full are answered all
/// the same (the replies must not wait for the client to acknowledge unrelated publishes)
// @native props=C06 tier=quick fn=Router::handle_device_payload+Tracker::try_ready(FreshData)+ack_device_data
#[test]
fn requests_are_answered_while_the_outbound_window_is_full() {
    let name = "rumqttd::Router::handle_device_payload#replies_do_not_wait_for_the_window";
    let mut cases = 0u64;
    let mut fail: Option<String> = None;
    'outer: for unacked in [100usize, 3] {
        for batched in [false, true] {
            for set in 0..REQS.len() {
                cases += 1;
                let reqs: Vec<Req> = if batched { vec![REQS[set], Req::Ping, REQS[(set + 3) % REQS.len()]] } else { vec![REQS[set]] };
                let desc = format!("client a has {} unacknowledged QoS 1 forwards (window of 100), then sends {:?} as one batch", unacked, reqs);
                let mut r = new_router();
                let a = connect(&mut r, "a", true).unwrap();
                let p = connect(&mut r, "p", true).unwrap();
                send(&mut r, &a, vec![subscribe(1, &[("w/#", 1), ("s/a", 0), ("s/+", 0)])]);
                let _ = drain(&mut r, &a);
                let pubs: Vec<Packet> = (0..unacked + 5).map(|i| publish("w/x", 0, 0, &format!("{}", i), false)).collect();
                for chunk in pubs.chunks(40) {
                    send(&mut r, &p, chunk.to_vec());
                }
                let first = drain(&mut r, &a); // read, do not acknowledge
                let forwarded = first.iter().filter(|n| matches!(n, RNotification::Forward(_))).count();
                if forwarded < unacked.min(100) {
                    fail = Some(format!("input=[{}] detail=[only {} forwards reached the client]", desc, forwarded));
                    break 'outer;
                }
                send(&mut r, &a, reqs.iter().map(to_packet).collect());
                let got: Vec<String> = shown(&drain(&mut r, &a)).into_iter().filter(|s| !s.starts_with("PUBLISH(")).collect();
                let (exp, violated) = expected_replies(&reqs);
                let ok = if violated { got.len() <= exp.len() && got[..] == exp[..got.len()] } else { got == exp };
                if !ok {
                    fail = Some(format!("input=[{}] detail=[replies {:?}, expected {:?}; the broker is idle]", desc, got, exp));
                    break 'outer;
                }
            }
        }
    }
    report(name, "C06", "window full (100 unacknowledged) or nearly empty (3) x every request kind alone and in a batch of three", cases, fail);
}

/// C06: a QoS 2 publish reaches subscribers only once released, and once per release
// @native props=C06 tier=quick fn=Router::handle_device_payload(QoS2)
#[test]
fn qos2_publish_is_forwarded_on_release_only_and_once() {
    let name = "rumqttd::Router::handle_device_payload#qos2_forwarded_on_release_once";
    let mut cases = 0;
    let mut fail = None;
    for k in 1..=3u16 {
        cases += 1;
        let mut r = new_router();
        let s = connect(&mut r, "s", true).unwrap();
        let p = connect(&mut r, "p", true).unwrap();
        send(&mut r, &s, vec![subscribe(1, &[("q/#", 0)])]);
        let _ = drain(&mut r, &s);
        let mut pubs = vec![];
        for i in 0..k {
            pubs.push(publish("q/2", 2, 20 + i, &format!("m{}", i), false));
        }
        send(&mut r, &p, pubs);
        let before: Vec<String> = shown(&drain(&mut r, &s));
        if !before.is_empty() {
            fail = Some(format!("input=[{} unreleased QoS2 publishes] detail=[subscriber already got {:?}]", k, before));
            break;
        }
        for i in 0..k {
            send(&mut r, &p, vec![pubrel(20 + i)]);
            let got = shown(&drain(&mut r, &s));
            let exp = vec![format!("PUBLISH(q/2,q0,id0,m{})", i)];
            if got != exp {
                fail = Some(format!("input=[release {} of {}] detail=[subscriber got {:?}, expected {:?}]", i, k, got, exp));
                break;
            }
        }
        if fail.is_some() {
            break;
        }
    }
    report(name, "C06", "1..=3 QoS 2 publishes released in publish order", cases, fail);
}

// ---------------------------------------------------------------------------------------------
// reference matcher (the MQTT rules as stated in C12) used by the delivery oracles
// ---------------------------------------------------------------------------------------------
fn ref_match_levels(t: &[&str], f: &[&str]) -> bool {
    match (f.first(), t.first()) {
        (None, None) => true,
        (None, Some(_)) => false,
        (Some(&"#"), _) if f.len() == 1 => true,
        (Some(_), None) => false,
        (Some(&"+"), Some(_)) => ref_match_levels(&t[1..], &f[1..]),
        (Some(fl), Some(tl)) => fl == tl && ref_match_levels(&t[1..], &f[1..]),
    }
}

fn ref_matches(topic: &str, filter: &str) -> bool {
    if topic.starts_with('$') {
        return false;
    }
    let t: Vec<&str> = topic.split('/').collect();
    let f: Vec<&str> = filter.split('/').collect();
    ref_match_levels(&t, &f)
}

/// a well-behaved subscriber: reads everything, acknowledges QoS 1 in order, until the router is idle
fn receive_all(r: &mut Router, c: &Client) -> Vec<(String, String, u8, bool)> {
    let mut got = vec![];
    for _ in 0..200 {
        let batch = drain(r, c);
        if batch.is_empty() {
            break;
        }
        let mut acks = vec![];
        for n in batch {
            if let RNotification::Forward(Forward { publish, properties, .. }) = n {
                // what an MQTT 5 client does with a topic alias: remember it when the topic comes along, use it when not
                let mut topic = String::from_utf8_lossy(&publish.topic).to_string();
                if let Some(alias) = properties.as_ref().and_then(|p| p.topic_alias) {
                    let mut map = c.aliases.lock();
                    if topic.is_empty() {
                        topic = map.get(&alias).cloned().unwrap_or_else(|| format!("<unknown alias {}>", alias));
                    } else {
                        map.insert(alias, topic.clone());
                    }
                }
                got.push((topic, String::from_utf8_lossy(&publish.payload).to_string(), publish.qos as u8, publish.retain));
                if publish.qos as u8 == 1 {
                    acks.push(puback(publish.pkid));
                }
            }
        }
        if !acks.is_empty() {
            send(r, c, acks);
        }
    }
    got
}

fn is_subsequence(needle: &[(String, String)], hay: &[(String, String)]) -> bool {
    let mut i = 0;
    for h in hay {
        if i < needle.len() && *h == needle[i] {
            i += 1;
        }
    }
    i == needle.len()
}

const FILTERS: [&str; 5] = ["a/b", "a/+", "#", "a/#", "+/b"];
const TOPICS: [&str; 4] = ["a/b", "a/c", "b", "$x/b"];

// @native props=C01 tier=quick fn=Router::{handle_device_payload,append_to_commitlog,prepare_filter,consume,forward_device_data}
#[test]
fn each_subscriber_gets_exactly_its_matching_messages_in_order() {
    let name = "rumqttd::Router#exact_delivery_to_matching_subscriptions_in_order";
    // subscription sets: one or two filters, each QoS 0 or 1
    let mut subsets: Vec<Vec<(usize, u8)>> = vec![];
    for i in 0..FILTERS.len() {
        for q in 0..2u8 {
            subsets.push(vec![(i, q)]);
            for j in (i + 1)..FILTERS.len() {
                for q2 in 0..2u8 {
                    subsets.push(vec![(i, q), (j, q2)]);
                }
            }
        }
    }
    let singles: Vec<Vec<(usize, u8)>> = (0..FILTERS.len()).flat_map(|i| (0..2u8).map(move |q| vec![(i, q)])).collect();
    let npub = TOPICS.len() * 2;
    let mut cases = 0u64;
    let mut fail: Option<String> = None;
    'outer: for s1 in &subsets {
        for s2 in &singles {
            for code in 0..(npub * npub) {
                cases += 1;
                let seq = [code % npub, code / npub, (code * 7 + 3) % npub];
                let mut r = new_router();
                let c1 = connect(&mut r, "s1", true).unwrap();
                let c2 = connect(&mut r, "s2", true).unwrap();
                let p = connect(&mut r, "p", true).unwrap();
                let f1: Vec<(&str, u8)> = s1.iter().map(|(i, q)| (FILTERS[*i], *q)).collect();
                send(&mut r, &c1, vec![subscribe(1, &f1)]);
                let mut exp1: Vec<Vec<(String, String)>> = vec![vec![]; f1.len()];
                let mut exp2: Vec<(String, String)> = vec![];
                let f2 = (FILTERS[s2[0].0], s2[0].1);
                for (k, pc) in seq.iter().enumerate() {
                    if k == 1 {
                        // the second subscriber's subscription takes effect between the first and second publish
                        send(&mut r, &c2, vec![subscribe(2, &[f2])]);
                    }
                    let topic = TOPICS[pc % TOPICS.len()];
                    let q = (pc / TOPICS.len()) as u8;
                    let payload = format!("m{}", k);
                    send(&mut r, &p, vec![publish(topic, q, if q == 0 { 0 } else { 10 + k as u16 }, &payload, false)]);
                    for (fi, (f, _)) in f1.iter().enumerate() {
                        if ref_matches(topic, f) {
                            exp1[fi].push((topic.to_string(), payload.clone()));
                        }
                    }
                    if k >= 1 && ref_matches(topic, f2.0) {
                        exp2.push((topic.to_string(), payload.clone()));
                    }
                }
                let got1 = receive_all(&mut r, &c1);
                let got2 = receive_all(&mut r, &c2);
                let desc = || format!("s1 subscribes {:?}; s2 subscribes {:?} after the first publish; publishes (topic index + 4*qos) {:?}", f1, f2, seq);
                // subscriber 1: per subscription, exactly the matching messages with the granted QoS, in order
                let mut total = 0;
                for (fi, (_f, q)) in f1.iter().enumerate() {
                    total += exp1[fi].len();
                    let proj: Vec<(String, String)> = got1.iter().filter(|g| g.2 == *q).map(|g| (g.0.clone(), g.1.clone())).collect();
                    if !is_subsequence(&exp1[fi], &proj) {
                        fail = Some(format!("input=[{}] detail=[s1 received {:?}; subscription {:?} should have produced {:?} in this order with QoS {}]", desc(), got1, f1[fi], exp1[fi], q));
                        break 'outer;
                    }
                }
                if got1.len() != total {
                    fail = Some(format!("input=[{}] detail=[s1 received {} messages {:?}, its subscriptions match {} in total]", desc(), got1.len(), got1, total));
                    break 'outer;
                }
                let proj2: Vec<(String, String)> = got2.iter().map(|g| (g.0.clone(), g.1.clone())).collect();
                if proj2 != exp2 || got2.iter().any(|g| g.2 != f2.1) {
                    fail = Some(format!("input=[{}] detail=[s2 received {:?}, expected exactly {:?} with QoS {}]", desc(), got2, exp2, f2.1));
                    break 'outer;
                }
                if got1.iter().chain(got2.iter()).any(|g| g.3) {
                    fail = Some(format!("input=[{}] detail=[a live forward is flagged retained]", desc()));
                    break 'outer;
                }
            }
        }
    }
    report(name, "C01", "2 subscribers (1-2 filters out of 5, QoS 0/1; second subscribes mid-stream) x 64 publish sequences of 3 over 4 topics incl. a $-topic, QoS 0/1", cases, fail);
}

// ---------------------------------------------------------------------------------------------
// C09 (router glue): window never above 100, ids unique among unacknowledged, resumes on in-order acks
// ---------------------------------------------------------------------------------------------
// @native props=C09,C01 tier=quick fn=Router::{consume,forward_device_data}+Outgoing::push_forwards
#[test]
fn outbound_window_is_bounded_unique_and_resumes_on_acks() {
    let name = "rumqttd::Router#outbound_window_bounded_unique_resumes_on_ack";
    let mut cases = 0u64;
    let mut fail: Option<String> = None;
    'outer: for backlog in [0usize, 1, 99, 100, 101, 250] {
        for burst in [1usize, 7, 100] {
            for two_filters in [false, true] {
                for retained in [false, true] {
                    cases += 1;
                    let mut r = new_router();
                    let s = connect(&mut r, "s", true).unwrap();
                    let p = connect(&mut r, "p", true).unwrap();
                    if retained {
                        send(&mut r, &p, vec![publish("w/r", 0, 0, "keep", true)]);
                    }
                    // the backlog builds up while the subscriber is not reading: subscribe and publish in one router turn
                    let subs = if two_filters { vec![("w/#", 1u8), ("w/+", 1u8)] } else { vec![("w/#", 1u8)] };
                    s.ibuf.lock().push_back(subscribe(1, &subs));
                    r.events(s.id, Event::DeviceData);
                    let mut pubs = vec![];
                    for i in 0..backlog {
                        pubs.push(publish("w/x", 0, 0, &format!("{}", i), false));
                    }
                    p.ibuf.lock().extend(pubs);
                    r.events(p.id, Event::DeviceData);
                    settle(&mut r);
                    let expected_total = (backlog + if retained { 1 } else { 0 }) * subs.len();
                    let mut unacked: VecDeque<u16> = VecDeque::new();
                    let mut received = 0usize;
                    let desc = format!("backlog={} ack-burst={} filters={:?} retained_message={}", backlog, burst, subs, retained);
                    for _round in 0..2000 {
                        let batch = drain(&mut r, &s);
                        for n in &batch {
                            if let RNotification::Forward(Forward { publish, .. }) = n {
                                received += 1;
                                if publish.pkid == 0 {
                                    fail = Some(format!("input=[{}] detail=[QoS 1 publish forwarded with packet id 0]", desc));
                                    break 'outer;
                                }
                                if unacked.contains(&publish.pkid) {
                                    fail = Some(format!("input=[{}] detail=[packet id {} handed out while still unacknowledged ({} in flight)]", desc, publish.pkid, unacked.len()));
                                    break 'outer;
                                }
                                unacked.push_back(publish.pkid);
                                if unacked.len() > 100 {
                                    fail = Some(format!("input=[{}] detail=[{} QoS 1 publishes awaiting acknowledgement towards one client]", desc, unacked.len()));
                                    break 'outer;
                                }
                            }
                        }
                        if unacked.is_empty() {
                            if batch.is_empty() {
                                break;
                            }
                            continue;
                        }
                        // acknowledge in order, `burst` at a time; no other stimulus is given
                        let k = burst.min(unacked.len());
                        let acks: Vec<Packet> = (0..k).map(|_| puback(unacked.pop_front().unwrap())).collect();
                        send(&mut r, &s, acks);
                    }
                    if r.obufs.get(s.id).is_none() {
                        fail = Some(format!("input=[{}] detail=[a well-behaved subscriber was disconnected]", desc));
                        break 'outer;
                    }
                    if received != expected_total || !unacked.is_empty() {
                        fail = Some(format!("input=[{}] detail=[{} of {} messages delivered after all acknowledgements, broker idle]", desc, received, expected_total));
                        break 'outer;
                    }
                }
            }
        }
    }
    report(name, "C09,C01", "backlogs 0,1,99,100,101,250 x ack bursts 1,7,100 x one/two filters x with/without a retained message", cases, fail);
}

// ---------------------------------------------------------------------------------------------
// C08: persistent sessions
// ---------------------------------------------------------------------------------------------
#[derive(Clone, Copy, Debug)]
enum End {
    LinkFailure,
    DisconnectPacket,
    Takeover,
    /// the router closes the connection because the client sent an acknowledgement that is not the one due
    WrongAck,
}

// @native props=C08 tier=quick fn=Router::{handle_disconnection,handle_new_connection}+Graveyard+Outgoing::retransmission_map
#[test]
fn persistent_session_resumes_from_the_oldest_unacknowledged_message() {
    let name = "rumqttd::Router#persistent_session_resume";
    let mut cases = 0u64;
    let mut fail: Option<String> = None;
    'outer: for k1 in 0..=3usize {
        for acked in 0..=k1 {
            for k2 in 0..=2usize {
                for end in [End::LinkFailure, End::DisconnectPacket, End::Takeover, End::WrongAck] {
                    for cycles in 1..=2usize {
                      for retained_first in [false, true] {
                        if retained_first && acked > 0 {
                            continue; // acknowledgements are in order: nothing behind an unacknowledged retained replay can be acknowledged
                        }
                        cases += 1;
                        let desc = format!("{} messages delivered, {} acknowledged, connection ends by {:?}, {} messages while away, {} reconnect cycle(s), unacknowledged retained replay at the head of the window: {}", k1, acked, end, k2, cycles, retained_first);
                        let mut r = new_router();
                        let p = connect(&mut r, "p", true).unwrap();
                        if retained_first {
                            send(&mut r, &p, vec![publish("s/r", 0, 0, "keep", true)]);
                        }
                        let mut c = connect(&mut r, "c", false).unwrap();
                        send(&mut r, &c, vec![subscribe(1, &[("s/#", 1)])]);
                        let first = shown(&drain(&mut r, &c));
                        if !first.contains(&"CONNACK(sp=false)".to_string()) {
                            fail = Some(format!("input=[{}] detail=[first connect answered {:?}]", desc, first));
                            break 'outer;
                        }
                        let mut seqno = 0;
                        let mut last_pkids: Vec<u16> = vec![];
                        let mut expected_pending: Vec<String> = vec![];
                        for _ in 0..k1 {
                            send(&mut r, &p, vec![publish("s/t", 1, 50, &format!("m{}", seqno), false)]);
                            expected_pending.push(format!("m{}", seqno));
                            seqno += 1;
                        }
                        let delivered: Vec<(u16, String)> = drain(&mut r, &c).into_iter().filter_map(|n| match n { RNotification::Forward(Forward { publish, .. }) => Some((publish.pkid, String::from_utf8_lossy(&publish.payload).to_string())), _ => None }).filter(|d| d.1 != "keep").collect();
                        if delivered.iter().map(|d| d.1.clone()).collect::<Vec<_>>() != expected_pending {
                            fail = Some(format!("input=[{}] detail=[before the disconnect the client received {:?}]", desc, delivered));
                            break 'outer;
                        }
                        let acks: Vec<Packet> = delivered.iter().take(acked).map(|d| puback(d.0)).collect();
                        if !acks.is_empty() {
                            send(&mut r, &c, acks);
                        }
                        expected_pending.drain(..acked);
                        for cycle in 0..cycles {
                            // the connection ends
                            match end {
                                End::LinkFailure => { r.events(c.id, Event::Disconnect); settle(&mut r); }
                                End::DisconnectPacket => send(&mut r, &c, vec![Packet::Disconnect(crate::protocol::Disconnect { reason_code: crate::protocol::DisconnectReasonCode::NormalDisconnection }, None)]),
                                End::Takeover => {}
                                // an acknowledgement that names no (or not the oldest) outstanding publish acknowledges nothing
                                End::WrongAck => { send(&mut r, &c, vec![puback(77)]); let _ = drain(&mut r, &c); }
                            }
                            // messages accepted while the client is away (or until it is taken over)
                            if cycle == 0 {
                                for _ in 0..k2 {
                                    send(&mut r, &p, vec![publish("s/t", 1, 51, &format!("m{}", seqno), false)]);
                                    expected_pending.push(format!("m{}", seqno));
                                    seqno += 1;
                                }
                            }
                            // it comes back under the same client id with clean session off
                            c = match connect(&mut r, "c", false) {
                                Some(c) => c,
                                None => { fail = Some(format!("input=[{}] detail=[reconnect {} refused]", desc, cycle)); break 'outer; }
                            };
                            let notes = drain(&mut r, &c);
                            let txt = shown(&notes);
                            if !txt.contains(&"CONNACK(sp=true)".to_string()) {
                                fail = Some(format!("input=[{}] detail=[reconnect {} got {:?}: session not reported present]", desc, cycle, txt));
                                break 'outer;
                            }
                            // (one-off replays of retained messages are excepted by the property: ignored here)
                            let redelivered: Vec<String> = notes.iter().filter_map(|n| match n { RNotification::Forward(Forward { publish, .. }) => Some(String::from_utf8_lossy(&publish.payload).to_string()), _ => None }).filter(|x| x != "keep").collect();
                            last_pkids = notes.iter().filter_map(|n| match n { RNotification::Forward(Forward { publish, .. }) => Some(publish.pkid), _ => None }).collect();
                            if redelivered != expected_pending {
                                fail = Some(format!("input=[{}] detail=[after reconnect {} (no re-subscribe) the client received {:?}, expected {:?}: unacknowledged ones again, acknowledged ones not, then what arrived while away]", desc, cycle, redelivered, expected_pending));
                                break 'outer;
                            }
                            // second cycle: nothing is acknowledged in between, so the same messages are due again
                        }
                        // subscriptions are still in force: a new publish reaches the client without re-subscribing
                        // (first acknowledge what is outstanding, in order)
                        let outstanding: Vec<Packet> = last_pkids.iter().map(|k| puback(*k)).collect();
                        if !outstanding.is_empty() {
                            send(&mut r, &c, outstanding);
                        }
                        send(&mut r, &p, vec![publish("s/t", 1, 52, "fresh", false)]);
                        let live_notes = drain(&mut r, &c);
                        let live_pkid: u16 = live_notes.iter().filter_map(|n| match n { RNotification::Forward(Forward { publish, .. }) => Some(publish.pkid), _ => None }).next().unwrap_or(0);
                        let live: Vec<String> = live_notes.iter().filter_map(|n| match n { RNotification::Forward(Forward { publish, .. }) => Some(String::from_utf8_lossy(&publish.payload).to_string()), _ => None }).collect();
                        if live != vec!["fresh".to_string()] {
                            fail = Some(format!("input=[{}] detail=[after resume a new matching publish produced {:?}]", desc, live));
                            break 'outer;
                        }
                        // the resumed subscription is a real subscription: it can be removed again, and then nothing more arrives
                        send(&mut r, &c, vec![puback(live_pkid), unsubscribe(7, &["s/#"])]);
                        let un = shown(&drain(&mut r, &c));
                        if un != vec!["UNSUBACK(7)".to_string()] {
                            fail = Some(format!("input=[{}] detail=[UNSUBSCRIBE after resume answered {:?}]", desc, un));
                            break 'outer;
                        }
                        send(&mut r, &p, vec![publish("s/t", 1, 55, "after-unsubscribe", false)]);
                        let after: Vec<String> = shown(&drain(&mut r, &c));
                        if !after.is_empty() {
                            fail = Some(format!("input=[{}] detail=[after unsubscribing the resumed subscription the client still received {:?}]", desc, after));
                            break 'outer;
                        }
                        // a later clean-session connect reports no session and has no subscriptions and no backlog
                        r.events(c.id, Event::Disconnect);
                        settle(&mut r);
                        send(&mut r, &p, vec![publish("s/t", 1, 53, "late", false)]);
                        let clean = connect(&mut r, "c", true).unwrap();
                        let txt = shown(&drain(&mut r, &clean));
                        if txt != vec!["CONNACK(sp=false)".to_string()] {
                            fail = Some(format!("input=[{}] detail=[clean-session connect got {:?}]", desc, txt));
                            break 'outer;
                        }
                        send(&mut r, &p, vec![publish("s/t", 1, 54, "later", false)]);
                        let txt = shown(&drain(&mut r, &clean));
                        if !txt.is_empty() {
                            fail = Some(format!("input=[{}] detail=[clean session still has a subscription: {:?}]", desc, txt));
                            break 'outer;
                        }
                      }
                    }
                }
            }
        }
    }
    report(name, "C08", "0..3 delivered x 0..k acknowledged x 0..2 while away x {link failure, DISCONNECT, takeover} x 1..2 reconnect cycles x with/without an unacknowledged retained replay at the head of the window, then clean-session connect", cases, fail);
}

// ---------------------------------------------------------------------------------------------
// C15: retained messages
// ---------------------------------------------------------------------------------------------
// @native props=C15 tier=quick fn=Router::{append_to_commitlog,prepare_filter,forward_device_data}+DataLog retained map
#[test]
fn retained_messages_follow_the_rules() {
    let name = "rumqttd::Router#retained_latest_per_topic_cleared_by_empty";
    // a script is a sequence of retained / non-retained / clearing publishes on two topics
    #[derive(Clone, Copy, Debug)]
    enum P { Ret(usize), Plain(usize), Clear(usize), PlainEmpty(usize) }
    let acts = [P::Ret(0), P::Ret(1), P::Plain(0), P::Clear(0), P::Clear(1), P::PlainEmpty(0)];
    let topics = ["r/a", "r/b"];
    let filters = ["r/a", "r/+", "#", "r/b"];
    let mut cases = 0u64;
    let mut fail: Option<String> = None;
    'outer: for code in 0..(acts.len() * acts.len() * acts.len()) {
        let script = [acts[code % 6], acts[(code / 6) % 6], acts[code / 36]];
        for f in filters.iter() {
            for q in 0..2u8 {
                cases += 1;
                let desc = format!("publishes {:?} then a new subscription {:?} QoS {}", script, f, q);
                let mut r = new_router();
                let p = connect(&mut r, "p", true).unwrap();
                let live = connect(&mut r, "live", true).unwrap();
                send(&mut r, &live, vec![subscribe(1, &[("r/#", 0)])]);
                let _ = drain(&mut r, &live);
                let mut retained: [Option<String>; 2] = [None, None];
                let mut live_expected = vec![];
                for (k, a) in script.iter().enumerate() {
                    let (t, payload, ret) = match a {
                        P::Ret(t) => { let s = format!("v{}", k); retained[*t] = Some(s.clone()); (*t, s, true) }
                        P::Plain(t) => (*t, format!("v{}", k), false),
                        P::Clear(t) => { retained[*t] = None; (*t, String::new(), true) }
                        // an empty payload WITHOUT the retain flag is an ordinary message: the retained one stays
                        P::PlainEmpty(t) => (*t, String::new(), false),
                    };
                    send(&mut r, &p, vec![publish(topics[t], 0, 0, &payload, ret)]);
                    live_expected.push((topics[t].to_string(), payload, 0u8, false));
                }
                let live_got = receive_all(&mut r, &live);
                if live_got != live_expected {
                    fail = Some(format!("input=[{}] detail=[an existing subscriber received {:?}, expected {:?} (live copies are not flagged retained)]", desc, live_got, live_expected));
                    break 'outer;
                }
                let s = connect(&mut r, "s", true).unwrap();
                send(&mut r, &s, vec![subscribe(2, &[(f, q)])]);
                let mut got = receive_all(&mut r, &s);
                got.sort();
                let mut exp: Vec<(String, String, u8, bool)> = (0..2).filter(|t| ref_matches(topics[*t], f)).filter_map(|t| retained[t].clone().map(|v| (topics[t].to_string(), v, q, true))).collect();
                exp.sort();
                if got != exp {
                    fail = Some(format!("input=[{}] detail=[the new subscriber received {:?}, expected the latest retained message of each matching topic, flagged retained: {:?}]", desc, got, exp));
                    break 'outer;
                }
                // repeating the subscription does not replay
                send(&mut r, &s, vec![subscribe(3, &[(f, q)])]);
                let again = receive_all(&mut r, &s);
                if !again.is_empty() {
                    fail = Some(format!("input=[{}] detail=[repeating the subscription replayed {:?}]", desc, again));
                    break 'outer;
                }
                // a shared-group subscription does not replay retained messages
                let g = connect(&mut r, "g", true).unwrap();
                send(&mut r, &g, vec![subscribe(4, &[(&format!("$share/grp/{}", f), q)])]);
                let shared = receive_all(&mut r, &g);
                if !shared.is_empty() {
                    fail = Some(format!("input=[{}] detail=[a shared subscription replayed retained messages {:?}]", desc, shared));
                    break 'outer;
                }
            }
        }
    }
    report(name, "C15", "all 216 scripts of 3 retained / plain / clearing / plain-with-empty-payload publishes on 2 topics x 4 filters x QoS 0/1; re-subscribe and shared subscribe afterwards", cases, fail);
}

/// C15: a retained publish that is accepted after the SUBSCRIBE but before the router first serves the new subscription.
/// On the pinned tree it is delivered twice (the log cursor is taken at SUBSCRIBE time, the retained set is read at the
/// first consume): recorded as a KNOWN FINDING, kept as its own obligation.
// @native props=C15 tier=quick fn=Router::{prepare_filter,forward_device_data} (retained snapshot vs. log cursor)
#[test]
fn retained_publish_racing_a_new_subscription_is_delivered_once() {
    let name = "rumqttd::Router::forward_device_data#retained_publish_between_subscribe_and_first_consume";
    let mut cases = 0u64;
    let mut fail: Option<String> = None;
    'outer: for q in 0..2u8 {
        for same_client in [true, false] {
            cases += 1;
            let desc = format!("SUBSCRIBE r/t (QoS {}) and a retained PUBLISH on r/t {} reach the router before it serves the subscription", q, if same_client { "in one batch of the same client" } else { "as two events of two clients" });
            let mut r = new_router();
            let s1 = connect(&mut r, "s", true).unwrap();
            let p = connect(&mut r, "p", true).unwrap();
            if same_client {
                send(&mut r, &s1, vec![subscribe(1, &[("r/t", q)]), publish("r/t", 0, 0, "r1", true)]);
            } else {
                s1.ibuf.lock().push_back(subscribe(1, &[("r/t", q)]));
                p.ibuf.lock().push_back(publish("r/t", 0, 0, "r1", true));
                r.events(s1.id, Event::DeviceData);
                r.events(p.id, Event::DeviceData);
                settle(&mut r);
            }
            let got = receive_all(&mut r, &s1);
            if got.len() != 1 {
                fail = Some(format!("input=[{}] detail=[the subscriber received {:?}: the one message {} times]", desc, got, got.len()));
                break 'outer;
            }
        }
    }
    report(name, "C15", "QoS 0/1 x same client in one batch / two clients in one router round", cases, fail);
}

/// C15 with message expiry: a retained message that has not expired yet is replayed to every new matching subscription,
/// however many subscriptions (of anybody, on any filter) were made in the meantime.  Uses real time (about 2.3 s).
// @native props=C15 tier=quick fn=DataLog::read_retained_messages (expiry bookkeeping of the retained store)
#[test]
fn unexpired_retained_messages_survive_other_peoples_subscriptions() {
    let name = "rumqttd::DataLog::read_retained_messages#unexpired_retained_message_is_replayed";
    let mut cases = 0u64;
    let mut fail: Option<String> = None;
    let with_expiry = |topic: &str, payload: &str, secs: u32| -> Packet {
        match publish(topic, 0, 0, payload, true) {
            Packet::Publish(x, _) => Packet::Publish(x, Some(crate::protocol::PublishProperties { payload_format_indicator: None, message_expiry_interval: Some(secs), topic_alias: None, response_topic: None, correlation_data: None, user_properties: vec![], subscription_identifiers: vec![], content_type: None })),
            other => other,
        }
    };
    // all three routers share the waiting time
    let mut routers = vec![];
    for others in 0..3usize {
        let mut r = new_router();
        let p = connect(&mut r, "p", true).unwrap();
        send(&mut r, &p, vec![with_expiry("st/door", "open", 4), with_expiry("st/short", "gone-soon", 1), publish("st/plain", 0, 0, "no-expiry", true)]);
        routers.push((others, r));
    }
    std::thread::sleep(std::time::Duration::from_millis(1150));
    for (others, r) in routers.iter_mut() {
        // other people's new subscriptions, on unrelated and on matching filters
        for k in 0..*others {
            let o = connect(r, &format!("o{}", k), true).unwrap();
            send(r, &o, vec![subscribe(1, &[(if k == 0 { "unrelated/topic" } else { "st/#" }, 0)])]);
            let _ = receive_all(r, &o);
        }
    }
    std::thread::sleep(std::time::Duration::from_millis(1150));
    for (others, r) in routers.iter_mut() {
        cases += 1;
        let c = connect(r, "late", true).unwrap();
        send(r, &c, vec![subscribe(1, &[("st/+", 0)])]);
        let mut got: Vec<(String, String, bool)> = receive_all(r, &c).into_iter().map(|g| (g.0, g.1, g.3)).collect();
        got.sort();
        // st/door is 2.3 s old and lives 4 s; st/short (1 s) has expired; st/plain never expires
        let want = vec![("st/door".to_string(), "open".to_string(), true), ("st/plain".to_string(), "no-expiry".to_string(), true)];
        if got != want {
            fail = Some(format!("input=[retained st/door (expiry 4 s), st/short (expiry 1 s), st/plain; after 1.1 s {} other new subscription(s); after 2.3 s a new subscription st/+] detail=[received {:?}, expected {:?}]", others, got, want));
            break;
        }
    }
    report(name, "C15", "0/1/2 other new subscriptions (unrelated filter, matching filter) between the retained publishes and the subscription under test; expiry 4 s / 1 s / none, real time", cases, fail);
}

// ---------------------------------------------------------------------------------------------
// C17: shared subscriptions
// ---------------------------------------------------------------------------------------------
// @native props=C17 tier=quick fn=SharedGroup+Router::{prepare_filter,forward_device_data,handle_disconnection}
#[test]
fn shared_group_hands_each_message_to_exactly_one_member() {
    let name = "rumqttd::Router#shared_subscription_exactly_one_member";
    let mut cases = 0u64;
    let mut fail: Option<String> = None;
    'outer: for strategy in [Strategy::RoundRobin, Strategy::Sticky, Strategy::Random] {
        for members in 1..=3usize {
            for n in [0usize, 1, 5, 12] {
                for q in 0..2u8 {
                    for leave in [None, Some(0usize), Some(1)] {
                        if leave.map_or(false, |l| l >= members) {
                            continue;
                        }
                        cases += 1;
                        let desc = format!("strategy {:?}, {} members, {} messages QoS {}, member leaving midway: {:?}", strategy, members, n, q, leave);
                        let mut r = Router::new(0, cfg(1024 * 1024, 10, strategy.clone()));
                        let p = connect(&mut r, "p", true).unwrap();
                        let outsider = connect(&mut r, "outsider", true).unwrap();
                        send(&mut r, &outsider, vec![subscribe(9, &[("other/#", 0)])]);
                        let _ = drain(&mut r, &outsider);
                        let mut ms = vec![];
                        for i in 0..members {
                            let m = connect(&mut r, &format!("m{}", i), true).unwrap();
                            send(&mut r, &m, vec![subscribe(1, &[("$share/g/j/+", q)])]);
                            let _ = drain(&mut r, &m);
                            ms.push(m);
                        }
                        let mut got: Vec<Vec<String>> = vec![vec![]; members];
                        let mut gone: Option<usize> = None;
                        for k in 0..n {
                            if k == n / 2 {
                                if let Some(l) = leave {
                                    if members > 1 {
                                        r.events(ms[l].id, Event::Disconnect);
                                        settle(&mut r);
                                        gone = Some(l);
                                    }
                                }
                            }
                            send(&mut r, &p, vec![publish("j/x", q, if q == 0 { 0 } else { 30 }, &format!("{}", k), false)]);
                            // every member consumes and acknowledges promptly
                            for (i, m) in ms.iter().enumerate() {
                                if gone == Some(i) {
                                    continue;
                                }
                                for g in receive_all(&mut r, m) {
                                    got[i].push(g.1);
                                }
                            }
                        }
                        for (i, m) in ms.iter().enumerate() {
                            if gone != Some(i) {
                                for g in receive_all(&mut r, m) {
                                    got[i].push(g.1);
                                }
                            }
                        }
                        let stray = receive_all(&mut r, &outsider);
                        if !stray.is_empty() {
                            fail = Some(format!("input=[{}] detail=[a non-member received {:?} through the group]", desc, stray));
                            break 'outer;
                        }
                        let mut all: Vec<usize> = got.iter().flatten().map(|s| s.parse::<usize>().unwrap()).collect();
                        let delivered = all.len();
                        all.sort();
                        all.dedup();
                        if all.len() != delivered {
                            fail = Some(format!("input=[{}] detail=[some message was handed to more than one member / twice: {:?}]", desc, got));
                            break 'outer;
                        }
                        for g in &got {
                            let v: Vec<usize> = g.iter().map(|s| s.parse().unwrap()).collect();
                            if v.windows(2).any(|w| w[0] >= w[1]) {
                                fail = Some(format!("input=[{}] detail=[a member saw its share out of acceptance order: {:?}]", desc, got));
                                break 'outer;
                            }
                        }
                        // the group stayed non-empty and everyone acknowledged: every message went to some member
                        if gone.is_none() && delivered != n {
                            fail = Some(format!("input=[{}] detail=[{} of {} messages forwarded, broker idle, all acknowledged: {:?}]", desc, delivered, n, got));
                            break 'outer;
                        }
                    }
                }
            }
        }
    }
    report(name, "C17", "3 strategies x 1..3 members x 0,1,5,12 messages x QoS 0/1 x (no one / first / second member leaves midway); members consume and acknowledge promptly", cases, fail);
}

// ---------------------------------------------------------------------------------------------
// C19 (router part): one live connection per client id, connection limit, client-id metacharacters
// ---------------------------------------------------------------------------------------------
// @native props=C19,C14 tier=quick fn=Router::{handle_new_connection,handle_disconnection}+validate_clientid
#[test]
fn one_session_per_client_id_and_connection_limit() {
    let name = "rumqttd::Router::handle_new_connection#one_live_connection_per_id_within_limit";
    #[derive(Clone, Copy, Debug)]
    enum A { Conn(usize, bool), Drop(usize) }
    let names = ["a", "b", "c", "x+y", "$sys", "p/q", "h#"];
    let mut acts = vec![];
    for i in 0..names.len() {
        acts.push(A::Conn(i, true));
        if i < 3 {
            acts.push(A::Conn(i, false));
            acts.push(A::Drop(i));
        }
    }
    let depth = env_usize("VERIF_ADMIT_DEPTH", 4);
    let n = acts.len();
    let mut cases = 0u64;
    let mut fail: Option<String> = None;
    'outer: for code in 0..n.pow(depth as u32) {
        cases += 1;
        let mut r = Router::new(0, RouterConfig { max_connections: 2, ..cfg(1024 * 1024, 10, Strategy::RoundRobin) });
        let mut live: Vec<Option<Client>> = vec![None, None, None];
        let mut c = code;
        let mut seq = vec![];
        for _ in 0..depth {
            let a = acts[c % n];
            c /= n;
            seq.push(a);
            match a {
                A::Conn(i, clean) => {
                    let before = r.connections.len();
                    let had = i < 3 && live[i].is_some();
                    let got = connect(&mut r, names[i], clean);
                    let legal = !names[i].chars().any(|ch| "+$#/".contains(ch));
                    if !legal {
                        if got.is_some() || r.connections.len() != before {
                            fail = Some(format!("input=[{:?}] detail=[client id {:?} with a topic metacharacter reached the routing core]", seq, names[i]));
                            break 'outer;
                        }
                        continue;
                    }
                    // the new connection replaces a previous one with the same id; otherwise it needs a free slot
                    let room = had || before < 2;
                    if got.is_some() != room {
                        fail = Some(format!("input=[{:?}] detail=[connect {:?}: registered = {}, {} live before, same id live = {}]", seq, names[i], got.is_some(), before, had));
                        break 'outer;
                    }
                    if got.is_some() {
                        live[i] = got;
                    } else if had {
                        live[i] = None;
                    }
                }
                A::Drop(i) => {
                    if let Some(cl) = live[i].take() {
                        r.events(cl.id, Event::Disconnect);
                        settle(&mut r);
                    }
                }
            }
            // invariants after every step
            let nlive = live.iter().filter(|x| x.is_some()).count();
            if r.connections.len() > 2 || r.connections.len() != nlive || r.connection_map.len() != nlive || r.obufs.len() != nlive || r.ibufs.len() != nlive {
                fail = Some(format!("input=[{:?}] detail=[{} live connections, map {}, buffers {}/{} — expected {} (limit 2)]", seq, r.connections.len(), r.connection_map.len(), r.ibufs.len(), r.obufs.len(), nlive));
                break 'outer;
            }
            for (i, cl) in live.iter().enumerate() {
                if let Some(cl) = cl {
                    let ok = r.connection_map.get(names[i]) == Some(&cl.id) && r.obufs.get(cl.id).map_or(false, |o| Arc::ptr_eq(&o.data_buffer, &cl.obuf));
                    if !ok {
                        fail = Some(format!("input=[{:?}] detail=[the newest connection of {:?} is not the registered one]", seq, names[i]));
                        break 'outer;
                    }
                }
            }
        }
    }
    report(name, "C19,C14", &format!("all sequences of {} connect(clean/persistent)/disconnect actions over 3 legal and 4 illegal client ids, connection limit 2", depth), cases, fail);
}

/// C03: longer, hand-picked histories that the exhaustive depth-bounded exploration cannot reach (each was
/// suggested by reading a handler: they combine a persistent session, a shared subscription, unacknowledged
/// forwards and a disconnect / takeover)
// @native props=C03,C14 tier=quick fn=Router::{handle_disconnection,handle_new_connection,handle_device_payload}
#[test]
fn router_survives_selected_long_histories() {
    let name = "rumqttd::Router::events#selected_long_histories_do_not_panic";
    let histories: Vec<(&str, Vec<Act>)> = vec![
        ("sole member of a persistent shared subscription disconnects with an unacknowledged forward", vec![Act::ConnA(false), Act::SubShareA, Act::ConnB, Act::PubB(1), Act::PubB(1), Act::DisconnectEvt(0)]),
        ("the same, ended by a DISCONNECT packet", vec![Act::ConnA(false), Act::SubShareA, Act::ConnB, Act::PubB(1), Act::DisconnectPacketA]),
        ("persistent subscriber with unacknowledged forwards is taken over twice", vec![Act::ConnA(false), Act::SubA, Act::ConnB, Act::PubB(1), Act::PubB(1), Act::ConnA(false), Act::ConnA(false), Act::PubB(1)]),
        ("persistent subscriber resumes, unsubscribes, is published to", vec![Act::ConnA(false), Act::SubA, Act::DisconnectEvt(0), Act::ConnA(false), Act::UnsubA, Act::ConnB, Act::PubB(1), Act::AckA(1)]),
        ("late Disconnect / Ready of a replaced connection", vec![Act::ConnA(true), Act::SubA, Act::ConnA(true), Act::DisconnectEvt(0), Act::Ready(0), Act::ConnB, Act::PubB(0)]),
        ("QoS 2 release after the publisher was replaced", vec![Act::ConnB, Act::PubB(2), Act::ConnB, Act::RelB(1), Act::RelB(1)]),
        ("will of a persistent client fires while it resumes", vec![Act::ConnA(false), Act::SubA, Act::Will, Act::DisconnectEvt(0), Act::Will, Act::ConnA(false), Act::Will]),
    ];
    let prev = std::panic::take_hook();
    std::panic::set_hook(Box::new(|_| {}));
    let mut cases = 0;
    let mut fail: Option<String> = None;
    for (what, seq) in &histories {
        cases += 1;
        let res = catch_unwind(AssertUnwindSafe(|| {
            let mut r = new_router();
            let mut a: Option<Client> = None;
            let mut b: Option<Client> = None;
            for (i, act) in seq.iter().enumerate() {
                if catch_unwind(AssertUnwindSafe(|| apply(&mut r, &mut a, &mut b, *act))).is_err() {
                    return Err(format!("routing core panicked at step {} ({:?})", i, act));
                }
            }
            match catch_unwind(AssertUnwindSafe(|| still_serves(&mut r))) {
                Ok(Ok(())) => Ok(()),
                Ok(Err(e)) => Err(format!("router no longer serves new clients: {}", e)),
                Err(_) => Err("routing core panicked while serving a fresh client afterwards".to_string()),
            }
        }));
        if let Err(e) = match res { Ok(v) => v, Err(_) => Err("panic".to_string()) } {
            fail = Some(format!("input=[{}: {:?}] detail=[{}]", what, seq, e));
            break;
        }
    }
    std::panic::set_hook(prev);
    report(name, "C03,C14", "7 hand-picked histories of 5-8 actions (persistent + shared + unacknowledged + disconnect/takeover)", cases, fail);
}

/// C01: a subscription that takes effect late — after many topics have already been published (and cached by the
/// broker's topic->filter index) — receives exactly the later matching messages of EVERY such topic
// @native props=C01 tier=quick fn=DataLog::{next_native_offset,matches}+Router::{append_to_commitlog,prepare_filter}
#[test]
fn late_subscription_covers_every_already_known_topic() {
    let name = "rumqttd::Router#late_subscription_sees_all_matching_topics";
    // ("a" and "b/#": a trailing `#` also matches the parent level)
    let topics = ["a/b", "a/c", "b", "a/b/c", "c/b", "$x/b", "a"];
    let filters = ["a/b", "a/+", "#", "a/#", "+/b", "+/+", "b", "+", "b/#"];
    let mut cases = 0u64;
    let mut fail: Option<String> = None;
    'outer: for warm in 0..(1usize << topics.len()) {
        // which topics have been published (and cached) before the subscription exists
        for f in filters.iter() {
            for q in 0..2u8 {
                for with_other_subscriber in [false, true] {
                    cases += 1;
                    let mut r = new_router();
                    let p = connect(&mut r, "p", true).unwrap();
                    let other = connect(&mut r, "other", true).unwrap();
                    if with_other_subscriber {
                        send(&mut r, &other, vec![subscribe(1, &[("#", 0)])]);
                    }
                    for (i, t) in topics.iter().enumerate() {
                        if warm & (1 << i) != 0 {
                            send(&mut r, &p, vec![publish(t, 0, 0, "early", false)]);
                        }
                    }
                    let s = connect(&mut r, "s", true).unwrap();
                    send(&mut r, &s, vec![subscribe(2, &[(f, q)])]);
                    let mut exp = vec![];
                    for (i, t) in topics.iter().enumerate() {
                        let payload = format!("late{}", i);
                        send(&mut r, &p, vec![publish(t, 1, 40 + i as u16, &payload, false)]);
                        if ref_matches(t, f) {
                            exp.push((t.to_string(), payload, q, false));
                        }
                    }
                    let got = receive_all(&mut r, &s);
                    if got != exp {
                        fail = Some(format!("input=[topics published before the subscription: mask {:06b} of {:?}; then subscribe {:?} QoS {}; then one publish per topic; another '#' subscriber present: {}] detail=[received {:?}, expected {:?}]", warm, topics, f, q, with_other_subscriber, got, exp));
                        break 'outer;
                    }
                }
            }
        }
    }
    report(name, "C01", "64 subsets of 6 topics published before the subscription x 8 filters x QoS 0/1 x with/without another subscriber", cases, fail);
}

/// C01 (and C17 for the shared form): SUBSCRIBE / UNSUBSCRIBE take effect however they are batched with the client's own
/// publishes: after the batch, the client receives later messages exactly once if its last word was SUBSCRIBE and not at
/// all if it was UNSUBSCRIBE
// @native props=C01,C17 tier=quick fn=Router::handle_device_payload(Subscribe/Unsubscribe/Publish in one batch)+DataLog::remove_waiters_for_id+Scheduler::untrack
#[test]
fn subscribe_and_unsubscribe_take_effect_however_they_are_batched() {
    let name = "rumqttd::Router::handle_device_payload#subscription_state_after_a_mixed_batch";
    #[derive(Clone, Copy, Debug, PartialEq)]
    enum B { PubOwn, Unsub, Sub, PubOther }
    let kinds = [B::PubOwn, B::Unsub, B::Sub, B::PubOther];
    let mut cases = 0u64;
    let mut fail: Option<String> = None;
    'outer: for shared in [false, true] {
        let f = if shared { "$share/g/u/+" } else { "u/+" };
        for pre_subscribed in [true, false] {
            for len in 1..=4u32 {
                for code in 0..4usize.pow(len) {
                    let batch: Vec<B> = (0..len).map(|k| kinds[(code / 4usize.pow(k)) % 4]).collect();
                    for one_batch in [true, false] {
                        cases += 1;
                        let desc = format!("filter {:?}, subscribed beforehand (and caught up): {}, client sends {:?} {}; then another client publishes twice on u/1", f, pre_subscribed, batch, if one_batch { "as ONE batch" } else { "one packet at a time" });
                        let mut r = new_router();
                        let c = connect(&mut r, "c", true).unwrap();
                        let o = connect(&mut r, "o", true).unwrap();
                        if pre_subscribed {
                            send(&mut r, &c, vec![subscribe(1, &[(f, 0)])]);
                            send(&mut r, &o, vec![publish("u/1", 0, 0, "warm", false)]);
                            let _ = receive_all(&mut r, &c);
                        }
                        let mut subscribed = pre_subscribed;
                        let mut packets = vec![];
                        for (k, b) in batch.iter().enumerate() {
                            match b {
                                B::PubOwn => packets.push(publish("u/1", 0, 0, &format!("own{}", k), false)),
                                B::PubOther => packets.push(publish("elsewhere", 0, 0, "x", false)),
                                B::Unsub => { packets.push(unsubscribe(10 + k as u16, &[f])); subscribed = false; }
                                B::Sub => { packets.push(subscribe(10 + k as u16, &[(f, 0)])); subscribed = true; }
                            }
                        }
                        if one_batch {
                            send(&mut r, &c, packets);
                        } else {
                            for p in packets {
                                send(&mut r, &c, vec![p]);
                            }
                        }
                        let during: Vec<String> = receive_all(&mut r, &c).into_iter().map(|g| g.1).collect();
                        let mut d = during.clone();
                        d.sort();
                        let nd = d.len();
                        d.dedup();
                        if d.len() != nd || during.iter().any(|m| !m.starts_with("own")) {
                            fail = Some(format!("input=[{}] detail=[while the batch was served the client received {:?}: a message twice, or one it never could match]", desc, during));
                            break 'outer;
                        }
                        send(&mut r, &o, vec![publish("u/1", 0, 0, "after1", false)]);
                        send(&mut r, &o, vec![publish("u/1", 0, 0, "after2", false)]);
                        let after: Vec<String> = receive_all(&mut r, &c).into_iter().map(|g| g.1).filter(|m| m.starts_with("after")).collect();
                        let want: Vec<String> = if subscribed { vec!["after1".into(), "after2".into()] } else { vec![] };
                        if after != want {
                            fail = Some(format!("input=[{}] detail=[afterwards the client received {:?}, expected {:?} (its last word was {})]", desc, after, want, if subscribed { "SUBSCRIBE" } else { "UNSUBSCRIBE / never subscribed" }));
                            break 'outer;
                        }
                    }
                }
            }
        }
    }
    report(name, "C01,C17", "plain and shared filter x subscribed beforehand or not x all sequences of 1..4 packets over {own publish on the topic, UNSUBSCRIBE, SUBSCRIBE, unrelated publish} x sent as one batch / one at a time", cases, fail);
}

/// C01 / C06: repeating a subscription with another QoS — the SUBACK grants the QoS asked for now, and that is the QoS
/// the following forwards carry (each message still once)
// @native props=C01,C06 tier=quick fn=Router::prepare_filter (existing subscription)+handle_device_payload(Subscribe)
#[test]
fn repeated_subscription_with_another_qos_is_granted_and_applied() {
    let name = "rumqttd::Router::prepare_filter#repeated_subscription_applies_the_granted_qos";
    let mut cases = 0u64;
    let mut fail: Option<String> = None;
    'outer: for q1 in 0..3u8 {
        for q2 in 0..3u8 {
            for caught_up in [true, false] {
                for batch in [false, true] {
                    cases += 1;
                    let desc = format!("SUBSCRIBE v/+ QoS {}, {}then SUBSCRIBE v/+ QoS {}{}; then two QoS 2 publishes on v/1", q1, if caught_up { "one message read, " } else { "" }, q2, if batch { " (both SUBSCRIBEs in one batch)" } else { "" });
                    let mut r = new_router();
                    let c = connect(&mut r, "c", true).unwrap();
                    let p = connect(&mut r, "p", true).unwrap();
                    if batch {
                        send(&mut r, &c, vec![subscribe(1, &[("v/+", q1)]), subscribe(2, &[("v/+", q2)])]);
                    } else {
                        send(&mut r, &c, vec![subscribe(1, &[("v/+", q1)])]);
                        if caught_up {
                            send(&mut r, &p, vec![publish("v/1", 0, 0, "warm", false)]);
                            let _ = receive_all(&mut r, &c);
                        }
                        send(&mut r, &c, vec![subscribe(2, &[("v/+", q2)])]);
                    }
                    let acks = shown(&drain(&mut r, &c));
                    let granted: Vec<&String> = acks.iter().filter(|a| a.starts_with("SUBACK(2,")).collect();
                    if granted.len() != 1 {
                        fail = Some(format!("input=[{}] detail=[replies {:?}: no single SUBACK for the second SUBSCRIBE]", desc, acks));
                        break 'outer;
                    }
                    send(&mut r, &p, vec![publish("v/1", 2, 70, "a", false), pubrel(70)]);
                    send(&mut r, &p, vec![publish("v/1", 2, 71, "b", false), pubrel(71)]);
                    let got = receive_all(&mut r, &c);
                    let want: Vec<(String, String, u8, bool)> = vec![("v/1".into(), "a".into(), q2, false), ("v/1".into(), "b".into(), q2, false)];
                    if got != want {
                        fail = Some(format!("input=[{}] detail=[received (topic, payload, QoS, retained) {:?}, expected {:?}: the last SUBACK granted QoS {}]", desc, got, want, q2));
                        break 'outer;
                    }
                }
            }
        }
    }
    report(name, "C01,C06", "QoS 0/1/2 x QoS 0/1/2 x request parked (caught up) or still tracked x two SUBSCRIBEs in one batch or apart", cases, fail);
}

/// C01 / C20: an MQTT 5 subscriber that allows topic aliases sees every message under the topic it was published on
/// (the harness resolves aliases exactly as a client does)
// @native props=C01,C20 tier=quick fn=Router::forward_device_data (broker topic aliases)+BrokerAliases
#[test]
fn subscribers_that_allow_topic_aliases_see_the_original_topics() {
    let name = "rumqttd::Router::forward_device_data#topic_aliases_preserve_the_topic";
    let mut cases = 0u64;
    let mut fail: Option<String> = None;
    let topics = ["a/1", "a/2", "b"];
    'outer: for filters in [vec!["a/+"], vec!["#"], vec!["a/1", "a/2"], vec!["a/1", "a/+"], vec!["b", "a/+"]] {
        for alias_max in [1u16, 2, 10] {
            for q in 0..2u8 {
                for code in 0..27usize {
                    for batched in [false, true] {
                        cases += 1;
                        let seq = [topics[code % 3], topics[(code / 3) % 3], topics[code / 9]];
                        let desc = format!("MQTT 5 subscriber with Topic Alias Maximum {} on {:?} (QoS {}); publishes on {:?} {}", alias_max, filters, q, seq, if batched { "in one batch" } else { "one by one" });
                        let mut r = new_router();
                        let s1 = connect_v5(&mut r, "s", true, alias_max).unwrap();
                        let p = connect(&mut r, "p", true).unwrap();
                        let fs: Vec<(&str, u8)> = filters.iter().map(|f| (*f, q)).collect();
                        send(&mut r, &s1, vec![subscribe(1, &fs)]);
                        let _ = drain(&mut r, &s1);
                        let pubs: Vec<Packet> = seq.iter().enumerate().map(|(k, t)| publish(t, 0, 0, &format!("m{}", k), false)).collect();
                        let mut got = vec![];
                        if batched {
                            send(&mut r, &p, pubs);
                        } else {
                            for x in pubs {
                                send(&mut r, &p, vec![x]);
                                got.extend(receive_all(&mut r, &s1));
                            }
                        }
                        got.extend(receive_all(&mut r, &s1));
                        let mut got: Vec<(String, String)> = got.into_iter().map(|g| (g.1, g.0)).collect();
                        got.sort();
                        let mut want: Vec<(String, String)> = vec![];
                        for (k, t) in seq.iter().enumerate() {
                            for f in filters.iter() {
                                if ref_matches(t, f) {
                                    want.push((format!("m{}", k), t.to_string()));
                                }
                            }
                        }
                        want.sort();
                        if got != want {
                            fail = Some(format!("input=[{}] detail=[(payload, topic as the client sees it) {:?}, expected {:?}]", desc, got, want));
                            break 'outer;
                        }
                    }
                }
            }
        }
    }
    report(name, "C01,C20", "5 filter sets (wildcard, literal, overlapping) x Topic Alias Maximum 1/2/10 x QoS 0/1 x all 27 sequences of 3 publishes over 3 topics x batched / one by one", cases, fail);
}

/// C01 / C20: an MQTT 5 PUBLISHER that uses topic aliases — every message is delivered under the topic its alias stood for
/// when the PUBLISH was sent, for QoS 2 as for QoS 0/1 (a QoS 2 publish is stored until its release)
// @native props=C01,C20 tier=quick fn=Router::handle_device_payload(Publish QoS 2)+validate_and_set_topic_alias
#[test]
fn publisher_topic_aliases_mean_what_they_meant_when_the_publish_was_sent() {
    let name = "rumqttd::Router::handle_device_payload#publisher_topic_alias_is_resolved_on_arrival";
    let mut cases = 0u64;
    let mut fail: Option<String> = None;
    // a step: (QoS, topic or "" for alias-only, alias); QoS 2 publishes are released at the end, in order
    let with_alias = |topic: &str, q: u8, pkid: u16, payload: &str, alias: u16| -> Packet {
        match publish(topic, q, pkid, payload, false) {
            Packet::Publish(x, _) => Packet::Publish(x, Some(crate::protocol::PublishProperties { payload_format_indicator: None, message_expiry_interval: None, topic_alias: Some(alias), response_topic: None, correlation_data: None, user_properties: vec![], subscription_identifiers: vec![], content_type: None })),
            other => other,
        }
    };
    let topics = ["ta", "tb"];
    // every script of 3 publishes: each sets alias 1 to ta / to tb (topic given) or uses alias 1 (empty topic), at QoS 0 or 2
    'outer: for code in 0..6usize.pow(3) {
        let steps: Vec<(u8, Option<usize>)> = (0..3).map(|k| { let d = (code / 6usize.pow(k)) % 6; (if d >= 3 { 2u8 } else { 0u8 }, match d % 3 { 0 => Some(0), 1 => Some(1), _ => None }) }).collect();
        if steps[0].1.is_none() {
            continue; // an alias has to be established before it is used
        }
        cases += 1;
        let desc = format!("publisher steps (QoS, Some(i) = topic t{{a,b}}[i] with alias 1 / None = alias 1 only) {:?}; QoS 2 publishes released afterwards in order", steps);
        let mut r = new_router();
        let s1 = connect(&mut r, "s", true).unwrap();
        let p = connect(&mut r, "p", true).unwrap();
        send(&mut r, &s1, vec![subscribe(1, &[("ta", 0), ("tb", 0)])]);
        let _ = drain(&mut r, &s1);
        let mut current: Option<usize> = None;
        let mut want: Vec<(String, String)> = vec![];
        let mut held: Vec<(u16, String, String)> = vec![];
        for (k, (q, t)) in steps.iter().enumerate() {
            if let Some(i) = t {
                current = Some(*i);
            }
            let topic_now = topics[current.unwrap()].to_string();
            let payload = format!("m{}", k);
            let pkid = if *q == 2 { 80 + k as u16 } else { 0 };
            send(&mut r, &p, vec![with_alias(t.map(|i| topics[i]).unwrap_or(""), *q, pkid, &payload, 1)]);
            if *q == 2 { held.push((pkid, payload, topic_now)); } else { want.push((payload, topic_now)); }
        }
        for (pkid, payload, topic) in held {
            send(&mut r, &p, vec![pubrel(pkid)]);
            want.push((payload, topic));
        }
        if !r.connection_map.contains_key("p") {
            fail = Some(format!("input=[{}] detail=[the publisher was disconnected although every alias it used had been established]", desc));
            break 'outer;
        }
        let got: Vec<(String, String)> = receive_all(&mut r, &s1).into_iter().map(|g| (g.1, g.0)).collect();
        if got != want {
            fail = Some(format!("input=[{}] detail=[subscriber saw (payload, topic) {:?}, expected {:?}]", desc, got, want));
            break 'outer;
        }
    }
    report(name, "C01,C20", "all scripts of 3 publishes, each QoS 0 or 2 and either (re)defining alias 1 as one of two topics or using it, QoS 2 released at the end", cases, fail);
}

/// C01/C09: outgoing-buffer-full back-pressure (Unschedule -> Busy -> Ready) neither loses nor repeats messages
// @native props=C01,C09 tier=quick fn=Router::{consume,forward_device_data}+Outgoing::push_forwards (BufferFull path)
#[test]
fn buffer_full_backpressure_delivers_each_message_once_in_order() {
    let name = "rumqttd::Router#buffer_full_backpressure_exactly_once_in_order";
    let mut cases = 0u64;
    let mut fail: Option<String> = None;
    'outer: for backlog in [150usize, 199, 200, 201, 450] {
        for q in 0..2u8 {
            for two_filters in [false, true] {
                cases += 1;
                let mut r = new_router();
                let s = connect(&mut r, "s", true).unwrap();
                let p = connect(&mut r, "p", true).unwrap();
                let subs = if two_filters { vec![("f/#", q), ("f/+", q)] } else { vec![("f/#", q)] };
                send(&mut r, &s, vec![subscribe(1, &subs)]);
                let _ = drain(&mut r, &s);
                // the subscriber does not read while the publisher floods
                let mut pubs = vec![];
                for i in 0..backlog {
                    pubs.push(publish("f/x", 0, 0, &format!("{}", i), false));
                }
                for chunk in pubs.chunks(50) {
                    send(&mut r, &p, chunk.to_vec());
                }
                let got = receive_all(&mut r, &s);
                let desc = format!("{} messages published while the subscriber is not reading, subscriptions {:?}", backlog, subs);
                if got.len() != backlog * subs.len() {
                    fail = Some(format!("input=[{}] detail=[{} messages received, expected {}]", desc, got.len(), backlog * subs.len()));
                    break 'outer;
                }
                // per subscription the sequence numbers must come in order, each exactly once
                let mut seen = vec![0usize; backlog];
                let mut last_per_pass: Vec<i64> = vec![];
                for g in &got {
                    let k: usize = g.1.parse().unwrap();
                    seen[k] += 1;
                    last_per_pass.push(k as i64);
                }
                if seen.iter().any(|c| *c != subs.len()) {
                    fail = Some(format!("input=[{}] detail=[some message was delivered {} times instead of {}]", desc, seen.iter().find(|c| **c != subs.len()).unwrap(), subs.len()));
                    break 'outer;
                }
                if !two_filters && last_per_pass.windows(2).any(|w| w[0] >= w[1]) {
                    fail = Some(format!("input=[{}] detail=[messages arrived out of acceptance order]", desc));
                    break 'outer;
                }
            }
        }
    }
    report(name, "C01,C09", "backlogs 150,199,200,201,450 x QoS 0/1 x one/two filters, subscriber reads only afterwards", cases, fail);
}

/// C17: the same back-pressure through a shared group: nothing forwarded twice, nothing lost, per-member order
// @native props=C17 tier=quick fn=Router::{consume,forward_device_data}(shared group, BufferFull path)+SharedGroup
#[test]
fn shared_group_buffer_full_backpressure_forwards_each_message_once() {
    let name = "rumqttd::Router#shared_group_buffer_full_backpressure_exactly_once";
    let mut cases = 0u64;
    let mut fail: Option<String> = None;
    'outer: for strategy in [Strategy::RoundRobin, Strategy::Sticky, Strategy::Random] {
        for members in 1..=2usize {
            for backlog in [150usize, 199, 200, 201, 250, 450] {
                cases += 1;
                let desc = format!("strategy {:?}, {} member(s) of $share/g/f/# (QoS 0) not reading while {} messages are published, then they read", strategy, members, backlog);
                let mut r = Router::new(0, cfg(1024 * 1024, 10, strategy.clone()));
                let p = connect(&mut r, "p", true).unwrap();
                let ms: Vec<Client> = (0..members).map(|i| connect(&mut r, &format!("m{}", i), true).unwrap()).collect();
                for m in &ms {
                    send(&mut r, m, vec![subscribe(1, &[("$share/g/f/#", 0)])]);
                    let _ = drain(&mut r, m);
                }
                let pubs: Vec<Packet> = (0..backlog).map(|i| publish("f/x", 0, 0, &format!("{}", i), false)).collect();
                for chunk in pubs.chunks(50) {
                    send(&mut r, &p, chunk.to_vec());
                }
                let mut seen = vec![0usize; backlog];
                let mut per_member: Vec<Vec<usize>> = vec![vec![]; members];
                for _ in 0..40 {
                    let mut any = false;
                    for (i, m) in ms.iter().enumerate() {
                        for g in receive_all(&mut r, m) {
                            let k: usize = g.1.parse().unwrap();
                            seen[k] += 1;
                            per_member[i].push(k);
                            any = true;
                        }
                    }
                    if !any {
                        break;
                    }
                }
                if let Some(k) = seen.iter().position(|c| *c > 1) {
                    fail = Some(format!("input=[{}] detail=[message {} was forwarded {} times]", desc, k, seen[k]));
                    break 'outer;
                }
                if let Some(k) = seen.iter().position(|c| *c == 0) {
                    fail = Some(format!("input=[{}] detail=[message {} was never forwarded although every member kept reading until the broker was idle]", desc, k));
                    break 'outer;
                }
                if per_member.iter().any(|v| v.windows(2).any(|w| w[0] >= w[1])) {
                    fail = Some(format!("input=[{}] detail=[a member saw its share out of acceptance order]", desc));
                    break 'outer;
                }
            }
        }
    }
    report(name, "C17", "3 strategies x 1..2 members x backlogs 150,199,200,201,250,450 published while no member reads", cases, fail);
}

/// C08 + C17: what keeps a client a member of its shared group — a persistent member is a member again after its session
/// resumes (without re-subscribing), and unsubscribing from some OTHER filter does not take a client out of a group
// @native props=C17,C08 tier=quick fn=Router::{handle_new_connection,handle_disconnection,handle_device_payload(Unsubscribe)}+SharedGroup
#[test]
fn shared_group_membership_survives_session_resume_and_unrelated_unsubscribe() {
    let name = "rumqttd::Router#shared_group_membership_survives_resume_and_unrelated_unsubscribe";
    let mut cases = 0u64;
    let mut fail: Option<String> = None;
    'outer: for strategy in [Strategy::RoundRobin, Strategy::Sticky, Strategy::Random] {
        for q in 0..2u8 {
            for scenario in 0..3u8 {
                for alone in [true, false] {
                    cases += 1;
                    let what = ["a (persistent) loses its link and reconnects with clean-session off", "a unsubscribes from an unrelated plain filter x/y it also held", "a unsubscribes from a different shared filter $share/g/other of the same share name"][scenario as usize];
                    let desc = format!("strategy {:?}: a {}in $share/g/w/+ (QoS {}); {}; then 6 publishes on w/1", strategy, if alone { "alone " } else { "and b " }, q, what);
                    let mut r = Router::new(0, cfg(1024 * 1024, 10, strategy.clone()));
                    let p = connect(&mut r, "p", true).unwrap();
                    let mut a = connect(&mut r, "a", false).unwrap();
                    let b = connect(&mut r, "b", true).unwrap();
                    send(&mut r, &a, vec![subscribe(1, &[("$share/g/w/+", q), ("x/y", 0), ("$share/g/other", 0)])]);
                    if !alone {
                        send(&mut r, &b, vec![subscribe(1, &[("$share/g/w/+", q)])]);
                    }
                    let _ = drain(&mut r, &a);
                    let _ = drain(&mut r, &b);
                    match scenario {
                        0 => {
                            r.events(a.id, Event::Disconnect);
                            settle(&mut r);
                            a = connect(&mut r, "a", false).unwrap();
                        }
                        1 => send(&mut r, &a, vec![unsubscribe(2, &["x/y"])]),
                        _ => send(&mut r, &a, vec![unsubscribe(2, &["$share/g/other"])]),
                    }
                    let _ = drain(&mut r, &a);
                    let mut got_a: Vec<String> = vec![];
                    let mut got_b: Vec<String> = vec![];
                    for k in 0..6 {
                        send(&mut r, &p, vec![publish("w/1", q, if q == 0 { 0 } else { 50 + k as u16 }, &format!("{}", k), false)]);
                        got_a.extend(receive_all(&mut r, &a).into_iter().map(|g| g.1));
                        got_b.extend(receive_all(&mut r, &b).into_iter().map(|g| g.1));
                    }
                    got_a.extend(receive_all(&mut r, &a).into_iter().map(|g| g.1));
                    got_b.extend(receive_all(&mut r, &b).into_iter().map(|g| g.1));
                    let mut all: Vec<usize> = got_a.iter().chain(got_b.iter()).map(|x| x.parse().unwrap()).collect();
                    all.sort();
                    if all != (0..6).collect::<Vec<usize>>() {
                        fail = Some(format!("input=[{}] detail=[a got {:?}, b got {:?}: together not exactly the 6 messages, each once]", desc, got_a, got_b));
                        break 'outer;
                    }
                    // a is still a member: alone it gets everything; with round robin and two members it gets its share
                    let a_must_get = alone || matches!(strategy, Strategy::RoundRobin);
                    if a_must_get && got_a.is_empty() {
                        fail = Some(format!("input=[{}] detail=[a received nothing (b got {:?}) although it is still subscribed through the group]", desc, got_b));
                        break 'outer;
                    }
                    if alone && !got_b.is_empty() {
                        fail = Some(format!("input=[{}] detail=[b, not a member, got {:?}]", desc, got_b));
                        break 'outer;
                    }
                }
            }
        }
    }
    report(name, "C17,C08", "3 strategies x QoS 0/1 x {session resume, unsubscribe of an unrelated plain filter, unsubscribe of another shared filter of the same share name} x member alone / with a second member", cases, fail);
}

/// C17: a persistent member that leaves with unacknowledged messages.  On the pinned tree the router rewinds the cursor of
/// the WHOLE group to that member's oldest unacknowledged message, so the remaining members are sent again what they
/// had already acknowledged: recorded as a KNOWN FINDING (its own obligation, so that nothing else is masked).
// @native props=C17 tier=quick fn=Router::handle_disconnection (persistent branch: group cursor rewind)
#[test]
fn persistent_member_leaving_does_not_make_others_receive_acknowledged_messages_again() {
    let name = "rumqttd::Router::handle_disconnection#leaving_persistent_member_rewinds_group_cursor";
    let mut cases = 0u64;
    let mut fail: Option<String> = None;
    'outer: for strategy in [Strategy::RoundRobin, Strategy::Random] {
        for n in [2usize, 4, 6] {
            cases += 1;
            let desc = format!("strategy {:?}: a (clean-session off) and b in $share/g/t QoS 1; {} publishes; b acknowledges its share, a nothing; a's link fails; one more publish", strategy, n);
            let mut r = Router::new(0, cfg(1024 * 1024, 10, strategy.clone()));
            let p = connect(&mut r, "p", true).unwrap();
            let a = connect(&mut r, "a", false).unwrap();
            let b = connect(&mut r, "b", true).unwrap();
            send(&mut r, &a, vec![subscribe(1, &[("$share/g/t", 1)])]);
            send(&mut r, &b, vec![subscribe(1, &[("$share/g/t", 1)])]);
            let _ = drain(&mut r, &a);
            let _ = drain(&mut r, &b);
            let mut b_got: Vec<String> = vec![];
            for k in 0..n {
                send(&mut r, &p, vec![publish("t", 1, 60 + k as u16, &format!("m{}", k), false)]);
                let _ = drain(&mut r, &a); // a reads but never acknowledges
                b_got.extend(receive_all(&mut r, &b).into_iter().map(|g| g.1)); // b reads and acknowledges
            }
            r.events(a.id, Event::Disconnect);
            settle(&mut r);
            send(&mut r, &p, vec![publish("t", 1, 99, "last", false)]);
            b_got.extend(receive_all(&mut r, &b).into_iter().map(|g| g.1));
            let mut sorted = b_got.clone();
            sorted.sort();
            let before = sorted.len();
            sorted.dedup();
            if sorted.len() != before {
                fail = Some(format!("input=[{}] detail=[b was sent {:?}: messages it had acknowledged were forwarded to it a second time]", desc, b_got));
                break 'outer;
            }
        }
    }
    report(name, "C17", "2 strategies x 2/4/6 publishes before a persistent member with unacknowledged messages loses its link", cases, fail);
}

/// C17 / C01: a message whose expiry interval has run out is dropped, and ONLY it: what was accepted after it is delivered
// @native props=C17,C01 tier=quick fn=Router::forward_device_data (empty read that is not caught up)+DataLog::native_readv (expiry filter)
#[test]
fn expired_messages_do_not_block_what_follows() {
    let name = "rumqttd::Router::forward_device_data#an_expired_message_does_not_block_the_rest";
    let mut cases = 0u64;
    let mut fail: Option<String> = None;
    let expired = |payload: &str| -> Packet {
        match publish("e/x", 0, 0, payload, false) {
            // an expiry interval of 0 seconds has run out as soon as the message is stored
            Packet::Publish(p, _) => Packet::Publish(p, Some(crate::protocol::PublishProperties { payload_format_indicator: None, message_expiry_interval: Some(0), topic_alias: None, response_topic: None, correlation_data: None, user_properties: vec![], subscription_identifiers: vec![], content_type: None })),
            other => other,
        }
    };
    'outer: for strategy in [Strategy::RoundRobin, Strategy::Sticky, Strategy::Random] {
        for shared in [true, false] {
            for q in 0..2u8 {
                for pos in 0..3usize {
                    cases += 1;
                    let f = if shared { "$share/g/e/+" } else { "e/+" };
                    let desc = format!("strategy {:?}, subscription {:?} QoS {}: 3 messages with an already expired one inserted at position {}, then one more message", strategy, f, q, pos);
                    let mut r = Router::new(0, cfg(1024 * 1024, 10, strategy.clone()));
                    let p = connect(&mut r, "p", true).unwrap();
                    let s1 = connect(&mut r, "s", true).unwrap();
                    send(&mut r, &s1, vec![subscribe(1, &[(f, q)])]);
                    let _ = drain(&mut r, &s1);
                    let mut batch = vec![];
                    for k in 0..3usize {
                        if k == pos {
                            batch.push(expired("gone"));
                        }
                        batch.push(publish("e/x", 0, 0, &format!("m{}", k), false));
                    }
                    send(&mut r, &p, batch);
                    let mut got: Vec<String> = receive_all(&mut r, &s1).into_iter().map(|g| g.1).collect();
                    send(&mut r, &p, vec![publish("e/x", 0, 0, "m3", false)]);
                    got.extend(receive_all(&mut r, &s1).into_iter().map(|g| g.1));
                    got.extend(receive_all(&mut r, &s1).into_iter().map(|g| g.1));
                    let want: Vec<String> = vec!["m0".into(), "m1".into(), "m2".into(), "m3".into()];
                    if got != want {
                        fail = Some(format!("input=[{}] detail=[the subscriber received {:?}, expected {:?}; the broker is idle]", desc, got, want));
                        break 'outer;
                    }
                }
            }
        }
    }
    report(name, "C17,C01", "3 strategies x shared / plain subscription x QoS 0/1 x an expired message before the 1st, 2nd or 3rd of three messages, then a fourth", cases, fail);
}

/// C17: a group member whose OTHER subscription has filled its inflight window.  While it cannot take anything the group
/// may wait for it (the documented parked-member behaviour), but once it has acknowledged, every message reaches a member
// @native props=C17 tier=quick fn=Router::consume (InflightFull / BufferFull arms with skipped shared requests)+forward_device_data
#[test]
fn group_member_with_a_full_window_elsewhere_keeps_its_place_in_the_group() {
    let name = "rumqttd::Router::consume#member_with_a_full_window_keeps_its_shared_request";
    let mut cases = 0u64;
    let mut fail: Option<String> = None;
    'outer: for strategy in [Strategy::RoundRobin, Strategy::Sticky, Strategy::Random] {
        for q in 0..2u8 {
            for flood in [100usize, 130] {
              for shared_first in [false, true] {
                for one_burst in [false, true] {
                cases += 1;
                let desc = format!("strategy {:?}: m0 holds {} (x QoS 1, shared QoS {}), m1 holds $share/g/j; {} publishes on x that m0 reads but does not acknowledge{}; then m0 acknowledges everything", strategy, if shared_first { "$share/g/j then x" } else { "x then $share/g/j" }, q, flood, if one_burst { ", in ONE batch with the 8 publishes on j in front" } else { "; then 8 publishes on j" });
                let mut r = Router::new(0, cfg(1024 * 1024, 10, strategy.clone()));
                let p = connect(&mut r, "p", true).unwrap();
                let m0 = connect(&mut r, "m0", true).unwrap();
                let m1 = connect(&mut r, "m1", true).unwrap();
                if shared_first {
                    send(&mut r, &m0, vec![subscribe(1, &[("$share/g/j", q), ("x", 1)])]);
                } else {
                    send(&mut r, &m0, vec![subscribe(1, &[("x", 1), ("$share/g/j", q)])]);
                }
                send(&mut r, &m1, vec![subscribe(1, &[("$share/g/j", q)])]);
                let _ = drain(&mut r, &m0);
                let _ = drain(&mut r, &m1);
                let pubs: Vec<Packet> = (0..flood).map(|i| publish("x", 0, 0, &format!("x{}", i), false)).collect();
                if one_burst {
                    let mut burst: Vec<Packet> = (0..8).map(|k| publish("j", 0, 0, &format!("{}", k), false)).collect();
                    burst.extend(pubs);
                    send(&mut r, &p, burst);
                } else {
                    for chunk in pubs.chunks(50) {
                        send(&mut r, &p, chunk.to_vec());
                    }
                }
                // m0 reads its window full, acknowledges nothing yet
                let mut seen = vec![0usize; 8];
                let mut pending: Vec<u16> = vec![];
                for n in drain(&mut r, &m0).iter() {
                    if let RNotification::Forward(Forward { publish, .. }) = n {
                        if publish.qos as u8 == 1 {
                            pending.push(publish.pkid);
                        }
                        if &publish.topic[..] == b"j" {
                            seen[String::from_utf8_lossy(&publish.payload).parse::<usize>().unwrap()] += 1;
                        }
                    }
                }
                for k in 0..8 {
                    if !one_burst {
                        send(&mut r, &p, vec![publish("j", 0, 0, &format!("{}", k), false)]);
                    }
                    for g in receive_all(&mut r, &m1) {
                        seen[g.1.parse::<usize>().unwrap()] += 1;
                    }
                }
                // now m0 works through its backlog: reads and acknowledges until nothing comes any more
                for _ in 0..30 {
                    let acks: Vec<Packet> = pending.drain(..).map(puback).collect();
                    if !acks.is_empty() {
                        send(&mut r, &m0, acks);
                    }
                    let batch = drain(&mut r, &m0);
                    for n in batch.iter() {
                        if let RNotification::Forward(Forward { publish, .. }) = n {
                            if publish.qos as u8 == 1 {
                                pending.push(publish.pkid);
                            }
                            if &publish.topic[..] == b"j" {
                                seen[String::from_utf8_lossy(&publish.payload).parse::<usize>().unwrap()] += 1;
                            }
                        }
                    }
                    for g in receive_all(&mut r, &m1) {
                        seen[g.1.parse::<usize>().unwrap()] += 1;
                    }
                    if batch.is_empty() && pending.is_empty() {
                        break;
                    }
                }
                if seen.iter().any(|c| *c != 1) {
                    fail = Some(format!("input=[{}] detail=[forwards per message of j: {:?} (each must reach exactly one member once everything is acknowledged and the broker is idle)]", desc, seen));
                    break 'outer;
                }
                }
              }
            }
        }
    }
    report(name, "C17", "3 strategies x QoS 0/1 on the shared filter x 100/130 unacknowledged publishes on the member's other subscription x order of the two filters x one burst / separate batches", cases, fail);
}

/// C17 completeness: a member that waits for its turn must get the turn when the holder leaves (or passes it on) — the
/// group's backlog is forwarded once everybody has acknowledged and the broker is idle
// @native props=C17 tier=quick fn=Router::forward_device_data (skip branch: parked vs. still scheduled)+consume
#[test]
fn waiting_group_member_gets_the_backlog_when_the_turn_comes() {
    let name = "rumqttd::Router::forward_device_data#waiting_member_is_not_parked_while_the_group_has_a_backlog";
    let mut cases = 0u64;
    let mut fail: Option<String> = None;
    // (1)/(2): a (QoS 1, never acknowledges: its window fills) and b (QoS 0) in one group; then a leaves
    'outer: for strategy in [Strategy::RoundRobin, Strategy::Sticky, Strategy::Random] {
        for leave_by_unsubscribe in [false, true] {
            for n in [150usize, 201, 260] {
                cases += 1;
                let desc = format!("strategy {:?}: a (QoS 1, acknowledging nothing) and b (QoS 0) in $share/g/t; {} publishes; a leaves by {}", strategy, n, if leave_by_unsubscribe { "UNSUBSCRIBE" } else { "link failure" });
                let mut r = Router::new(0, cfg(1024 * 1024, 10, strategy.clone()));
                let p = connect(&mut r, "p", true).unwrap();
                let a = connect(&mut r, "a", true).unwrap();
                let b = connect(&mut r, "b", true).unwrap();
                send(&mut r, &a, vec![subscribe(1, &[("$share/g/t", 1)])]);
                send(&mut r, &b, vec![subscribe(1, &[("$share/g/t", 0)])]);
                let _ = drain(&mut r, &a);
                let _ = drain(&mut r, &b);
                let mut seen = vec![0usize; n];
                let pubs: Vec<Packet> = (0..n).map(|i| publish("t", 0, 0, &format!("{}", i), false)).collect();
                for chunk in pubs.chunks(50) {
                    send(&mut r, &p, chunk.to_vec());
                    for n2 in drain(&mut r, &a).iter() {
                        if let RNotification::Forward(Forward { publish, .. }) = n2 {
                            seen[String::from_utf8_lossy(&publish.payload).parse::<usize>().unwrap()] += 1;
                        }
                    }
                    for g in receive_all(&mut r, &b) {
                        seen[g.1.parse::<usize>().unwrap()] += 1;
                    }
                }
                if leave_by_unsubscribe {
                    send(&mut r, &a, vec![unsubscribe(2, &["$share/g/t"])]);
                    let _ = drain(&mut r, &a);
                } else {
                    r.events(a.id, Event::Disconnect);
                    settle(&mut r);
                }
                for _ in 0..10 {
                    let got = receive_all(&mut r, &b);
                    if got.is_empty() {
                        break;
                    }
                    for g in got {
                        seen[g.1.parse::<usize>().unwrap()] += 1;
                    }
                }
                if let Some(k) = seen.iter().position(|c| *c == 0) {
                    fail = Some(format!("input=[{}] detail=[message {} (and {} more) was never forwarded to anybody although b, the only member left, reads at once and the broker is idle]", desc, k, seen.iter().filter(|c| **c == 0).count() - 1));
                    break 'outer;
                }
            }
        }
    }
    // (3): nobody leaves, everybody acknowledges at once
    if fail.is_none() {
        'o3: for strategy in [Strategy::Random, Strategy::RoundRobin, Strategy::Sticky] {
            for trial in 0..12 {
                cases += 1;
                let desc = format!("strategy {:?}, trial {}: a (QoS 1) and b (QoS 0) in $share/g/t; 2 batches of 150 publishes; both read and acknowledge at once", strategy, trial);
                let mut r = Router::new(0, cfg(1024 * 1024, 10, strategy.clone()));
                let p = connect(&mut r, "p", true).unwrap();
                let a = connect(&mut r, "a", true).unwrap();
                let b = connect(&mut r, "b", true).unwrap();
                send(&mut r, &a, vec![subscribe(1, &[("$share/g/t", 1)])]);
                send(&mut r, &b, vec![subscribe(1, &[("$share/g/t", 0)])]);
                let _ = drain(&mut r, &a);
                let _ = drain(&mut r, &b);
                let mut total = 0usize;
                for batch in 0..2 {
                    let pubs: Vec<Packet> = (0..150).map(|i| publish("t", 0, 0, &format!("{}", batch * 150 + i), false)).collect();
                    send(&mut r, &p, pubs);
                    for _ in 0..20 {
                        let x = receive_all(&mut r, &a).len() + receive_all(&mut r, &b).len();
                        if x == 0 {
                            break;
                        }
                        total += x;
                    }
                }
                if total != 300 {
                    fail = Some(format!("input=[{}] detail=[{} of 300 messages were forwarded; both members connected, everything acknowledged, the broker idle]", desc, total));
                    break 'o3;
                }
            }
        }
    }
    report(name, "C17", "3 strategies x the window-full member leaving by link failure / UNSUBSCRIBE x 150/201/260 publishes; 3 strategies x 12 trials of two 150-message batches with prompt acknowledgements", cases, fail);
}

/// C17: a persistent member resuming into a group that was dropped when its last CONNECTED member left.  The group's
/// position lives only in SharedGroup::cursor; the resumed member re-creates the group at the stale copy kept in its own
/// saved request, so messages another member already received and acknowledged are forwarded again: KNOWN FINDING.
// @native props=C17 tier=quick fn=Router::{handle_disconnection,handle_new_connection} (empty groups are dropped while saved sessions still subscribe through them)
#[test]
fn resuming_into_an_emptied_group_does_not_repeat_what_others_received() {
    let name = "rumqttd::Router::handle_new_connection#group_recreated_at_a_stale_position";
    let mut cases = 0u64;
    let mut fail: Option<String> = None;
    for q in 0..2u8 {
        cases += 1;
        let desc = format!("a (clean-session off) and b in $share/g/t QoS {}; 4 publishes shared between them, all acknowledged; a's link fails; 2 publishes -> b; b's link fails (group empty); 1 publish; a resumes", q);
        let mut r = new_router();
        let p = connect(&mut r, "p", true).unwrap();
        let a = connect(&mut r, "a", false).unwrap();
        let b = connect(&mut r, "b", true).unwrap();
        send(&mut r, &a, vec![subscribe(1, &[("$share/g/t", q)])]);
        send(&mut r, &b, vec![subscribe(1, &[("$share/g/t", q)])]);
        let _ = drain(&mut r, &a);
        let _ = drain(&mut r, &b);
        let mut others: Vec<String> = vec![];
        for k in 1..=4 {
            send(&mut r, &p, vec![publish("t", 0, 0, &format!("{}", k), false)]);
            let _ = receive_all(&mut r, &a);
            others.extend(receive_all(&mut r, &b).into_iter().map(|g| g.1));
        }
        r.events(a.id, Event::Disconnect);
        settle(&mut r);
        for k in 5..=6 {
            send(&mut r, &p, vec![publish("t", 0, 0, &format!("{}", k), false)]);
            others.extend(receive_all(&mut r, &b).into_iter().map(|g| g.1));
        }
        r.events(b.id, Event::Disconnect);
        settle(&mut r);
        send(&mut r, &p, vec![publish("t", 0, 0, "7", false)]);
        let a2 = connect(&mut r, "a", false).unwrap();
        let got: Vec<String> = receive_all(&mut r, &a2).into_iter().map(|g| g.1).collect();
        let twice: Vec<&String> = got.iter().filter(|m| others.contains(m)).collect();
        if !twice.is_empty() {
            fail = Some(format!("input=[{}] detail=[after its resume a was sent {:?}; {:?} had been forwarded to b (and acknowledged) before]", desc, got, twice));
            break;
        }
    }
    report(name, "C17", "QoS 0/1", cases, fail);
}

/// C17: membership changes never lose or duplicate messages — a member that repeated its group subscription and then
/// leaves, and a member that joins while the group has an unforwarded backlog
// @native props=C17 tier=quick fn=SharedGroup::{add_client,remove_client}+Router::{prepare_filter,handle_disconnection,forward_device_data}
#[test]
fn shared_group_membership_changes_keep_every_message() {
    let name = "rumqttd::Router#shared_subscription_membership_changes";
    let mut cases = 0u64;
    let mut fail: Option<String> = None;
    'outer: for strategy in [Strategy::RoundRobin, Strategy::Sticky, Strategy::Random] {
        // (1) a member subscribed twice through the group, then leaves midway; the others must get everything that follows
        for n in [4usize, 9] {
            for q in 0..2u8 {
                cases += 1;
                let desc = format!("strategy {:?}: member m0 subscribes to the group twice and disconnects after {} of {} messages (QoS {})", strategy, n / 2, n, q);
                let mut r = Router::new(0, cfg(1024 * 1024, 10, strategy.clone()));
                let p = connect(&mut r, "p", true).unwrap();
                let m0 = connect(&mut r, "m0", true).unwrap();
                let m1 = connect(&mut r, "m1", true).unwrap();
                send(&mut r, &m0, vec![subscribe(1, &[("$share/g/j/+", q)])]);
                send(&mut r, &m0, vec![subscribe(2, &[("$share/g/j/+", q)])]);
                send(&mut r, &m1, vec![subscribe(1, &[("$share/g/j/+", q)])]);
                let _ = drain(&mut r, &m0);
                let _ = drain(&mut r, &m1);
                let mut got0 = vec![];
                let mut got1 = vec![];
                for k in 0..n {
                    if k == n / 2 {
                        r.events(m0.id, Event::Disconnect);
                        settle(&mut r);
                    }
                    send(&mut r, &p, vec![publish("j/x", q, if q == 0 { 0 } else { 30 }, &format!("{}", k), false)]);
                    if k < n / 2 {
                        got0.extend(receive_all(&mut r, &m0).into_iter().map(|g| g.1));
                    }
                    got1.extend(receive_all(&mut r, &m1).into_iter().map(|g| g.1));
                }
                got1.extend(receive_all(&mut r, &m1).into_iter().map(|g| g.1));
                let mut all: Vec<usize> = got0.iter().chain(got1.iter()).map(|s| s.parse().unwrap()).collect();
                all.sort();
                let want: Vec<usize> = (0..n).collect();
                if all != want {
                    fail = Some(format!("input=[{}] detail=[m0 got {:?}, m1 got {:?}: together not exactly the {} accepted messages, each once]", desc, got0, got1, n));
                    break 'outer;
                }
            }
        }
        // (2) a member joins while the group has a backlog that the first member has not been given yet
        for backlog in [5usize, 120] {
            cases += 1;
            let desc = format!("strategy {:?}: m0 alone in the group and not reading, {} QoS 1 messages accepted, then m1 joins; afterwards both read and acknowledge", strategy, backlog);
            let mut r = Router::new(0, cfg(1024 * 1024, 10, strategy.clone()));
            let p = connect(&mut r, "p", true).unwrap();
            let m0 = connect(&mut r, "m0", true).unwrap();
            send(&mut r, &m0, vec![subscribe(1, &[("$share/g/j/+", 1)])]);
            let _ = drain(&mut r, &m0);
            let pubs: Vec<Packet> = (0..backlog).map(|k| publish("j/x", 0, 0, &format!("{}", k), false)).collect();
            for chunk in pubs.chunks(40) {
                send(&mut r, &p, chunk.to_vec());
            }
            let m1 = connect(&mut r, "m1", true).unwrap();
            send(&mut r, &m1, vec![subscribe(1, &[("$share/g/j/+", 1)])]);
            let mut all: Vec<usize> = vec![];
            for _ in 0..400 {
                let a = receive_all(&mut r, &m0);
                let b = receive_all(&mut r, &m1);
                if a.is_empty() && b.is_empty() {
                    break;
                }
                all.extend(a.into_iter().chain(b.into_iter()).map(|g| g.1.parse::<usize>().unwrap()));
            }
            let n = all.len();
            all.sort();
            all.dedup();
            if all.len() != n {
                fail = Some(format!("input=[{}] detail=[some message was forwarded twice ({} forwards, {} distinct)]", desc, n, all.len()));
                break 'outer;
            }
            if n != backlog {
                fail = Some(format!("input=[{}] detail=[{} of {} accepted messages were forwarded; broker idle, everything acknowledged, group never empty]", desc, n, backlog));
                break 'outer;
            }
        }
    }
    // (3) a member leaves by UNSUBSCRIBE after it had caught up (its request is parked on the log of the plain filter):
    //     everything published afterwards goes to the remaining member, nothing to the one that left
    if fail.is_none() {
        'o3: for strategy in [Strategy::RoundRobin, Strategy::Sticky, Strategy::Random] {
            for q in 0..2u8 {
                for others in [0usize, 1] {
                    cases += 1;
                    let desc = format!("strategy {:?}: m0 {}subscribes to $share/g/j/+ (QoS {}), reads until caught up, unsubscribes; then 4 publishes on j/x", strategy, if others == 1 { "and m1 " } else { "" }, q);
                    let mut r = Router::new(0, cfg(1024 * 1024, 10, strategy.clone()));
                    let p = connect(&mut r, "p", true).unwrap();
                    let m0 = connect(&mut r, "m0", true).unwrap();
                    let m1 = connect(&mut r, "m1", true).unwrap();
                    send(&mut r, &m0, vec![subscribe(1, &[("$share/g/j/+", q)])]);
                    if others == 1 {
                        send(&mut r, &m1, vec![subscribe(1, &[("$share/g/j/+", q)])]);
                    }
                    send(&mut r, &p, vec![publish("j/x", q, if q == 0 { 0 } else { 29 }, "warm", false)]);
                    let _ = receive_all(&mut r, &m0);
                    let _ = receive_all(&mut r, &m1);
                    send(&mut r, &m0, vec![unsubscribe(2, &["$share/g/j/+"])]);
                    let _ = drain(&mut r, &m0);
                    let mut got0 = vec![];
                    let mut got1 = vec![];
                    for k in 0..4 {
                        send(&mut r, &p, vec![publish("j/x", q, if q == 0 { 0 } else { 30 + k as u16 }, &format!("{}", k), false)]);
                        got0.extend(receive_all(&mut r, &m0).into_iter().map(|g| g.1));
                        got1.extend(receive_all(&mut r, &m1).into_iter().map(|g| g.1));
                    }
                    let want1: Vec<String> = if others == 1 { (0..4).map(|k| format!("{}", k)).collect() } else { vec![] };
                    if !got0.is_empty() || got1 != want1 {
                        fail = Some(format!("input=[{}] detail=[m0 (unsubscribed) got {:?}, m1 got {:?}, expected nothing for m0 and {:?} for m1]", desc, got0, got1, want1));
                        break 'o3;
                    }
                }
            }
        }
    }
    // (4) one share name used with two different filters: two independent groups (a shared subscription is the pair of
    //     share name and filter), with the same or with different members
    if fail.is_none() {
        'o4: for strategy in [Strategy::RoundRobin, Strategy::Sticky, Strategy::Random] {
            for q in 0..2u8 {
                for two_clients in [false, true] {
                    cases += 1;
                    let desc = format!("strategy {:?}: $share/g/k/1 and $share/g/k/2 (QoS {}) held by {}; 3 publishes on k/1 then 2 on k/2", strategy, q, if two_clients { "two different clients" } else { "one client" });
                    let mut r = Router::new(0, cfg(1024 * 1024, 10, strategy.clone()));
                    let p = connect(&mut r, "p", true).unwrap();
                    let a = connect(&mut r, "a", true).unwrap();
                    let b = connect(&mut r, "b", true).unwrap();
                    send(&mut r, &a, vec![subscribe(1, &[("$share/g/k/1", q)])]);
                    send(&mut r, if two_clients { &b } else { &a }, vec![subscribe(2, &[("$share/g/k/2", q)])]);
                    let _ = drain(&mut r, &a);
                    let _ = drain(&mut r, &b);
                    let mut got_a = vec![];
                    let mut got_b = vec![];
                    for (k, t) in ["k/1", "k/1", "k/1", "k/2", "k/2"].iter().enumerate() {
                        send(&mut r, &p, vec![publish(t, q, if q == 0 { 0 } else { 40 + k as u16 }, &format!("{}{}", t, k), false)]);
                        got_a.extend(receive_all(&mut r, &a).into_iter().map(|g| g.1));
                        got_b.extend(receive_all(&mut r, &b).into_iter().map(|g| g.1));
                    }
                    got_a.extend(receive_all(&mut r, &a).into_iter().map(|g| g.1));
                    got_b.extend(receive_all(&mut r, &b).into_iter().map(|g| g.1));
                    let first: Vec<String> = vec!["k/10".into(), "k/11".into(), "k/12".into()];
                    let second: Vec<String> = vec!["k/23".into(), "k/24".into()];
                    let (want_a, want_b) = if two_clients { (first.clone(), second.clone()) } else { ([first.clone(), second.clone()].concat(), vec![]) };
                    if got_a != want_a || got_b != want_b {
                        fail = Some(format!("input=[{}] detail=[a got {:?}, b got {:?}; expected {:?} and {:?}]", desc, got_a, got_b, want_a, want_b));
                        break 'o4;
                    }
                }
            }
        }
    }
    report(name, "C17", "3 strategies x (duplicate-subscribed member leaving midway: 4 and 9 messages, QoS 0/1; member joining over a backlog of 5 and 120; caught-up member leaving by UNSUBSCRIBE with and without another member; one share name on two filters, same and different members)", cases, fail);
}

// ---------------------------------------------------------------------------------------------
// C16 (router part only): the will is published exactly when a PublishWill signal arrives and no DISCONNECT
// packet was seen; the timing/cancel decision that produces the signal (broker.rs::remote, async) is NOT covered
// ---------------------------------------------------------------------------------------------
pub fn connect_with_will(r: &mut Router, name: &str, clean: bool, will: Option<(&str, &str, u8, bool)>) -> Option<Client> {
    let mut connection = Connection::new(None, name.to_owned(), clean, false);
    if let Some((t, m, q, retain)) = will {
        let qos = match q { 0 => QoS::AtMostOnce, 1 => QoS::AtLeastOnce, _ => QoS::ExactlyOnce };
        connection.last_will(Some(crate::protocol::LastWill { topic: Bytes::copy_from_slice(t.as_bytes()), message: Bytes::copy_from_slice(m.as_bytes()), qos, retain }), None);
    }
    let incoming = Incoming::new(connection.client_id.to_owned());
    let (outgoing, rx) = Outgoing::new(connection.client_id.to_owned());
    let ibuf = incoming.buffer();
    let obuf = outgoing.buffer();
    r.events(0, Event::Connect { connection, incoming, outgoing });
    settle(r);
    let id = *r.connection_map.get(name)?;
    Some(Client { id, name: name.to_owned(), ibuf, obuf, rx, aliases: Mutex::new(Default::default()) })
}

// @native props=C16 tier=quick fn=Router::{handle_last_will,handle_new_connection,handle_device_payload(Disconnect)}
#[test]
fn will_is_published_once_unless_the_client_said_disconnect() {
    let name = "rumqttd::Router::handle_last_will#published_once_iff_no_disconnect_packet";
    let mut cases = 0u64;
    let mut fail: Option<String> = None;
    'outer: for has_will in [false, true] {
        for retain in [false, true] {
            // how the connection ends: 0 link failure, 1 the client says DISCONNECT, 2 the router closes it after an unsolicited PUBACK,
            // 3 the router closes it after an unsolicited PUBCOMP (both are ends the client did not announce)
            for ending in 0..5u8 {
                let said_disconnect = ending == 1;
                for subscribers in 0..=2usize {
                    for signals in 1..=2usize {
                        for will_qos in 0..2u8 {
                          // an empty payload is a payload like any other for the current subscribers; retained, it only stores nothing
                          for payload in ["gone", ""] {
                            cases += 1;
                            let desc = format!("will registered: {}, will payload {:?}, retained will: {}, connection ends by {}, {} matching subscriber(s), PublishWill signalled {} time(s), will QoS {}", has_will, payload, retain, ["link failure", "client DISCONNECT", "router close after an unsolicited PUBACK", "router close after an unsolicited PUBCOMP", "router close WITH a DISCONNECT reason code (SUBSCRIBE carrying subscription identifier 0)"][ending as usize], subscribers, signals, will_qos);
                            let mut r = new_router();
                            let mut subs = vec![];
                            for i in 0..subscribers {
                                let s = connect(&mut r, &format!("s{}", i), true).unwrap();
                                send(&mut r, &s, vec![subscribe(1, &[("will/#", 0)])]);
                                let _ = drain(&mut r, &s);
                                subs.push(s);
                            }
                            let bystander = connect(&mut r, "bystander", true).unwrap();
                            send(&mut r, &bystander, vec![subscribe(1, &[("other/#", 0)])]);
                            let _ = drain(&mut r, &bystander);
                            let w = if has_will { Some(("will/c", payload, will_qos, retain)) } else { None };
                            let c = connect_with_will(&mut r, "c", true, w).unwrap();
                            if said_disconnect {
                                send(&mut r, &c, vec![Packet::Disconnect(crate::protocol::Disconnect { reason_code: crate::protocol::DisconnectReasonCode::NormalDisconnection }, None)]);
                            } else if ending == 2 {
                                send(&mut r, &c, vec![puback(42)]);
                                let _ = drain(&mut r, &c);
                            } else if ending == 3 {
                                send(&mut r, &c, vec![pubcomp(42)]);
                                let _ = drain(&mut r, &c);
                            } else if ending == 4 {
                                send(&mut r, &c, vec![Packet::Subscribe(Subscribe { pkid: 9, filters: vec![filter("q/q", 0)] }, Some(crate::protocol::SubscribeProperties { id: Some(0), user_properties: vec![] }))]);
                                let _ = drain(&mut r, &c);
                            } else {
                                r.events(c.id, Event::Disconnect);
                                settle(&mut r);
                            }
                            if ending >= 2 && r.connection_map.contains_key("c") {
                                fail = Some(format!("input=[{}] detail=[the router did not close the offending connection]", desc));
                                break 'outer;
                            }
                            for _ in 0..signals {
                                r.events(c.id, Event::PublishWill(("c".to_owned(), None)));
                                settle(&mut r);
                            }
                            let expect_will = has_will && !said_disconnect;
                            for (i, s) in subs.iter().enumerate() {
                                let got = receive_all(&mut r, s);
                                let exp = if expect_will { vec![("will/c".to_string(), payload.to_string(), 0u8, false)] } else { vec![] };
                                if got != exp {
                                    fail = Some(format!("input=[{}] detail=[subscriber {} received {:?}, expected {:?}]", desc, i, got, exp));
                                    break 'outer;
                                }
                            }
                            let stray = receive_all(&mut r, &bystander);
                            if !stray.is_empty() {
                                fail = Some(format!("input=[{}] detail=[a non-matching subscriber received {:?}]", desc, stray));
                                break 'outer;
                            }
                            // a retained will is the retained message of its topic afterwards (and only then)
                            let late = connect(&mut r, "late", true).unwrap();
                            send(&mut r, &late, vec![subscribe(2, &[("will/#", 0)])]);
                            let got = receive_all(&mut r, &late);
                            let exp = if expect_will && retain && !payload.is_empty() { vec![("will/c".to_string(), payload.to_string(), 0u8, true)] } else { vec![] };
                            if got != exp {
                                fail = Some(format!("input=[{}] detail=[a later subscriber received {:?}, expected {:?}]", desc, got, exp));
                                break 'outer;
                            }
                          }
                        }
                    }
                }
            }
        }
    }
    report(name, "C16", "will registered or not x payload / empty payload x retained or not x 5 ways the connection ends (link failure, client DISCONNECT, router close after an unsolicited PUBACK / PUBCOMP, router close with a reason code) x 0..2 matching subscribers x 1..2 PublishWill signals x will QoS 0/1", cases, fail);
}

/// C16: "a client without a will never causes one" — also when an EARLIER connection of the same client id had registered
/// a will that never fired (the link told the old connection's waiting task to cancel it when the client reconnected)
// @native props=C16 tier=quick fn=Router::handle_new_connection (last_wills bookkeeping)+handle_last_will
#[test]
fn a_connection_without_a_will_causes_none_whatever_its_predecessor_registered() {
    let name = "rumqttd::Router::handle_new_connection#will_of_an_earlier_connection_is_not_inherited";
    let mut cases = 0u64;
    let mut fail: Option<String> = None;
    'outer: for clean in [true, false] {
        for second_has_will in [false, true] {
            for ending in 0..2u8 {
                cases += 1;
                let desc = format!("client c (clean-session {}): connection 1 registers will W1 and loses its link, no PublishWill yet (cancelled by the reconnect); connection 2 {} ends by {}; PublishWill", clean, if second_has_will { "registers will W2," } else { "registers no will," }, ["link failure", "router close after an unsolicited PUBACK"][ending as usize]);
                let mut r = new_router();
                let w = connect(&mut r, "watch", true).unwrap();
                send(&mut r, &w, vec![subscribe(1, &[("will/#", 0)])]);
                let _ = drain(&mut r, &w);
                let c1 = connect_with_will(&mut r, "c", clean, Some(("will/c", "W1", 0, false))).unwrap();
                r.events(c1.id, Event::Disconnect);
                settle(&mut r);
                let c2 = connect_with_will(&mut r, "c", clean, if second_has_will { Some(("will/c", "W2", 0, false)) } else { None }).unwrap();
                if ending == 0 {
                    r.events(c2.id, Event::Disconnect);
                    settle(&mut r);
                } else {
                    send(&mut r, &c2, vec![puback(77)]);
                    let _ = drain(&mut r, &c2);
                }
                r.events(c2.id, Event::PublishWill(("c".to_owned(), None)));
                settle(&mut r);
                let got: Vec<String> = receive_all(&mut r, &w).into_iter().map(|g| g.1).collect();
                let want: Vec<String> = if second_has_will { vec!["W2".into()] } else { vec![] };
                if got != want {
                    fail = Some(format!("input=[{}] detail=[the watcher received wills {:?}, expected {:?}]", desc, got, want));
                    break 'outer;
                }
            }
        }
    }
    report(name, "C16", "clean / persistent x second connection with / without a will x 2 ways it ends", cases, fail);
}

// ---------------------------------------------------------------------------------------------
// C14: isolation of a well-behaved pair from a misbehaving third client; stale signals after slot reuse
// ---------------------------------------------------------------------------------------------
#[derive(Clone, Copy, Debug)]
enum Bad {
    Connect,
    Reconnect,
    UnsolicitedPubAck,
    UnsolicitedPubRec,
    UnsolicitedPubComp,
    UnsolicitedPubRel,
    PublishWildcardTopic,
    PublishUnicode,
    SubscribeBadFilter,
    SubscribeSameAsGoodAndStall,
    Flood,
    DropLink,
    DisconnectPacket,
    ReadyOutOfTurn,
    /// a protocol violation followed by more packets in the SAME batch
    ViolationThenMoreInOneBatch,
    SubscribeShared,
}

const BADS: [Bad; 16] = [
    Bad::ViolationThenMoreInOneBatch, Bad::SubscribeShared,
    Bad::Connect, Bad::Reconnect, Bad::UnsolicitedPubAck, Bad::UnsolicitedPubRec, Bad::UnsolicitedPubComp, Bad::UnsolicitedPubRel,
    Bad::PublishWildcardTopic, Bad::PublishUnicode, Bad::SubscribeBadFilter, Bad::SubscribeSameAsGoodAndStall, Bad::Flood, Bad::DropLink,
    Bad::DisconnectPacket, Bad::ReadyOutOfTurn,
];

fn misbehave(r: &mut Router, x: &mut Option<Client>, b: Bad) {
    match b {
        Bad::Connect | Bad::Reconnect => *x = connect(r, "x", matches!(b, Bad::Connect)).or(x.take()),
        Bad::UnsolicitedPubAck => { if let Some(c) = x { send(r, c, vec![puback(9)]); } }
        Bad::UnsolicitedPubRec => { if let Some(c) = x { send(r, c, vec![pubrec(9)]); } }
        Bad::UnsolicitedPubComp => { if let Some(c) = x { send(r, c, vec![pubcomp(9)]); } }
        Bad::UnsolicitedPubRel => { if let Some(c) = x { send(r, c, vec![pubrel(9)]); } }
        // (on a topic outside the good subscription: whatever the broker does with an invalid topic name, it concerns x only)
        Bad::PublishWildcardTopic => { if let Some(c) = x { send(r, c, vec![publish("x/#", 1, 3, "bad", false)]); } }
        Bad::PublishUnicode => { if let Some(c) = x { send(r, c, vec![publish("\u{e9}/\u{1F600}", 0, 0, "u", false)]); } }
        Bad::SubscribeBadFilter => { if let Some(c) = x { send(r, c, vec![subscribe(4, &[("g/#/x", 1)])]); } }
        // subscribes to the good traffic and then never reads nor acknowledges
        Bad::SubscribeSameAsGoodAndStall => { if let Some(c) = x { send(r, c, vec![subscribe(5, &[("g/#", 1)])]); } }
        Bad::Flood => {
            if let Some(c) = x {
                let v: Vec<Packet> = (0..150).map(|i| publish("x/flood", 0, 0, &format!("{}", i), false)).collect();
                send(r, c, v);
            }
        }
        Bad::DropLink => { if let Some(c) = x.take() { r.events(c.id, Event::Disconnect); settle(r); } }
        Bad::DisconnectPacket => {
            if let Some(c) = x.take() {
                send(r, &c, vec![Packet::Disconnect(crate::protocol::Disconnect { reason_code: crate::protocol::DisconnectReasonCode::NormalDisconnection }, None)]);
            }
        }
        Bad::ReadyOutOfTurn => { if let Some(c) = x { r.events(c.id, Event::Ready); settle(r); } }
        Bad::ViolationThenMoreInOneBatch => { if let Some(c) = x { send(r, c, vec![puback(9), puback(9), puback(9), pubcomp(4), subscribe(8, &[("g/#", 1)])]); } }
        Bad::SubscribeShared => { if let Some(c) = x { send(r, c, vec![subscribe(6, &[("$share/grp/jobs/#", 1)])]); } }
    }
}

// @native props=C14 tier=quick fn=Router (isolation of a well-behaved publisher/subscriber pair)
#[test]
fn well_behaved_clients_are_unaffected_by_a_misbehaving_one() {
    let name = "rumqttd::Router#well_behaved_pair_unaffected_by_third_client";
    let depth = env_usize("VERIF_BAD_DEPTH", 3);
    let n = BADS.len();
    let mut cases = 0u64;
    let mut fail: Option<String> = None;
    let prev = std::panic::take_hook();
    std::panic::set_hook(Box::new(|_| {}));
    'outer: for code in 0..n.pow(depth as u32) {
        let seq: Vec<Bad> = (0..depth).map(|k| BADS[(code / n.pow(k as u32)) % n]).collect();
        cases += 1;
        let verdict = catch_unwind(AssertUnwindSafe(|| -> Result<(), String> {
            let mut r = new_router();
            let g = connect(&mut r, "good-sub", true).ok_or("good subscriber refused")?;
            let p = connect(&mut r, "good-pub", true).ok_or("good publisher refused")?;
            send(&mut r, &g, vec![subscribe(1, &[("g/#", 1)])]);
            let _ = drain(&mut r, &g);
            let _ = drain(&mut r, &p);
            let mut x: Option<Client> = None;
            let mut expected = vec![];
            for (k, b) in seq.iter().enumerate() {
                misbehave(&mut r, &mut x, *b);
                // one round of good traffic after every misbehaviour
                let payload = format!("ok{}", k);
                send(&mut r, &p, vec![publish("g/t", 1, 100 + k as u16, &payload, false)]);
                let acks = shown(&drain(&mut r, &p));
                if acks != vec![format!("PUBACK({})", 100 + k)] {
                    return Err(format!("after {:?} the good publisher's QoS 1 publish was answered {:?}", b, acks));
                }
                expected.push(("g/t".to_string(), payload, 1u8, false));
                let got = receive_all(&mut r, &g);
                if got != vec![expected.last().unwrap().clone()] {
                    return Err(format!("after {:?} the good subscriber received {:?}, expected exactly {:?}", b, got, expected.last().unwrap()));
                }
            }
            if r.connection_map.get("good-sub") != Some(&g.id) || r.connection_map.get("good-pub") != Some(&p.id) {
                return Err("a well-behaved client lost its connection".to_string());
            }
            // a client that connects afterwards (possibly into a slot the third client used) and subscribes to
            // nothing receives nothing, whatever the third client had subscribed to
            let z = connect(&mut r, "newcomer", true).ok_or("a newcomer cannot connect")?;
            let _ = drain(&mut r, &z);
            send(&mut r, &p, vec![publish("jobs/1", 0, 0, "j", false), publish("g/t", 0, 0, "late", false), publish("x/flood", 0, 0, "f", false)]);
            let stray = receive_all(&mut r, &z);
            if !stray.is_empty() {
                return Err(format!("a newcomer without any subscription received {:?}", stray));
            }
            let _ = receive_all(&mut r, &g);
            Ok(())
        }));
        let verdict = match verdict { Ok(v) => v, Err(_) => Err("routing core panicked".to_string()) };
        if let Err(e) = verdict {
            fail = Some(format!("input=[third client does {:?}, one good publish after each step] detail=[{}]", seq, e));
            break 'outer;
        }
    }
    std::panic::set_hook(prev);
    report(name, "C14", &format!("all sequences of {} misbehaviours out of {} by a third client, good QoS 1 traffic after each", depth, n), cases, fail);
}

/// how the earlier connection ended and who occupies its slot now
fn stale_setup(r: &mut Router, takeover: bool) -> (ConnectionId, Client, Client) {
    // `old` gets a slot; it ends; the slot is handed to a later connection (`newc`); `p` publishes to it
    let p = connect(r, "p", true).unwrap();
    let old = connect(r, "victim", true).unwrap();
    let old_id = old.id;
    let newc = if takeover {
        // the same client id reconnects while the old connection is still registered
        connect(r, "victim", true).unwrap()
    } else {
        r.events(old_id, Event::Disconnect);
        settle(r);
        connect(r, "someone-else", true).unwrap()
    };
    (old_id, newc, p)
}

fn later_connection_still_works(r: &mut Router, newc: &Client, p: &Client, what: &str) -> Result<(), String> {
    if r.obufs.get(newc.id).map_or(true, |o| !Arc::ptr_eq(&o.data_buffer, &newc.obuf)) {
        return Err(format!("the later connection was removed by the stale {}", what));
    }
    send(r, newc, vec![subscribe(1, &[("z/#", 0)])]);
    let _ = drain(r, newc);
    send(r, p, vec![publish("z/1", 0, 0, "hello", false)]);
    let got = receive_all(r, newc);
    if got != vec![("z/1".to_string(), "hello".to_string(), 0u8, false)] {
        return Err(format!("after the stale {} the later connection received {:?}", what, got));
    }
    Ok(())
}

// @native props=C14 tier=quick fn=Router::events (late Ready / DeviceData / Shadow / PublishWill of an ended connection)
#[test]
fn stale_ready_devicedata_shadow_will_do_not_touch_a_later_connection() {
    let name = "rumqttd::Router::events#stale_ready_devicedata_shadow_will_harmless_after_slot_reuse";
    let mut cases = 0;
    let mut fail: Option<String> = None;
    'outer: for takeover in [false, true] {
        for kind in 0..4 {
            cases += 1;
            let mut r = new_router();
            let (old_id, newc, p) = stale_setup(&mut r, takeover);
            let what = ["Ready", "DeviceData", "Shadow", "PublishWill"][kind];
            match kind {
                0 => r.events(old_id, Event::Ready),
                1 => r.events(old_id, Event::DeviceData),
                2 => r.events(old_id, Event::Shadow(ShadowRequest { filter: "z/1".to_owned() })),
                _ => r.events(old_id, Event::PublishWill(("victim".to_owned(), None))),
            }
            settle(&mut r);
            if let Err(e) = later_connection_still_works(&mut r, &newc, &p, what) {
                fail = Some(format!("input=[slot reused by {} (slot id {}, later connection id {}), then a late {} of the ended connection] detail=[{}]", if takeover { "the same client id (takeover)" } else { "another client" }, old_id, newc.id, what, e));
                break 'outer;
            }
        }
    }
    report(name, "C14", "slot reuse by takeover / by another client x late Ready, DeviceData, Shadow, PublishWill", cases, fail);
}

// @native props=C14 tier=quick fn=Router::events (late Disconnect of an ended connection)
#[test]
fn stale_disconnect_does_not_touch_a_later_connection() {
    let name = "rumqttd::Router::events#stale_disconnect_after_slot_reuse";
    let mut cases = 0;
    let mut fail: Option<String> = None;
    for takeover in [false, true] {
        cases += 1;
        let mut r = new_router();
        let (old_id, newc, p) = stale_setup(&mut r, takeover);
        r.events(old_id, Event::Disconnect);
        settle(&mut r);
        if let Err(e) = later_connection_still_works(&mut r, &newc, &p, "Disconnect") {
            fail = Some(format!("input=[slot reused by {} (slot id {}, later connection id {}), then the late Disconnect of the ended connection] detail=[{}]", if takeover { "the same client id (takeover)" } else { "another client" }, old_id, newc.id, e));
            break;
        }
    }
    report(name, "C14", "slot reuse by takeover / by another client, then the ended connection's late Disconnect", cases, fail);
}

/// C14 (last sentence): the late PublishWill of an ENDED connection must not act on the connection the same client id
/// established afterwards.  Wills are keyed by client id and the signal names nothing else, so on the pinned tree it
/// publishes (and uses up) the later connection's will while that connection is alive: KNOWN FINDING, own obligation.
// @native props=C14 tier=quick fn=Router::events (late PublishWill of an ended connection)+handle_last_will
#[test]
fn stale_publishwill_does_not_fire_the_will_of_a_later_connection() {
    let name = "rumqttd::Router::events#stale_publishwill_fires_the_later_connections_will";
    let mut cases = 0u64;
    let mut fail: Option<String> = None;
    for clean in [true, false] {
        cases += 1;
        let desc = format!("client a (clean-session {}): connection 1 with will W1 loses its link; a connects again with will W2; only then the PublishWill of connection 1 arrives; later connection 2 loses its link and its own PublishWill arrives", clean);
        let mut r = new_router();
        let w = connect(&mut r, "watch", true).unwrap();
        send(&mut r, &w, vec![subscribe(1, &[("will/#", 0)])]);
        let _ = drain(&mut r, &w);
        let c1 = connect_with_will(&mut r, "a", clean, Some(("will/a", "W1", 0, false))).unwrap();
        r.events(c1.id, Event::Disconnect);
        settle(&mut r);
        let c2 = connect_with_will(&mut r, "a", clean, Some(("will/a", "W2", 0, false))).unwrap();
        r.events(c1.id, Event::PublishWill(("a".to_owned(), None)));
        settle(&mut r);
        let while_alive: Vec<String> = receive_all(&mut r, &w).into_iter().map(|g| g.1).collect();
        r.events(c2.id, Event::Disconnect);
        settle(&mut r);
        r.events(c2.id, Event::PublishWill(("a".to_owned(), None)));
        settle(&mut r);
        let at_end: Vec<String> = receive_all(&mut r, &w).into_iter().map(|g| g.1).collect();
        if while_alive.iter().any(|m| m == "W2") || !at_end.iter().any(|m| m == "W2") {
            fail = Some(format!("input=[{}] detail=[published while connection 2 was alive: {:?}; published when it ended: {:?}; W2 belongs to connection 2 and is due exactly when that ends]", desc, while_alive, at_end));
            break;
        }
    }
    report(name, "C14", "clean / persistent client id reconnecting before the late PublishWill of its ended connection arrives", cases, fail);
}

/// C09 with QoS 2 subscriptions: the window is freed by PUBREC (the broker answers PUBREL, the client PUBCOMP) and
/// forwarding of the backlog resumes on those acknowledgements without any other stimulus
// @native props=C09,C06,C01 tier=quick fn=Router::handle_device_payload(PubRec/PubComp arms)+consume+forward_device_data
#[test]
fn qos2_window_resumes_on_pubrec_and_releases_are_completed() {
    let name = "rumqttd::Router#qos2_outbound_window_resumes_on_pubrec";
    let mut cases = 0u64;
    let mut fail: Option<String> = None;
    'outer: for backlog in [3usize, 100, 101, 230] {
        for burst in [1usize, 9, 100] {
            cases += 1;
            let desc = format!("QoS 2 subscription, backlog {}, PUBREC bursts of {}", backlog, burst);
            let mut r = new_router();
            let s = connect(&mut r, "s", true).unwrap();
            let p = connect(&mut r, "p", true).unwrap();
            s.ibuf.lock().push_back(subscribe(1, &[("w/#", 2)]));
            r.events(s.id, Event::DeviceData);
            let pubs: Vec<Packet> = (0..backlog).map(|i| publish("w/x", 0, 0, &format!("{}", i), false)).collect();
            p.ibuf.lock().extend(pubs);
            r.events(p.id, Event::DeviceData);
            settle(&mut r);
            let mut awaiting_rec: VecDeque<u16> = VecDeque::new();
            let mut awaiting_rel: VecDeque<u16> = VecDeque::new();
            let mut received = 0usize;
            let mut completed = 0usize;
            for _ in 0..3000 {
                let batch = drain(&mut r, &s);
                for n in &batch {
                    match n {
                        RNotification::Forward(Forward { publish, .. }) => {
                            received += 1;
                            if publish.qos as u8 != 2 || publish.pkid == 0 || awaiting_rec.contains(&publish.pkid) {
                                fail = Some(format!("input=[{}] detail=[forward with QoS {} id {} while ids {:?} are unacknowledged]", desc, publish.qos as u8, publish.pkid, awaiting_rec));
                                break 'outer;
                            }
                            awaiting_rec.push_back(publish.pkid);
                            if awaiting_rec.len() > 100 {
                                fail = Some(format!("input=[{}] detail=[{} QoS 2 publishes awaiting acknowledgement]", desc, awaiting_rec.len()));
                                break 'outer;
                            }
                        }
                        RNotification::DeviceAck(Ack::PubRel(x)) => {
                            // every PUBREC is answered by exactly one PUBREL with the same id, in order
                            if awaiting_rel.pop_front() != Some(x.pkid) {
                                fail = Some(format!("input=[{}] detail=[unexpected PUBREL({})]", desc, x.pkid));
                                break 'outer;
                            }
                            completed += 1;
                            send(&mut r, &s, vec![pubcomp(x.pkid)]);
                        }
                        _ => {}
                    }
                }
                if awaiting_rec.is_empty() {
                    if batch.is_empty() {
                        break;
                    }
                    continue;
                }
                let k = burst.min(awaiting_rec.len());
                let mut recs = vec![];
                for _ in 0..k {
                    let id = awaiting_rec.pop_front().unwrap();
                    awaiting_rel.push_back(id);
                    recs.push(pubrec(id));
                }
                send(&mut r, &s, recs);
            }
            if r.obufs.get(s.id).is_none() {
                fail = Some(format!("input=[{}] detail=[a well-behaved QoS 2 subscriber was disconnected]", desc));
                break 'outer;
            }
            if received != backlog || completed != backlog || !awaiting_rel.is_empty() {
                fail = Some(format!("input=[{}] detail=[{} of {} messages delivered, {} releases received, {} PUBRECs unanswered; broker idle]", desc, received, backlog, completed, awaiting_rel.len()));
                break 'outer;
            }
        }
    }
    report(name, "C09,C06,C01", "QoS 2 subscription, backlogs 3,100,101,230 x PUBREC bursts 1,9,100", cases, fail);
}

/// C15: retained messages that fit into what is left of the delivery window are delivered (and flagged), also when the
/// window is nearly full at the time of the subscription
// @native props=C15 tier=quick fn=Router::forward_device_data (retained + window budget)
#[test]
fn retained_messages_fit_into_a_nearly_full_window() {
    let name = "rumqttd::Router#retained_delivered_when_they_fit_the_window";
    let mut cases = 0u64;
    let mut fail: Option<String> = None;
    'outer: for unacked in [0usize, 98, 99, 100] {
        for retained in 1..=2usize {
            // (a window that is completely full is read again, retained messages included, once acknowledgements free it;
            //  a window with room for only a part of the retained set truncates it: outside the claim, not explored)
            if unacked < 100 && unacked + retained > 100 {
                continue;
            }
            cases += 1;
            let desc = format!("{} unacknowledged QoS 1 forwards, then a new QoS 1 subscription matching {} retained message(s)", unacked, retained);
            let mut r = new_router();
            let s = connect(&mut r, "s", true).unwrap();
            let p = connect(&mut r, "p", true).unwrap();
            for i in 0..retained {
                send(&mut r, &p, vec![publish(&format!("ret/{}", i), 0, 0, &format!("keep{}", i), true)]);
            }
            send(&mut r, &s, vec![subscribe(1, &[("live/#", 1)])]);
            let pubs: Vec<Packet> = (0..unacked).map(|i| publish("live/x", 0, 0, &format!("{}", i), false)).collect();
            for chunk in pubs.chunks(40) {
                send(&mut r, &p, chunk.to_vec());
            }
            // the subscriber reads but does not acknowledge yet
            let first = drain(&mut r, &s);
            let mut pending: Vec<u16> = first.iter().filter_map(|n| match n { RNotification::Forward(Forward { publish, .. }) => Some(publish.pkid), _ => None }).collect();
            if pending.len() != unacked {
                fail = Some(format!("input=[{}] detail=[only {} of {} live messages forwarded]", desc, pending.len(), unacked));
                break 'outer;
            }
            send(&mut r, &s, vec![subscribe(2, &[("ret/#", 1)])]);
            let mut got: Vec<(String, String, u8, bool)> = vec![];
            for _ in 0..50 {
                let batch = drain(&mut r, &s);
                for n in &batch {
                    if let RNotification::Forward(Forward { publish, .. }) = n {
                        got.push((String::from_utf8_lossy(&publish.topic).to_string(), String::from_utf8_lossy(&publish.payload).to_string(), publish.qos as u8, publish.retain));
                        pending.push(publish.pkid);
                    }
                }
                if pending.is_empty() {
                    break;
                }
                // now everything is acknowledged in order
                let acks: Vec<Packet> = pending.drain(..).map(puback).collect();
                send(&mut r, &s, acks);
            }
            got.sort();
            let mut exp: Vec<(String, String, u8, bool)> = (0..retained).map(|i| (format!("ret/{}", i), format!("keep{}", i), 1u8, true)).collect();
            exp.sort();
            if got != exp {
                fail = Some(format!("input=[{}] detail=[after everything was acknowledged the new subscription had received {:?}, expected {:?}]", desc, got, exp));
                break 'outer;
            }
        }
    }
    report(name, "C15", "0/98/99 unacknowledged forwards x 1..2 retained messages that still fit the window of 100, and a completely full window (100) that is freed afterwards", cases, fail);
}

/// C08: one client holding `t` and `$share/g/t` (two subscriptions reading one log).  Unacknowledged publishes are booked
/// per filter_idx, which the two share, so on the pinned tree the copy the client DID acknowledge is sent again after
/// the session resumes: recorded as a KNOWN FINDING, kept as its own obligation.
// @native props=C08 tier=quick fn=Outgoing::retransmission_map+Router::handle_disconnection (bookkeeping per filter_idx)
#[test]
fn plain_and_shared_subscription_on_one_path_resume_without_resending_acknowledged_copies() {
    let name = "rumqttd::Router::handle_disconnection#plain_and_shared_subscription_share_a_filter_idx";
    let mut cases = 0u64;
    let mut fail: Option<String> = None;
    'outer: for acked in 0..=2usize {
        cases += 1;
        let desc = format!("a (clean-session off) holds z and $share/g/z QoS 1; one publish on z -> two copies; a acknowledges {} of them, loses its link, resumes", acked);
        let mut r = new_router();
        let p = connect(&mut r, "p", true).unwrap();
        let a = connect(&mut r, "a", false).unwrap();
        send(&mut r, &a, vec![subscribe(1, &[("z", 1)])]);
        send(&mut r, &a, vec![subscribe(2, &[("$share/g/z", 1)])]);
        let _ = drain(&mut r, &a);
        send(&mut r, &p, vec![publish("z", 0, 0, "m0", false)]);
        let first = drain(&mut r, &a);
        let ids: Vec<u16> = first.iter().filter_map(|n| match n { RNotification::Forward(Forward { publish, .. }) => Some(publish.pkid), _ => None }).collect();
        if ids.len() != 2 {
            fail = Some(format!("input=[{}] detail=[{} copies forwarded before the failure, expected one per subscription]", desc, ids.len()));
            break 'outer;
        }
        send(&mut r, &a, ids[..acked].iter().map(|k| puback(*k)).collect());
        let _ = drain(&mut r, &a);
        r.events(a.id, Event::Disconnect);
        settle(&mut r);
        let a2 = connect(&mut r, "a", false).unwrap();
        let again = receive_all(&mut r, &a2);
        if again.len() != 2 - acked {
            fail = Some(format!("input=[{}] detail=[after the resume {} copies were sent ({:?}), {} were unacknowledged]", desc, again.len(), again, 2 - acked));
            break 'outer;
        }
    }
    report(name, "C08", "0/1/2 of the two copies acknowledged before the link fails", cases, fail);
}

/// C08: operator queries (console `PrintStatus` events, metrics / alerts ticks) while a persistent client is away do not
/// change its saved session
// @native props=C08,C03 tier=quick fn=Router::events(PrintStatus / SendMeters / SendAlerts)+print_status+Graveyard
#[test]
fn status_queries_do_not_touch_a_saved_session() {
    let name = "rumqttd::Router::events#status_queries_leave_saved_sessions_alone";
    use crate::router::Print;
    let mut cases = 0u64;
    let mut fail: Option<String> = None;
    let queries: Vec<(&str, Box<dyn Fn() -> Event>)> = vec![
        ("Print::Config", Box::new(|| Event::PrintStatus(Print::Config))),
        ("Print::Router", Box::new(|| Event::PrintStatus(Print::Router))),
        ("Print::ReadyQueue", Box::new(|| Event::PrintStatus(Print::ReadyQueue))),
        ("Print::Connection(c)", Box::new(|| Event::PrintStatus(Print::Connection("c".to_owned())))),
        ("Print::Connection(nobody)", Box::new(|| Event::PrintStatus(Print::Connection("nobody".to_owned())))),
        ("Print::Subscriptions", Box::new(|| Event::PrintStatus(Print::Subscriptions))),
        ("Print::Subscription(s/t)", Box::new(|| Event::PrintStatus(Print::Subscription("s/t".to_owned())))),
        ("Print::Waiters(s/t)", Box::new(|| Event::PrintStatus(Print::Waiters("s/t".to_owned())))),
        ("SendMeters", Box::new(|| Event::SendMeters)),
        ("SendAlerts", Box::new(|| Event::SendAlerts)),
    ];
    'outer: for (qname, q) in queries.iter() {
        for when in 0..2u8 {
            cases += 1;
            let desc = format!("persistent client c subscribed to s/t (QoS 1){}; its link fails; the operator issues {}; a message is published; c reconnects with clean-session off", if when == 1 { ", query also while it is connected" } else { "" }, qname);
            let mut r = new_router();
            let p = connect(&mut r, "p", true).unwrap();
            let c = connect(&mut r, "c", false).unwrap();
            send(&mut r, &c, vec![subscribe(1, &[("s/t", 1)])]);
            let _ = drain(&mut r, &c);
            if when == 1 {
                r.events(0, q());
                settle(&mut r);
            }
            r.events(c.id, Event::Disconnect);
            settle(&mut r);
            r.events(0, q());
            settle(&mut r);
            send(&mut r, &p, vec![publish("s/t", 0, 0, "while-away", false)]);
            let c2 = connect(&mut r, "c", false).unwrap();
            let first = drain(&mut r, &c2);
            let present = first.iter().any(|n| matches!(n, RNotification::DeviceAck(Ack::ConnAck(_, a, _)) if a.session_present));
            let mut got: Vec<String> = first.iter().filter_map(|n| match n { RNotification::Forward(Forward { publish, .. }) => Some(String::from_utf8_lossy(&publish.payload).to_string()), _ => None }).collect();
            got.extend(receive_all(&mut r, &c2).into_iter().map(|g| g.1));
            if !present || got != vec!["while-away".to_string()] {
                fail = Some(format!("input=[{}] detail=[session present = {}, delivered after the resume: {:?}; expected the session and the message published while away]", desc, present, got));
                break 'outer;
            }
        }
    }
    report(name, "C08,C03", "10 operator queries x issued while the client is away (and also while connected)", cases, fail);
}

/// C08 / C01: UNSUBSCRIBE then SUBSCRIBE again while an older delivery on that filter is still unacknowledged.  Unacknowledged
/// publishes are booked per filter_idx (which the old and the new subscription share), so on the pinned tree the NEW
/// subscription is rewound below its start when the session resumes and a message accepted while the client was not
/// subscribed is delivered: recorded as a KNOWN FINDING (same bookkeeping as the plain+shared entry), own obligation.
// @native props=C08 tier=quick fn=Router::handle_disconnection (rewind per filter_idx)+handle_device_payload(Unsubscribe)
#[test]
fn resubscription_is_not_rewound_below_its_start_when_the_session_resumes() {
    let name = "rumqttd::Router::handle_disconnection#resubscription_rewound_below_its_start";
    let mut cases = 0u64;
    let mut fail: Option<String> = None;
    'outer: for ack_first in [false, true] {
        cases += 1;
        let desc = format!("persistent s: SUBSCRIBE t QoS 1; m1 forwarded{}; UNSUBSCRIBE t; m2 published; SUBSCRIBE t again; m3 forwarded, not acknowledged; link fails; s resumes", if ack_first { " and acknowledged" } else { ", not acknowledged" });
        let mut r = new_router();
        let p = connect(&mut r, "p", true).unwrap();
        let c = connect(&mut r, "s", false).unwrap();
        send(&mut r, &c, vec![subscribe(1, &[("t", 1)])]);
        let _ = drain(&mut r, &c);
        send(&mut r, &p, vec![publish("t", 0, 0, "m1", false)]);
        let first = drain(&mut r, &c);
        if ack_first {
            let acks: Vec<Packet> = first.iter().filter_map(|n| match n { RNotification::Forward(Forward { publish, .. }) => Some(puback(publish.pkid)), _ => None }).collect();
            send(&mut r, &c, acks);
        }
        send(&mut r, &c, vec![unsubscribe(2, &["t"])]);
        let _ = drain(&mut r, &c);
        send(&mut r, &p, vec![publish("t", 0, 0, "m2-while-unsubscribed", false)]);
        send(&mut r, &c, vec![subscribe(3, &[("t", 1)])]);
        let _ = drain(&mut r, &c);
        send(&mut r, &p, vec![publish("t", 0, 0, "m3", false)]);
        let _ = drain(&mut r, &c);
        r.events(c.id, Event::Disconnect);
        settle(&mut r);
        let c2 = connect(&mut r, "s", false).unwrap();
        let got: Vec<String> = receive_all(&mut r, &c2).into_iter().map(|g| g.1).collect();
        if got.iter().any(|m| m == "m2-while-unsubscribed") {
            fail = Some(format!("input=[{}] detail=[after the resume the client was sent {:?}: m2 was accepted while it had no subscription]", desc, got));
            break 'outer;
        }
        if !got.iter().any(|m| m == "m3") {
            fail = Some(format!("input=[{}] detail=[after the resume the client was sent {:?}: the unacknowledged m3 is missing]", desc, got));
            break 'outer;
        }
    }
    report(name, "C08", "older delivery acknowledged or not before the UNSUBSCRIBE", cases, fail);
}

/// C08: a saved session survives a refused reconnect (broker full) and exists for a client without subscriptions
// @native props=C08,C19 tier=quick fn=Router::handle_new_connection+Graveyard::save_state
#[test]
fn saved_session_survives_refused_reconnect_and_needs_no_subscription() {
    let name = "rumqttd::Router#saved_session_survives_refusal_and_empty_session_is_a_session";
    let mut cases = 0u64;
    let mut fail: Option<String> = None;
    // (1) a persistent client with no subscription at all still has a session
    for cycles in 1..=2 {
        cases += 1;
        let mut r = new_router();
        let mut c = connect(&mut r, "c", false).unwrap();
        let _ = drain(&mut r, &c);
        for k in 0..cycles {
            r.events(c.id, Event::Disconnect);
            settle(&mut r);
            c = connect(&mut r, "c", false).unwrap();
            let txt = shown(&drain(&mut r, &c));
            if txt != vec!["CONNACK(sp=true)".to_string()] {
                fail = Some(format!("input=[persistent client without subscriptions, reconnect {}] detail=[got {:?}]", k, txt));
            }
        }
    }
    // (2) a reconnect that is refused because the broker is full must not destroy the saved session
    if fail.is_none() {
        for unacked in 0..=2usize {
            cases += 1;
            let desc = format!("limit 3 connections; persistent client with a subscription and {} unacknowledged message(s) goes away; two others connect; its reconnect is refused; one leaves; it reconnects", unacked);
            let mut r = Router::new(0, RouterConfig { max_connections: 3, ..cfg(1024 * 1024, 10, Strategy::RoundRobin) });
            let p = connect(&mut r, "p", true).unwrap();
            let c = connect(&mut r, "c", false).unwrap();
            send(&mut r, &c, vec![subscribe(1, &[("s/#", 1)])]);
            for i in 0..unacked {
                send(&mut r, &p, vec![publish("s/t", 0, 0, &format!("m{}", i), false)]);
            }
            let _ = drain(&mut r, &c);
            r.events(c.id, Event::Disconnect);
            settle(&mut r);
            let o1 = connect(&mut r, "o1", true).unwrap();
            let _o2 = connect(&mut r, "o2", true).unwrap();
            if connect(&mut r, "c", false).is_some() {
                fail = Some(format!("input=[{}] detail=[a fourth connection was admitted]", desc));
                break;
            }
            r.events(o1.id, Event::Disconnect);
            settle(&mut r);
            let c2 = match connect(&mut r, "c", false) { Some(x) => x, None => { fail = Some(format!("input=[{}] detail=[reconnect refused although a slot is free]", desc)); break; } };
            let notes = drain(&mut r, &c2);
            let txt = shown(&notes);
            let redelivered: Vec<String> = notes.iter().filter_map(|n| match n { RNotification::Forward(Forward { publish, .. }) => Some(String::from_utf8_lossy(&publish.payload).to_string()), _ => None }).collect();
            let exp: Vec<String> = (0..unacked).map(|i| format!("m{}", i)).collect();
            if !txt.contains(&"CONNACK(sp=true)".to_string()) || redelivered != exp {
                fail = Some(format!("input=[{}] detail=[got {:?}; expected session present and redelivery of {:?}]", desc, txt, exp));
                break;
            }
        }
    }
    report(name, "C08,C19", "persistent client without subscriptions (1..2 reconnects); refused reconnect at the connection limit with 0..2 unacknowledged messages", cases, fail);
}


// ---------------------------------------------------------------------------------------------
// C20 at router level: whatever the routing core really hands to a link is encodable by both protocol writers
// (the codec-level stand-in in codec_spec.rs enumerates packet SHAPES; this one takes the packets the router
// actually produces: QoS downgrades keep the publisher's packet id, retained replays, acks, router-initiated
// DISCONNECT, wills, MQTT 5 publish properties passed through)
// ---------------------------------------------------------------------------------------------
// @native props=C20 tier=quick fn=Router::{handle_device_payload,forward_device_data}+Outgoing::push_forwards+V4::write+V5::write
#[test]
fn everything_the_router_hands_to_a_link_is_encodable_by_both_protocols() {
    let name = "rumqttd::Router#every_emitted_notification_is_encodable_v4_and_v5";
    let prev = std::panic::take_hook();
    std::panic::set_hook(Box::new(|_| {}));
    let mut cases = 0u64;
    let mut fail: Option<String> = None;
    ENCODE_FAILURES.with(|f| f.borrow_mut().clear());
    ENCODED.with(|c| c.set(0));
    let props = |k: u8| -> Option<PublishProperties> {
        match k {
            0 => None,
            1 => Some(PublishProperties { payload_format_indicator: Some(1), message_expiry_interval: Some(1000), topic_alias: None, response_topic: Some("r/t".into()), correlation_data: Some(Bytes::from_static(b"cd")), user_properties: vec![("k".into(), "v".into())], subscription_identifiers: vec![], content_type: Some("text/plain".into()) }),
            _ => Some(PublishProperties { payload_format_indicator: None, message_expiry_interval: None, topic_alias: None, response_topic: None, correlation_data: None, user_properties: vec![], subscription_identifiers: vec![], content_type: Some("".into()) }),
        }
    };
    'outer: for pq in 0..3u8 {
        for sq in 0..3u8 {
            for pk in 0..3u8 {
                for retain in [false, true] {
                    cases += 1;
                    let desc = format!("publisher QoS {} (packet id 7), publish properties kind {}, retain {}, subscriber granted QoS {}, late subscriber, unsolicited ack", pq, pk, retain, sq);
                    let mut r = Router::new(0, cfg(1024 * 1024, 10, Strategy::RoundRobin));
                    let p = connect(&mut r, "p", true).unwrap();
                    let s1 = connect(&mut r, "s1", true).unwrap();
                    send(&mut r, &s1, vec![subscribe(1, &[("a/+", sq)])]);
                    let _ = drain(&mut r, &s1);
                    let q = match pq { 0 => QoS::AtMostOnce, 1 => QoS::AtLeastOnce, _ => QoS::ExactlyOnce };
                    let publ = Packet::Publish(Publish { dup: false, qos: q, pkid: if pq == 0 { 0 } else { 7 }, retain, topic: Bytes::from_static(b"a/b"), payload: Bytes::from_static(b"x") }, props(pk));
                    send(&mut r, &p, vec![publ]);
                    if pq == 2 {
                        let _ = drain(&mut r, &p);
                        send(&mut r, &p, vec![pubrel(7)]);
                    }
                    let _ = drain(&mut r, &p);
                    let got: Vec<RNotification> = drain(&mut r, &s1).into_iter().filter(|n| matches!(n, RNotification::Forward(_))).collect();
                    if got.len() != 1 {
                        fail = Some(format!("input=[{}] detail=[subscriber received {} messages]", desc, got.len()));
                        break 'outer;
                    }
                    // "same topic and payload; MQTT 5 properties are dropped towards 3.1.1 subscribers and preserved towards
                    // MQTT 5 subscribers": decode what each kind of link writes for this forward
                    for v5 in [false, true] {
                        let sent = props(pk);
                        let verdict = match on_the_wire(&got[0], v5) {
                            Err(e) => Err(e),
                            Ok(Some(Packet::Publish(pb, pr))) => {
                                if &pb.topic[..] != b"a/b" || &pb.payload[..] != b"x" {
                                    Err(format!("topic / payload on the wire are {:?} / {:?}", pb.topic, pb.payload))
                                } else if !v5 {
                                    if pr.is_some() { Err(format!("an MQTT 3.1.1 subscriber is sent properties {:?}", pr)) } else { Ok(()) }
                                } else {
                                    // an absent property set and one with nothing in it are the same bytes; the expiry interval
                                    // may have been counted down
                                    let norm = |p: Option<PublishProperties>| p.map(|mut q| { q.message_expiry_interval = q.message_expiry_interval.map(|_| 0); q }).filter(|q| {
                                        q.payload_format_indicator.is_some() || q.message_expiry_interval.is_some() || q.topic_alias.is_some() || q.response_topic.is_some()
                                            || q.correlation_data.is_some() || !q.user_properties.is_empty() || !q.subscription_identifiers.is_empty() || q.content_type.is_some()
                                    });
                                    let (a, b) = (norm(sent.clone()), norm(pr.clone()));
                                    if a != b { Err(format!("the publisher sent properties {:?}, an MQTT 5 subscriber is sent {:?}", sent, pr)) } else { Ok(()) }
                                }
                            }
                            Ok(other) => Err(format!("the forward is written as {:?}", other)),
                        };
                        if let Err(e) = verdict {
                            fail = Some(format!("input=[{}, subscriber on an MQTT {} link] detail=[{}]", desc, if v5 { "5" } else { "3.1.1" }, e));
                            break 'outer;
                        }
                    }
                    // a late subscriber gets the retained copy
                    let s2 = connect(&mut r, "s2", true).unwrap();
                    send(&mut r, &s2, vec![subscribe(1, &[("a/b", sq)])]);
                    let _ = receive_all(&mut r, &s2);
                    // an unsolicited ack makes the router close that connection (DISCONNECT notification)
                    send(&mut r, &s2, vec![puback(99)]);
                    let _ = drain(&mut r, &s2);
                    send(&mut r, &p, vec![Packet::PingReq(crate::protocol::PingReq)]);
                    let _ = drain(&mut r, &p);
                    let bad = ENCODE_FAILURES.with(|f| f.borrow().first().cloned());
                    if let Some(b) = bad {
                        fail = Some(format!("input=[{}] detail=[{}]", desc, b));
                        break 'outer;
                    }
                }
            }
        }
    }
    std::panic::set_hook(prev);
    let n = ENCODED.with(|c| c.get());
    if fail.is_none() && n < cases * 4 {
        fail = Some(format!("input=[all scenarios] detail=[only {} notifications were produced over {} scenarios: the harness is not exercising the router]", n, cases));
    }
    report(name, "C20", "publisher QoS 0/1/2 x 3 kinds of MQTT 5 publish properties x retain x granted QoS 0/1/2, with a late subscriber (retained replay), an unsolicited ack (router DISCONNECT) and a ping; every notification taken from an outgoing buffer is written by V4::write and V5::write; the forward is read back from both kinds of link: same topic and payload, no properties towards 3.1.1, the properties of the publisher towards MQTT 5", cases, fail);
}

// ---------------------------------------------------------------------------------------------
// C01 / C08 / C09 together: pseudo-random histories against a reference model (seeded, reproducible).
// One publisher, a PERSISTENT subscriber (filters a QoS 1, c/+ QoS 1, d QoS 0) and a CLEAN subscriber (filters a QoS 0,
// b QoS 1).  Steps: publish bursts (1..6, sometimes up to 250), read, acknowledge a prefix, link failure + reconnect,
// unsubscribe / subscribe again.  The model knows, per subscriber and topic, which message numbers are due:
//   * per topic the numbers arrive in increasing order without gaps from the subscription's start (C01);
//   * an acknowledged message is never sent again; after a resume the unacknowledged QoS 1 ones come again, nothing
//     published while away is missing (C08); a clean reconnect starts with nothing;
//   * never more than 100 unacknowledged QoS 1 forwards, ids non-zero and unique among them (C09);
//   * at the end, with everything read and acknowledged and the broker idle, nothing due is missing (C01).
// ---------------------------------------------------------------------------------------------
struct XorShift(u64);
impl XorShift {
    fn next(&mut self) -> u64 {
        self.0 ^= self.0 << 13;
        self.0 ^= self.0 >> 7;
        self.0 ^= self.0 << 17;
        self.0
    }
    fn below(&mut self, n: u64) -> u64 {
        self.next() % n
    }
}

struct ModelSub {
    name: &'static str,
    clean: bool,
    filters: Vec<(&'static str, u8)>,
    client: Client,
    /// filter -> subscribed now
    active: std::collections::HashMap<&'static str, bool>,
    /// topic -> next number that is due (None: not subscribed / nothing due)
    due: std::collections::HashMap<&'static str, u64>,
    /// unacknowledged QoS 1 forwards in arrival order: (pkid, topic, number)
    unacked: VecDeque<(u16, String, u64)>,
    /// (topic, number) acknowledged
    acked: std::collections::HashSet<(String, u64)>,
    /// topic -> highest number delivered so far + 1, per connection epoch start handled through `due`
    log: Vec<String>,
    /// topics on which the next delivery may jump ahead (something was accepted while the filter was not subscribed)
    gap_ok: std::collections::HashMap<&'static str, u32>,
}

impl ModelSub {
    fn clean_gap_allowed(&mut self, t: &'static str) -> bool {
        // one jump ahead is allowed per period without subscription (or per dead link, for QoS 0)
        match self.gap_ok.get_mut(t) {
            Some(n) if *n > 0 => { *n -= 1; true }
            _ => false,
        }
    }
}

fn model_topics() -> [&'static str; 5] {
    ["a", "b", "c/1", "c/2", "d"]
}

fn filter_of(topic: &str, filters: &[(&'static str, u8)]) -> Option<(&'static str, u8)> {
    filters.iter().copied().find(|(f, _)| ref_matches(topic, f))
}

// @native props=C01,C08,C09 tier=quick fn=Router (random histories against a delivery model)
#[test]
fn random_histories_agree_with_the_delivery_model() {
    let name = "rumqttd::Router#random_histories_agree_with_the_delivery_model";
    let seeds = env_usize("VERIF_FUZZ_SEEDS", 120) as u64;
    let base = env_usize("VERIF_SEED", 1) as u64;
    let mut cases = 0u64;
    let mut fail: Option<String> = None;
    'outer: for seed in 0..seeds {
        cases += 1;
        let mut rng = XorShift((base.wrapping_mul(1_000_003).wrapping_add(seed)).wrapping_mul(0x9E37_79B9_7F4A_7C15) | 1);
        let mut r = new_router();
        let p = connect(&mut r, "p", true).unwrap();
        let mut subs: Vec<ModelSub> = vec![];
        for (name, clean, filters) in [("s1", false, vec![("a", 1u8), ("c/+", 1), ("d", 0)]), ("s2", true, vec![("a", 0u8), ("b", 1)])] {
            let client = connect(&mut r, name, clean).unwrap();
            let fs: Vec<(&str, u8)> = filters.clone();
            send(&mut r, &client, vec![subscribe(1, &fs)]);
            let _ = drain(&mut r, &client);
            let mut active = std::collections::HashMap::new();
            for (f, _) in filters.iter() {
                active.insert(*f, true);
            }
            subs.push(ModelSub { name, clean, filters, client, active, due: Default::default(), unacked: Default::default(), acked: Default::default(), log: vec![], gap_ok: Default::default() });
        }
        let mut published: std::collections::HashMap<&'static str, u64> = Default::default();
        for t in model_topics() {
            published.insert(t, 0);
            for s in subs.iter_mut() {
                if filter_of(t, &s.filters).is_some() {
                    s.due.insert(t, 0);
                }
            }
        }
        let mut trace: Vec<String> = vec![];
        let steps = 60 + rng.below(60);
        // afterwards: both subscribers read and acknowledge everything, round after round, until nothing arrives any more
        let total = steps + 4 * 60;
        for step in 0..total {
            let finishing = step >= steps;
            let op = if finishing { [1u64, 2][((step - steps) % 2) as usize] } else { rng.below(12) };
            let who = if finishing { (((step - steps) / 2) % 2) as usize } else { rng.below(2) as usize };
            match op {
                // publish a burst
                0 | 3 | 4 | 5 | 6 => {
                    let n = if rng.below(8) == 0 { 1 + rng.below(250) } else { 1 + rng.below(6) };
                    let mut ps = vec![];
                    for _ in 0..n {
                        let t = model_topics()[rng.below(5) as usize];
                        let k = published.get_mut(t).unwrap();
                        ps.push(publish(t, 0, 0, &format!("{}#{}", t, k), false));
                        *k += 1;
                    }
                    trace.push(format!("pub x{}", n));
                    for chunk in ps.chunks(60) {
                        send(&mut r, &p, chunk.to_vec());
                    }
                }
                // read what the broker handed over
                1 | 7 | 8 => {
                    let s = &mut subs[who];
                    let batch = drain(&mut r, &s.client);
                    trace.push(format!("{} reads {}", s.name, batch.len()));
                    for n in batch {
                        if let RNotification::Forward(Forward { publish, .. }) = n {
                            let topic = String::from_utf8_lossy(&publish.topic).to_string();
                            let payload = String::from_utf8_lossy(&publish.payload).to_string();
                            let num: u64 = payload.split('#').nth(1).and_then(|x| x.parse().ok()).unwrap_or(u64::MAX);
                            if std::env::var("VERIF_FUZZ_DEBUG").is_ok() { eprintln!("seed {} step {} {} got {} (due {:?}, gap_ok {:?})", seed, step, s.name, payload, s.due.get(topic.as_str()), s.gap_ok); }
                            let Some((f, q)) = filter_of(&topic, &s.filters) else {
                                fail = Some(format!("input=[seed {} trace {:?}] detail=[{} received {} which matches none of its filters]", seed, trace, s.name, payload));
                                break 'outer;
                            };
                            if !s.active[f] {
                                // a message accepted before the UNSUBSCRIBE may still arrive; one accepted after it may not
                            }
                            if publish.qos as u8 != q {
                                fail = Some(format!("input=[seed {} trace {:?}] detail=[{} received {} with QoS {}, granted QoS is {}]", seed, trace, s.name, payload, publish.qos as u8, q));
                                break 'outer;
                            }
                            if s.acked.contains(&(topic.clone(), num)) {
                                fail = Some(format!("input=[seed {} trace {:?}] detail=[{} was sent {} again although it had acknowledged it]", seed, trace, s.name, payload));
                                break 'outer;
                            }
                            let t: &'static str = model_topics().into_iter().find(|x| *x == topic).unwrap();
                            let due = *s.due.get(t).unwrap_or(&0);
                            let redelivery = s.log.contains(&payload);
                            if !redelivery {
                                if num < due {
                                    fail = Some(format!("input=[seed {} trace {:?}] detail=[{} received {} but number {} of that topic is due (too old)]", seed, trace, s.name, payload, due));
                                    break 'outer;
                                }
                                if num > due && s.active[f] && !s.clean_gap_allowed(t) {
                                    fail = Some(format!("input=[seed {} trace {:?}] detail=[{} received {} but number {} of that topic was never delivered (gap)]", seed, trace, s.name, payload, due));
                                    break 'outer;
                                }
                                s.due.insert(t, num + 1);
                                s.log.push(payload.clone());
                            }
                            if q == 1 {
                                if publish.pkid == 0 || s.unacked.iter().any(|u| u.0 == publish.pkid) {
                                    fail = Some(format!("input=[seed {} trace {:?}] detail=[{} received {} with packet id {} (zero or carried by another unacknowledged forward)]", seed, trace, s.name, payload, publish.pkid));
                                    break 'outer;
                                }
                                s.unacked.push_back((publish.pkid, topic.clone(), num));
                                if s.unacked.len() > 100 {
                                    fail = Some(format!("input=[seed {} trace {:?}] detail=[{} has {} unacknowledged QoS 1 forwards]", seed, trace, s.name, s.unacked.len()));
                                    break 'outer;
                                }
                            } else {
                                s.acked.insert((topic.clone(), num));
                            }
                        }
                    }
                }
                // acknowledge a prefix, in order
                2 | 9 => {
                    let s = &mut subs[who];
                    let k = if finishing { s.unacked.len() } else { rng.below(s.unacked.len() as u64 + 1) as usize };
                    let mut acks = vec![];
                    for _ in 0..k {
                        let (pkid, topic, num) = s.unacked.pop_front().unwrap();
                        s.acked.insert((topic, num));
                        acks.push(puback(pkid));
                    }
                    trace.push(format!("{} acks {}", s.name, k));
                    if !acks.is_empty() {
                        send(&mut r, &s.client, acks);
                    }
                }
                // link failure and reconnect
                10 => {
                    let s = &mut subs[who];
                    trace.push(format!("{} link fails, reconnects", s.name));
                    r.events(s.client.id, Event::Disconnect);
                    settle(&mut r);
                    s.client = connect(&mut r, s.name, s.clean).unwrap();
                    let first = s.client.obuf.lock().iter().any(|n| matches!(n, RNotification::DeviceAck(Ack::ConnAck(_, a, _)) if a.session_present));
                    if first == s.clean {
                        fail = Some(format!("input=[seed {} trace {:?}] detail=[{} (clean-session {}) was told session present = {}]", seed, trace, s.name, s.clean, first));
                        break 'outer;
                    }
                    // unacknowledged forwards of the old connection are void; a persistent session gets them again
                    s.unacked.clear();
                    // QoS 0 forwards that sat unread in the dead link's buffer are gone for good (at most once)
                    for (f, q) in s.filters.iter() {
                        if *q == 0 {
                            for t in model_topics() {
                                if ref_matches(t, f) {
                                    *s.gap_ok.entry(t).or_insert(0) += 1;
                                }
                            }
                        }
                    }
                    if s.clean {
                        for f in s.filters.iter() {
                            s.active.insert(f.0, false);
                        }
                        for t in model_topics() {
                            *s.gap_ok.entry(t).or_insert(0) += 1;
                        }
                    }
                }
                // unsubscribe / subscribe one filter again — the clean subscriber only: for a persistent one this runs into the
                // recorded finding "resubscription rewound below its start" (C08), which has its own obligation
                _ => {
                    let s = &mut subs[1];
                    let (f, q) = s.filters[rng.below(s.filters.len() as u64) as usize];
                    if s.active[f] {
                        trace.push(format!("{} unsubscribes {}", s.name, f));
                        send(&mut r, &s.client, vec![unsubscribe(20, &[f])]);
                        s.active.insert(f, false);
                    } else {
                        trace.push(format!("{} subscribes {}", s.name, f));
                        send(&mut r, &s.client, vec![subscribe(21, &[(f, q)])]);
                        s.active.insert(f, true);
                    }
                    // what is accepted while a filter is not subscribed is never due: the next delivery may jump ahead
                    for t in model_topics() {
                        if ref_matches(t, f) {
                            *s.gap_ok.entry(t).or_insert(0) += 1;
                        }
                    }
                }
            }
        }
        // the end: everything read and acknowledged, the broker idle — nothing that is due may be missing
        for s in subs.iter_mut() {
            for t in model_topics() {
                let Some((f, _)) = filter_of(t, &s.filters) else { continue };
                if s.active[f] && s.gap_ok.get(t).copied().unwrap_or(0) == 0 {
                    let want = published[t];
                    let have = *s.due.get(t).unwrap_or(&0);
                    if have != want {
                        fail = Some(format!("input=[seed {} trace {:?}] detail=[at the end {} has received topic {} up to number {}, {} were accepted: the rest is still undelivered although everything is acknowledged and the broker is idle]", seed, trace, s.name, t, have, want));
                        break 'outer;
                    }
                }
            }
        }
    }
    report(name, "C01,C08,C09", &format!("{} pseudo-random histories (seed base {}) of 60..120 steps: bursts up to 250, partial in-order acks, link failures with persistent / clean reconnect, unsubscribe / subscribe, then read+ack to quiescence", seeds, base), cases, fail);
}
