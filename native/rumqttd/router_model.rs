// Native bounded stand-ins at ROUTER level (rumqttd/src/router/routing.rs), included as
// `#[cfg(test)] mod verif_native` child module of `routing` in a scratch copy, so that the private
// `Router::events` / `consume` are driven directly on the REAL router, single-threaded and
// deterministic (no tokio, no link threads: the harness plays the link's part exactly as
// link/local.rs does: fill the incoming buffer, send DeviceData; drain the outgoing buffer, answer
// `Unschedule` with `Ready`).
//
// Why native: neither verifier can hold a Router (Kani 0.68: compiler ICE as soon as Router::new is
// reachable; Verus: handler bodies use drain iterators, closures, retain, HashMap).  Every test
// explores a STATED FINITE space exhaustively and checks an oracle taken from the property text;
// these are bounded stand-ins and are never counted as proved.  Output protocol as in
// native/rumqttc/state_v4.rs.

use crate::protocol::{
    Filter as PFilter, PingReq, PubAck, PubAckReason, PubComp, PubCompReason, PubRec, PubRecReason, PubRel,
    PubRelReason, Publish, RetainForwardRule, Subscribe, Unsubscribe,
};
use crate::router::shared_subs::Strategy;
use crate::router::{Ack, Forward, Notification as RNotification, ShadowRequest};
use bytes::Bytes;
use parking_lot::Mutex;
use std::collections::VecDeque;
use std::panic::{catch_unwind, AssertUnwindSafe};
use std::sync::Arc;

pub struct Client {
    pub id: ConnectionId,
    pub name: String,
    pub ibuf: Arc<Mutex<VecDeque<Packet>>>,
    pub obuf: Arc<Mutex<VecDeque<RNotification>>>,
    pub rx: flume::Receiver<()>,
}

pub fn cfg(max_segment_size: usize, max_segment_count: usize, strategy: Strategy) -> RouterConfig {
    RouterConfig {
        max_segment_size,
        max_connections: 10,
        max_segment_count,
        max_outgoing_packet_count: 1024,
        custom_segment: None,
        initialized_filters: None,
        shared_subscriptions_strategy: strategy,
    }
}

pub fn new_router() -> Router {
    Router::new(0, cfg(1024 * 1024, 10, Strategy::RoundRobin))
}

/// let every ready connection make progress until the router is idle
pub fn settle(r: &mut Router) {
    for _ in 0..10_000 {
        if r.consume().is_none() {
            return;
        }
    }
    panic!("router does not become idle (10000 consume turns)");
}

pub fn connect(r: &mut Router, name: &str, clean: bool) -> Option<Client> {
    let connection = Connection::new(None, name.to_owned(), clean, false);
    let incoming = Incoming::new(connection.client_id.to_owned());
    let (outgoing, rx) = Outgoing::new(connection.client_id.to_owned());
    let ibuf = incoming.buffer();
    let obuf = outgoing.buffer();
    r.events(0, Event::Connect { connection, incoming, outgoing });
    settle(r);
    let id = *r.connection_map.get(name)?;
    // the connection registered under this name must be the one we just handed over
    if !Arc::ptr_eq(&r.obufs.get(id)?.data_buffer, &obuf) {
        return None;
    }
    Some(Client { id, name: name.to_owned(), ibuf, obuf, rx })
}

pub fn send(r: &mut Router, c: &Client, packets: Vec<Packet>) {
    c.ibuf.lock().extend(packets);
    r.events(c.id, Event::DeviceData);
    settle(r);
}

/// what the link would read from its outgoing buffer; answers Unschedule with Ready like the link does
pub fn drain(r: &mut Router, c: &Client) -> Vec<RNotification> {
    let mut out = vec![];
    for _ in 0..64 {
        let got: Vec<RNotification> = c.obuf.lock().drain(..).collect();
        if got.is_empty() {
            break;
        }
        let unscheduled = got.iter().any(|n| matches!(n, RNotification::Unschedule));
        out.extend(got.into_iter().filter(|n| !matches!(n, RNotification::Unschedule)));
        if unscheduled {
            r.events(c.id, Event::Ready);
            settle(r);
        }
    }
    out
}

pub fn publish(topic: &str, qos: u8, pkid: u16, payload: &str, retain: bool) -> Packet {
    let q = match qos { 0 => QoS::AtMostOnce, 1 => QoS::AtLeastOnce, _ => QoS::ExactlyOnce };
    Packet::Publish(
        Publish { dup: false, qos: q, pkid, retain, topic: Bytes::copy_from_slice(topic.as_bytes()), payload: Bytes::copy_from_slice(payload.as_bytes()) },
        None,
    )
}

pub fn filter(path: &str, qos: u8) -> PFilter {
    let q = match qos { 0 => QoS::AtMostOnce, 1 => QoS::AtLeastOnce, _ => QoS::ExactlyOnce };
    PFilter { path: path.to_owned(), qos: q, nolocal: false, preserve_retain: false, retain_forward_rule: RetainForwardRule::OnEverySubscribe }
}

pub fn subscribe(pkid: u16, filters: &[(&str, u8)]) -> Packet {
    Packet::Subscribe(Subscribe { pkid, filters: filters.iter().map(|(p, q)| filter(p, *q)).collect() }, None)
}

pub fn unsubscribe(pkid: u16, filters: &[&str]) -> Packet {
    Packet::Unsubscribe(Unsubscribe { pkid, filters: filters.iter().map(|s| s.to_string()).collect() }, None)
}

pub fn puback(pkid: u16) -> Packet {
    Packet::PubAck(PubAck { pkid, reason: PubAckReason::Success }, None)
}
pub fn pubrec(pkid: u16) -> Packet {
    Packet::PubRec(PubRec { pkid, reason: PubRecReason::Success }, None)
}
pub fn pubrel(pkid: u16) -> Packet {
    Packet::PubRel(PubRel { pkid, reason: PubRelReason::Success }, None)
}
pub fn pubcomp(pkid: u16) -> Packet {
    Packet::PubComp(PubComp { pkid, reason: PubCompReason::Success }, None)
}

/// short printable form of a notification: what a client observes
pub fn show(n: &RNotification) -> String {
    match n {
        RNotification::Forward(Forward { publish, .. }) => format!(
            "PUBLISH({},q{},id{},{}{})",
            // a QoS 0 publish carries no packet id on the wire: whatever the field holds is not observable
            String::from_utf8_lossy(&publish.topic), publish.qos as u8, if publish.qos as u8 == 0 { 0 } else { publish.pkid }, String::from_utf8_lossy(&publish.payload), if publish.retain { ",retained" } else { "" }
        ),
        RNotification::DeviceAck(a) => match a {
            Ack::ConnAck(_, c, _) => format!("CONNACK(sp={})", c.session_present),
            Ack::PubAck(p) | Ack::PubAckWithProperties(p, _) => format!("PUBACK({})", p.pkid),
            Ack::SubAck(s) | Ack::SubAckWithProperties(s, _) => format!("SUBACK({},{} codes)", s.pkid, s.return_codes.len()),
            Ack::PubRec(p) | Ack::PubRecWithProperties(p, _) => format!("PUBREC({})", p.pkid),
            Ack::PubRel(p) | Ack::PubRelWithProperties(p, _) => format!("PUBREL({})", p.pkid),
            Ack::PubComp(p) | Ack::PubCompWithProperties(p, _) => format!("PUBCOMP({})", p.pkid),
            Ack::UnsubAck(u) => format!("UNSUBACK({})", u.pkid),
            Ack::PingResp(_) => "PINGRESP".to_string(),
        },
        RNotification::Disconnect(..) => "DISCONNECT".to_string(),
        RNotification::Shadow(_) => "SHADOW".to_string(),
        RNotification::Unschedule => "UNSCHEDULE".to_string(),
        _ => "OTHER".to_string(),
    }
}

pub fn shown(v: &[RNotification]) -> Vec<String> {
    v.iter().map(show).collect()
}

fn env_usize(k: &str, d: usize) -> usize {
    std::env::var(k).ok().and_then(|s| s.parse().ok()).unwrap_or(d)
}

fn report(name: &str, props: &str, bound: &str, cases: u64, fail: Option<String>) {
    match fail {
        None => println!("VERIF-OBLIGATION {} props={} bound=\"{}\" cases={} ok", name, props, bound, cases),
        Some(f) => {
            println!("VERIF-FAIL {} props={} {}", name, props, f);
            panic!("{}", f);
        }
    }
}

// ---------------------------------------------------------------------------------------------
// C03 (and the stale-signal clause of C14): no event sequence can panic or wedge the routing core
// ---------------------------------------------------------------------------------------------
#[derive(Clone, Copy, Debug, PartialEq)]
enum Act {
    ConnA(bool),
    ConnB,
    SubA,
    SubShareA,
    PubB(u8),
    PubBUnicode,
    AckA(u16),
    RecA(u16),
    RelB(u16),
    CompA(u16),
    UnsubA,
    PingA,
    DisconnectPacketA,
    DisconnectEvt(usize),
    Ready(usize),
    DeviceData(usize),
    Shadow(usize),
    Will,
}

const ACTS: [Act; 24] = [
    Act::ConnA(true), Act::ConnA(false), Act::ConnB, Act::SubA, Act::SubShareA, Act::PubB(0), Act::PubB(1), Act::PubB(2),
    Act::PubBUnicode, Act::AckA(1), Act::AckA(7), Act::RecA(1), Act::RelB(1), Act::CompA(1), Act::UnsubA, Act::PingA,
    Act::DisconnectPacketA, Act::DisconnectEvt(0), Act::DisconnectEvt(5), Act::Ready(0), Act::Ready(5), Act::DeviceData(5), Act::Shadow(0), Act::Will,
];

fn apply(r: &mut Router, a: &mut Option<Client>, b: &mut Option<Client>, act: Act) {
    match act {
        Act::ConnA(clean) => *a = connect(r, "a", clean).or(a.take()),
        Act::ConnB => *b = connect(r, "b", true).or(b.take()),
        Act::SubA => { if let Some(c) = a { send(r, c, vec![subscribe(1, &[("t/#", 1)])]); } }
        Act::SubShareA => { if let Some(c) = a { send(r, c, vec![subscribe(2, &[("$share/g/t/+", 1)])]); } }
        Act::PubB(q) => { if let Some(c) = b { send(r, c, vec![publish("t/x", q, if q == 0 { 0 } else { 1 }, "m", false)]); } }
        Act::PubBUnicode => { if let Some(c) = b { send(r, c, vec![publish("\u{e9}t/\u{1F600}", 0, 0, "m", false)]); } }
        Act::AckA(k) => { if let Some(c) = a { send(r, c, vec![puback(k)]); } }
        Act::RecA(k) => { if let Some(c) = a { send(r, c, vec![pubrec(k)]); } }
        Act::RelB(k) => { if let Some(c) = b { send(r, c, vec![pubrel(k)]); } }
        Act::CompA(k) => { if let Some(c) = a { send(r, c, vec![pubcomp(k)]); } }
        Act::UnsubA => { if let Some(c) = a { send(r, c, vec![unsubscribe(3, &["t/#"])]); } }
        Act::PingA => { if let Some(c) = a { send(r, c, vec![Packet::PingReq(PingReq)]); } }
        Act::DisconnectPacketA => {
            if let Some(c) = a {
                send(r, c, vec![Packet::Disconnect(crate::protocol::Disconnect { reason_code: crate::protocol::DisconnectReasonCode::NormalDisconnection }, None)]);
            }
        }
        Act::DisconnectEvt(id) => { r.events(id, Event::Disconnect); settle(r); }
        Act::Ready(id) => { r.events(id, Event::Ready); settle(r); }
        Act::DeviceData(id) => { r.events(id, Event::DeviceData); settle(r); }
        Act::Shadow(id) => { r.events(id, Event::Shadow(ShadowRequest { filter: "t/x".to_owned() })); settle(r); }
        Act::Will => { r.events(0, Event::PublishWill(("a".to_owned(), None))); settle(r); }
    }
}

/// after any history the router must still accept and serve a fresh well-behaved pair of clients
fn still_serves(r: &mut Router) -> Result<(), String> {
    let s = connect(r, "probe-sub", true).ok_or("probe subscriber cannot connect")?;
    let p = connect(r, "probe-pub", true).ok_or("probe publisher cannot connect")?;
    send(r, &s, vec![subscribe(9, &[("probe/+", 0)])]);
    send(r, &p, vec![publish("probe/1", 0, 0, "ping", false)]);
    let got = shown(&drain(r, &s));
    if !got.iter().any(|x| x.starts_with("PUBLISH(probe/1")) {
        return Err(format!("probe subscriber got {:?}", got));
    }
    r.events(s.id, Event::Disconnect);
    r.events(p.id, Event::Disconnect);
    settle(r);
    Ok(())
}

// @native props=C03,C14 tier=quick fn=Router::events+handle_device_payload+handle_disconnection+consume
#[test]
fn router_survives_every_short_event_history() {
    let name = "rumqttd::Router::events#no_history_panics_or_wedges_the_router";
    let depth = env_usize("VERIF_EVENT_DEPTH", 3);
    let mut cases = 0u64;
    let mut fail: Option<String> = None;
    let prev = std::panic::take_hook();
    std::panic::set_hook(Box::new(|_| {}));
    let n = ACTS.len();
    let total = n.pow(depth as u32);
    'outer: for code in 0..total {
        let mut seq = vec![];
        let mut c = code;
        for _ in 0..depth {
            seq.push(ACTS[c % n]);
            c /= n;
        }
        cases += 1;
        let res = catch_unwind(AssertUnwindSafe(|| {
            let mut r = new_router();
            let mut a: Option<Client> = None;
            let mut b: Option<Client> = None;
            for (i, act) in seq.iter().enumerate() {
                let step = catch_unwind(AssertUnwindSafe(|| apply(&mut r, &mut a, &mut b, *act)));
                if step.is_err() {
                    return Err(format!("routing core panicked at step {} ({:?})", i, act));
                }
            }
            match catch_unwind(AssertUnwindSafe(|| still_serves(&mut r))) {
                Ok(Ok(())) => Ok(()),
                Ok(Err(e)) => Err(format!("router no longer serves new clients: {}", e)),
                Err(_) => Err("routing core panicked while serving a fresh client afterwards".to_string()),
            }
        }));
        let verdict = match res { Ok(v) => v, Err(_) => Err("panic".to_string()) };
        if let Err(e) = verdict {
            fail = Some(format!("input=[history={:?}] detail=[{}]", seq, e));
            break 'outer;
        }
    }
    std::panic::set_hook(prev);
    report(name, "C03,C14", &format!("all histories of {} actions over {} router-level actions (connect/subscribe/publish/acks incl. unsolicited, Ready/Disconnect/DeviceData/Shadow for live and stale ids, unicode topic)", depth, n), cases, fail);
}

// ---------------------------------------------------------------------------------------------
// C06: every request gets exactly one matching reply, in request order, to that client only
// ---------------------------------------------------------------------------------------------
#[derive(Clone, Copy, Debug)]
enum Req {
    Pub1(u16),
    Pub2(u16),
    Rel(u16),
    Sub(u16, usize),
    Unsub(u16, bool),
    UnsubTwo(u16),
    Ping,
    Pub0,
}

/// returns (expected replies, protocol_violation): after a protocol violation (a release the broker never
/// solicited) the broker closes that connection; replies already queued for earlier packets of the same
/// batch may then never be flushed, so only "no wrong, duplicate or reordered reply" is demanded (prefix).
fn expected_replies(reqs: &[Req]) -> (Vec<String>, bool) {
    let mut out = vec![];
    let mut held: VecDeque<u16> = VecDeque::new();
    for q in reqs {
        match q {
            Req::Pub1(k) => out.push(format!("PUBACK({})", k)),
            Req::Pub2(k) => { out.push(format!("PUBREC({})", k)); held.push_back(*k); }
            Req::Rel(k) => { if held.pop_front().is_some() { out.push(format!("PUBCOMP({})", k)); } else { return (out, true); /* unsolicited release: connection closed */ } }
            Req::Sub(k, n) => out.push(format!("SUBACK({},{} codes)", k, n)),
            Req::Unsub(k, _) => out.push(format!("UNSUBACK({})", k)),
            Req::UnsubTwo(k) => out.push(format!("UNSUBACK({})", k)),
            Req::Ping => out.push("PINGRESP".to_string()),
            Req::Pub0 => {}
        }
    }
    (out, false)
}

fn to_packet(q: &Req) -> Packet {
    match q {
        Req::Pub1(k) => publish("q/1", 1, *k, "x", false),
        Req::Pub2(k) => publish("q/2", 2, *k, "y", false),
        Req::Rel(k) => pubrel(*k),
        Req::Sub(k, n) => {
            let fs: Vec<(&str, u8)> = [("s/a", 0u8), ("s/+", 1u8), ("s/#", 2u8)][..*n].to_vec();
            subscribe(*k, &fs)
        }
        Req::Unsub(k, subscribed) => unsubscribe(*k, &[if *subscribed { "s/a" } else { "never/subscribed" }]),
        Req::UnsubTwo(k) => unsubscribe(*k, &["s/a", "s/+"]),
        Req::Ping => Packet::PingReq(PingReq),
        Req::Pub0 => publish("q/0", 0, 0, "z", false),
    }
}

const REQS: [Req; 9] = [Req::Pub1(11), Req::Pub2(12), Req::Rel(12), Req::Sub(13, 1), Req::Sub(14, 3), Req::Unsub(15, true), Req::Unsub(16, false), Req::UnsubTwo(17), Req::Ping];

// @native props=C06 tier=quick fn=Router::handle_device_payload+ack_device_data+consume
#[test]
fn every_request_gets_exactly_one_reply_in_order() {
    let name = "rumqttd::Router::handle_device_payload#one_matching_reply_per_request_in_order";
    let depth = env_usize("VERIF_REQ_DEPTH", 3);
    let n = REQS.len() + 1;
    let mut cases = 0u64;
    let mut fail: Option<String> = None;
    'outer: for batched in [true, false] {
        for code in 0..n.pow(depth as u32) {
            let mut reqs = vec![];
            let mut c = code;
            for _ in 0..depth {
                reqs.push(if c % n == REQS.len() { Req::Pub0 } else { REQS[c % n] });
                c /= n;
            }
            cases += 1;
            let mut r = new_router();
            let a = connect(&mut r, "a", true).unwrap();
            let other = connect(&mut r, "other", true).unwrap();
            // a subscribes s/a and s/+ beforehand so that Unsub(.., true) and UnsubTwo have something to remove
            send(&mut r, &a, vec![subscribe(1, &[("s/a", 0), ("s/+", 0)])]);
            let _ = drain(&mut r, &a);
            let _ = drain(&mut r, &other);
            if batched {
                send(&mut r, &a, reqs.iter().map(to_packet).collect());
            } else {
                for q in &reqs {
                    send(&mut r, &a, vec![to_packet(q)]);
                }
            }
            let got: Vec<String> = shown(&drain(&mut r, &a)).into_iter().filter(|s| !s.starts_with("PUBLISH(")).collect();
            let (exp, violated) = expected_replies(&reqs);
            let stray = shown(&drain(&mut r, &other));
            let ok = if violated { got.len() <= exp.len() && got[..] == exp[..got.len()] } else { got == exp };
            if !ok {
                fail = Some(format!("input=[requests={:?} batched={}] detail=[replies {:?}, expected {:?}]", reqs, batched, got, exp));
                break 'outer;
            }
            if !stray.is_empty() {
                fail = Some(format!("input=[requests={:?} batched={}] detail=[another client received {:?}]", reqs, batched, stray));
                break 'outer;
            }
        }
    }
    report(name, "C06", &format!("all sequences of {} requests over {} request kinds (QoS1/QoS2 publish, release, subscribe with 1 and 3 filters, unsubscribe of subscribed / never-subscribed / two filters, ping, QoS0), sent as one batch and one by one", depth, n), cases, fail);
}

/// C06: a QoS 2 publish reaches subscribers only once released, and once per release
// @native props=C06 tier=quick fn=Router::handle_device_payload(QoS2)
#[test]
fn qos2_publish_is_forwarded_on_release_only_and_once() {
    let name = "rumqttd::Router::handle_device_payload#qos2_forwarded_on_release_once";
    let mut cases = 0;
    let mut fail = None;
    for k in 1..=3u16 {
        cases += 1;
        let mut r = new_router();
        let s = connect(&mut r, "s", true).unwrap();
        let p = connect(&mut r, "p", true).unwrap();
        send(&mut r, &s, vec![subscribe(1, &[("q/#", 0)])]);
        let _ = drain(&mut r, &s);
        let mut pubs = vec![];
        for i in 0..k {
            pubs.push(publish("q/2", 2, 20 + i, &format!("m{}", i), false));
        }
        send(&mut r, &p, pubs);
        let before: Vec<String> = shown(&drain(&mut r, &s));
        if !before.is_empty() {
            fail = Some(format!("input=[{} unreleased QoS2 publishes] detail=[subscriber already got {:?}]", k, before));
            break;
        }
        for i in 0..k {
            send(&mut r, &p, vec![pubrel(20 + i)]);
            let got = shown(&drain(&mut r, &s));
            let exp = vec![format!("PUBLISH(q/2,q0,id0,m{})", i)];
            if got != exp {
                fail = Some(format!("input=[release {} of {}] detail=[subscriber got {:?}, expected {:?}]", i, k, got, exp));
                break;
            }
        }
        if fail.is_some() {
            break;
        }
    }
    report(name, "C06", "1..=3 QoS 2 publishes released in publish order", cases, fail);
}
