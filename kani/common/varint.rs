// Unit U10 — remaining-length (variable byte integer) codec and frame check, one copy per inclusion.
// Included as a child module of each of the four protocol modules (client v4, client v5, broker v4,
// broker v5); `use super::*` brings that copy's private `length`, `write_remaining_length`, `len_len`,
// `check`, `parse_fixed_header` into scope.  All harnesses are loop-closed by unwinding assertions
// (<= 5 iterations by construction of the encoding) over FULL-DOMAIN inputs: complete, not bounded.

fn spec_len_len(len: usize) -> usize {
    if len < 128 { 1 } else if len < 16_384 { 2 } else if len < 2_097_152 { 3 } else { 4 }
}

// @harness props=C04,C05 tier=quick kind=complete bound="none: every len: usize (all four width boundaries inside); loops closed by unwinding assertions" fn=@COPY@::write_remaining_length+length+len_len
#[kani::proof]
#[kani::unwind(7)]
fn varint_roundtrip() {
    let len: usize = kani::any();
    let mut buf = BytesMut::with_capacity(16);
    let r = write_remaining_length(&mut buf, len);
    match r {
        Err(e) => {
            assert!(len > 268_435_455, "C04 varint.err_only_above_max");
            assert!(matches!(e, Error::PayloadTooLong), "C04 varint.err_kind");
            assert!(buf.len() == 0, "C04 varint.err_writes_nothing");
            core::mem::forget(e);
        }
        Ok(n) => {
            assert!(len <= 268_435_455, "C04 varint.ok_only_up_to_max");
            assert!(n == buf.len(), "C04 varint.count_is_bytes_written");
            assert!(n == spec_len_len(len), "C04 varint.width");
            assert!(n == @LEN_LEN@(len), "C04 varint.len_len_agrees_with_encoder");
            // decoding what was written gives the value back and consumes exactly those bytes, whatever follows
            let extra: u8 = kani::any();
            buf.put_u8(extra);
            match length(buf.iter()) {
                Ok((ll, l)) => {
                    assert!(ll == n, "C04 varint.decode_consumes_exactly");
                    assert!(l == len, "C04 varint.roundtrip");
                }
                Err(e) => {
                    core::mem::forget(e);
                    assert!(false, "C04 varint.decode_of_encoded_never_fails");
                }
            }
        }
    }
    kani::cover!(len == 127, "boundary 127");
    kani::cover!(len == 16_384, "boundary 16384");
    kani::cover!(len == 2_097_152, "boundary 2097152");
    kani::cover!(len == 268_435_455, "max");
}

// @harness props=C05 tier=quick kind=complete bound="none: every byte string of length 0..=6 is decided by its first 5 bytes (all symbolic)" fn=@COPY@::length
#[kani::proof]
#[kani::unwind(8)]
fn varint_decode_total() {
    let bytes: [u8; 6] = kani::any();
    let n: usize = kani::any();
    kani::assume(n <= 6);
    let r = length(bytes[..n].iter());
    // number of leading bytes with the continuation bit
    let mut c = 0;
    while c < n && c < 4 && bytes[c] & 0x80 != 0 {
        c += 1;
    }
    match r {
        Ok((ll, l)) => {
            assert!(c < 4 && c < n, "C05 varint_decode.ok_only_if_terminated_within_4");
            assert!(ll == c + 1, "C05 varint_decode.consumed");
            let mut v: usize = 0;
            let mut i = 0;
            while i <= c {
                v += ((bytes[i] & 0x7f) as usize) << (7 * i);
                i += 1;
            }
            assert!(l == v && l <= 268_435_455, "C05 varint_decode.value");
        }
        Err(e) => {
            if c >= 4 {
                assert!(matches!(e, Error::MalformedRemainingLength), "C05 varint_decode.malformed_after_4_continuations");
            } else {
                assert!(c == n, "C05 varint_decode.insufficient_only_if_unterminated");
                assert!(matches!(e, Error::InsufficientBytes(1)), "C05 varint_decode.asks_for_one_more");
            }
            core::mem::forget(e);
        }
    }
    kani::cover!(c == 4, "five-byte length rejected");
    kani::cover!(n == 0, "empty");
}

// @harness props=C05 tier=quick kind=complete bound="none for the header logic: 6 symbolic bytes, symbolic stream length 0..=6, symbolic max size" fn=@COPY@::check+parse_fixed_header
#[kani::proof]
#[kani::unwind(8)]
fn frame_check_contract() {
    let bytes: [u8; 6] = kani::any();
    let n: usize = kani::any();
    kani::assume(n <= 6);
    let max: u32 = kani::any();
    let r = check(bytes[..n].iter(), @CHECK_MAX@);
    match r {
        Ok(fh) => {
            assert!(n >= 2, "C05 check.needs_two_bytes");
            assert!(fh.byte1 == bytes[0], "C05 check.byte1");
            assert!(fh.remaining_len <= max as usize, "C05 check.never_accepts_frame_above_max");
            assert!(fh.fixed_header_len >= 2 && fh.fixed_header_len <= 5, "C05 check.header_len");
            assert!(fh.frame_length() == fh.fixed_header_len + fh.remaining_len && fh.frame_length() <= n, "C05 check.ok_only_when_frame_complete");
            match length(bytes[1..n].iter()) {
                Ok((ll, l)) => assert!(ll + 1 == fh.fixed_header_len && l == fh.remaining_len, "C05 check.header_is_the_varint"),
                Err(e) => {
                    core::mem::forget(e);
                    assert!(false, "C05 check.header_is_the_varint");
                }
            }
        }
        Err(e) => {
            match &e {
                Error::InsufficientBytes(k) => {
                    // asks for more only while the declared frame is incomplete
                    if n < 2 {
                        assert!(*k == 2 - n, "C05 check.insufficient_header");
                    } else {
                        match length(bytes[1..n].iter()) {
                            Ok((ll, l)) => assert!(l <= max as usize && 1 + ll + l > n && *k == 1 + ll + l - n, "C05 check.insufficient_exactly_missing"),
                            Err(e2) => {
                                assert!(matches!(e2, Error::InsufficientBytes(1)) && *k == 1, "C05 check.insufficient_length_byte");
                                core::mem::forget(e2);
                            }
                        }
                    }
                }
                Error::MalformedRemainingLength => {
                    assert!(n >= 5 && bytes[1] & bytes[2] & bytes[3] & bytes[4] & 0x80 != 0, "C05 check.malformed_only_for_5_byte_length");
                }
                @SIZE_ERR_PAT@ => {
                    match length(bytes[1..n].iter()) {
                        Ok((_, l)) => assert!(l > max as usize, "C05 check.size_error_only_above_max"),
                        Err(e2) => {
                            core::mem::forget(e2);
                            assert!(false, "C05 check.size_error_only_above_max");
                        }
                    }
                }
                _ => assert!(false, "C05 check.unexpected_error_kind"),
            }
            core::mem::forget(e);
        }
    }
    kani::cover!(r_is_ok_marker(n), "complete frame");
}

fn r_is_ok_marker(n: usize) -> bool {
    n >= 2
}
