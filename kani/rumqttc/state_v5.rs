// Kani harnesses for rumqttc/src/v5/state.rs (MQTT 5 client state machine), unit U9.
// Derived from state_v4.rs; differences: reason codes are symbolic, tables are sized by the upper limit while
// `max_outgoing_inflight` (receive-maximum) may be smaller, no `last_puback`.
// Included as a child module of `state` in a scratch copy of the workspace:
//     #[cfg(kani)] mod verif_kani { use super::*; include!(".../state_v4.rs"); }
// so private functions and fields of the real module are reachable without editing them.
//
// Style: inductive-step contracts.  `any_state()` ranges over ALL states with table size
// max_inflight <= NMAX (bound substituted by the driver: @NMAX@), `wf` is the representation
// invariant, every harness assumes `wf(pre)`, runs ONE real operation with full-domain symbolic
// arguments and asserts the operation's postcondition and `wf(post)`.  Bounded only in NMAX
// (and in topic/payload, which are empty: no handler inspects them).


pub const NMAX: usize = @NMAX@;

fn stub_now() -> Instant {
    // FFI clock_gettime is not modelled by Kani; time values are never inspected by the obligations
    unsafe { core::mem::zeroed() }
}

fn any_qos() -> QoS {
    match kani::any::<u8>() % 3 {
        0 => QoS::AtMostOnce,
        1 => QoS::AtLeastOnce,
        _ => QoS::ExactlyOnce,
    }
}

fn any_puback_reason() -> PubAckReason {
    match kani::any::<u8>() % 9 {
        0 => PubAckReason::Success,
        1 => PubAckReason::NoMatchingSubscribers,
        2 => PubAckReason::UnspecifiedError,
        3 => PubAckReason::ImplementationSpecificError,
        4 => PubAckReason::NotAuthorized,
        5 => PubAckReason::TopicNameInvalid,
        6 => PubAckReason::PacketIdentifierInUse,
        7 => PubAckReason::QuotaExceeded,
        _ => PubAckReason::PayloadFormatInvalid,
    }
}

fn any_pubrec_reason() -> PubRecReason {
    match kani::any::<u8>() % 9 {
        0 => PubRecReason::Success,
        1 => PubRecReason::NoMatchingSubscribers,
        2 => PubRecReason::UnspecifiedError,
        3 => PubRecReason::ImplementationSpecificError,
        4 => PubRecReason::NotAuthorized,
        5 => PubRecReason::TopicNameInvalid,
        6 => PubRecReason::PacketIdentifierInUse,
        7 => PubRecReason::QuotaExceeded,
        _ => PubRecReason::PayloadFormatInvalid,
    }
}

fn any_publish() -> Publish {
    Publish {
        dup: kani::any(),
        qos: any_qos(),
        retain: kani::any(),
        topic: Bytes::new(),
        pkid: kani::any(),
        payload: Bytes::new(),
        properties: None,
    }
}

// NOTE (measured, CBMC 6.11): an `Option<Publish>` that is the *value* of a conditional
// expression (`if c { Some(p) } else { None }`, `opt.map(..)`) makes goto-symex abort with
// "l2_rename_rvalues case `struct' not handled" once the real handlers `take()` it.  Writing the
// two variants into memory in separate branches is fine, so symbolic options are always built
// by assignment inside a branch.

/// every MqttState whose tables have exactly n + 1 entries, max_inflight == n (other fields free)
fn any_state(n: usize, incoming_cap: usize) -> MqttState {
    let max: u16 = n as u16;
    let mut outgoing_pub = Vec::with_capacity(n + 1);
    let mut outgoing_rel = FixedBitSet::with_capacity(n + 1);
    let mut i = 0;
    while i <= n {
        if kani::any() {
            outgoing_pub.push(Some(any_publish()));
        } else {
            outgoing_pub.push(None);
        }
        if kani::any() {
            outgoing_rel.insert(i);
        }
        i += 1;
    }
    let mut incoming_pub = FixedBitSet::with_capacity(incoming_cap);
    let mut j = 0;
    while j < incoming_cap {
        if kani::any() {
            incoming_pub.insert(j);
        }
        j += 1;
    }
    let mut st = MqttState {
        await_pingresp: kani::any(),
        collision_ping_count: kani::any(),
        last_incoming: stub_now(),
        last_outgoing: stub_now(),
        last_pkid: kani::any(),
        inflight: kani::any(),
        outgoing_pub,
        outgoing_rel,
        incoming_pub,
        collision: None,
        events: VecDeque::with_capacity(8),
        manual_acks: kani::any(),
        topic_alises: HashMap::with_hasher(unsafe { core::mem::zeroed() }), // RandomState::new() needs getrandom (FFI, not modelled)
        broker_topic_alias_max: kani::any(),
        // receive-maximum negotiated by CONNACK: anything in 1..=upper limit (wf_g constrains it)
        max_outgoing_inflight: kani::any(),
        max_outgoing_inflight_upper_limit: max,
    };
    if kani::any() {
        st.collision = Some(any_publish());
    }
    st
}

/// scalar summary of a table slot / parked publish (topic and payload are empty in these harnesses)
#[derive(Clone, Copy, PartialEq, Eq)]
struct Slot {
    some: bool,
    pkid: u16,
    qos: u8,
    dup: bool,
    retain: bool,
}

fn summ(o: &Option<Publish>) -> Slot {
    match o {
        None => Slot { some: false, pkid: 0, qos: 0, dup: false, retain: false },
        Some(p) => summ_p(p),
    }
}

fn summ_p(p: &Publish) -> Slot {
    Slot { some: true, pkid: p.pkid, qos: p.qos as u8, dup: p.dup, retain: p.retain }
}

const TMAX: usize = 8;

/// ghost copy of the bookkeeping that obligations compare against
struct Ghost {
    n: usize,
    slots: [Slot; TMAX],
    rel: [bool; TMAX],
    collision: Slot,
    inflight: u16,
    last_pkid: u16,
    last_puback: u16,
    events: usize,
    await_pingresp: bool,
}

fn ghost(st: &MqttState) -> Ghost {
    let none = Slot { some: false, pkid: 0, qos: 0, dup: false, retain: false };
    let mut slots = [none; TMAX];
    let mut rel = [false; TMAX];
    let n = st.outgoing_pub.len() - 1;
    let mut i = 0;
    while i < TMAX {
        if i > n {
            break;
        }
        slots[i] = summ(&st.outgoing_pub[i]);
        rel[i] = st.outgoing_rel.contains(i);
        i += 1;
    }
    Ghost {
        n,
        slots,
        rel,
        collision: summ(&st.collision),
        inflight: st.inflight,
        last_pkid: st.last_pkid,
        last_puback: 0,
        events: st.events.len(),
        await_pingresp: st.await_pingresp,
    }
}

fn held_count(g: &Ghost) -> usize {
    let mut c = 0;
    let mut i = 0;
    while i < TMAX {
        if i > g.n {
            break;
        }
        if g.slots[i].some {
            c += 1;
        }
        if g.rel[i] {
            c += 1;
        }
        i += 1;
    }
    c
}

/// representation invariant of MqttState (derived from the code, see DESIGN.md §3/C02), evaluated on
/// the ghost summary `g == ghost(st)`
fn wf_g(st: &MqttState, g: &Ghost) -> bool {
    let n = st.max_outgoing_inflight_upper_limit as usize;
    if n < 1 || st.max_outgoing_inflight < 1 || st.max_outgoing_inflight > st.max_outgoing_inflight_upper_limit || st.outgoing_pub.len() != n + 1 || st.outgoing_rel.len() != n + 1 {
        return false;
    }
    if g.slots[0].some || g.rel[0] {
        return false;
    }
    let mut i = 1;
    while i < TMAX {
        if i > n {
            break;
        }
        if g.slots[i].some && (g.slots[i].pkid as usize != i || g.slots[i].qos == 0) {
            return false;
        }
        // an id is in use by at most one flow: unacknowledged publish XOR release awaiting PUBCOMP
        if g.slots[i].some && g.rel[i] {
            return false;
        }
        i += 1;
    }
    if g.inflight as usize != held_count(g) {
        return false;
    }
    if g.last_pkid >= st.max_outgoing_inflight {
        return false;
    }
    if g.collision.some {
        let k = g.collision.pkid as usize;
        if k < 1 || k > n || g.collision.qos == 0 {
            return false;
        }
        if !(g.slots[k].some || g.rel[k]) {
            return false;
        }
    }
    true
}

/// all slots other than `except` and all release bits other than `except_rel` are unchanged
fn frame(g: &Ghost, h: &Ghost, except: usize, except_rel: usize) -> bool {
    let mut i = 0;
    while i < TMAX {
        if i > g.n {
            break;
        }
        if i != except && g.slots[i] != h.slots[i] {
            return false;
        }
        if i != except_rel && g.rel[i] != h.rel[i] {
            return false;
        }
        i += 1;
    }
    true
}

const NONE: usize = usize::MAX;

// ------------------------------------------------------------------------------------------
// next_pkid: function contract, all max_inflight >= 1 (no table involved) — complete
// ------------------------------------------------------------------------------------------
// @harness props=C07 tier=quick kind=complete bound="none: all max_inflight >= 1, all last_pkid < max_inflight (loop-free)" fn=v5::MqttState::next_pkid covered_by=cstate5
#[kani::proof]
fn v5_next_pkid_contract() {
    // state without tables: next_pkid touches last_pkid / max_inflight only
    let mut st = MqttState {
        await_pingresp: false,
        collision_ping_count: 0,
        last_incoming: stub_now(),
        last_outgoing: stub_now(),
        last_pkid: kani::any(),
        inflight: 0,
        outgoing_pub: Vec::new(),
        outgoing_rel: FixedBitSet::with_capacity(0),
        incoming_pub: FixedBitSet::with_capacity(0),
        collision: None,
        events: VecDeque::new(),
        manual_acks: false,
        topic_alises: HashMap::with_hasher(unsafe { core::mem::zeroed() }), // RandomState::new() needs getrandom (FFI, not modelled)
        broker_topic_alias_max: 0,
        max_outgoing_inflight: kani::any(),
        max_outgoing_inflight_upper_limit: u16::MAX,
    };
    kani::assume(st.max_outgoing_inflight >= 1 && st.last_pkid < st.max_outgoing_inflight);
    let old = st.last_pkid;
    let max = st.max_outgoing_inflight;
    let r = st.next_pkid();
    assert!(r >= 1 && r <= max, "C07 next_pkid.range");
    assert!(r == old + 1, "C07 next_pkid.successor");
    assert!(st.last_pkid < max, "C07 next_pkid.wf");
    assert!(st.last_pkid == if r == max { 0 } else { r }, "C07 next_pkid.wrap");
    kani::cover!(r == max, "wrap-around reachable");
    kani::cover!(r == 1 && max == u16::MAX, "max limit reachable");
    core::mem::forget(st);
}

// ------------------------------------------------------------------------------------------
// PUBACK
// ------------------------------------------------------------------------------------------
// @steps name=v5_puback props=C02,C07,C10,C18 fn=v5::MqttState::handle_incoming_puback call=puback_step ns=quick:1;thorough:1,2 covered_by=cstate5
fn puback_step(n: usize) {
    let mut st = any_state(n, 0);
    let g = ghost(&st);
    kani::assume(wf_g(&st, &g));
    let pkid: u16 = kani::any();
    let r = st.handle_incoming_puback(&PubAck { pkid, reason: any_puback_reason(), properties: None });
    let h = ghost(&st);
    let k = pkid as usize;
    match &r {
        Ok(out) => {
            assert!(k >= 1 && k <= n && g.slots[k].some, "C10 puback.ok_only_if_solicited");
            match out {
                None => {
                    assert!(!h.slots[k].some, "C02 puback.removes_acked_slot");
                    assert!(h.inflight == g.inflight - 1, "C07 puback.inflight_dec");
                    assert!(h.collision == g.collision, "C02 puback.collision_kept");
                    assert!(h.events == g.events, "C10 puback.no_event_without_write");
                }
                Some(Packet::Publish(p)) => {
                    // a parked (collision) publish with this id is released by the ack
                    assert!(g.collision.some && summ_p(p) == g.collision, "C02 puback.released_is_the_parked_one");
                    assert!(p.pkid == pkid, "C07 puback.released_id");
                    assert!(h.slots[k] == g.collision, "C02 puback.released_recorded");
                    assert!(!h.collision.some, "C07 puback.collision_cleared");
                    assert!(h.inflight == g.inflight, "C07 puback.inflight_same");
                    assert!(h.events == g.events + 1, "C10 puback.one_event");
                    assert!(matches!(st.events.back(), Some(Event::Outgoing(Outgoing::Publish(x))) if *x == pkid), "C10 puback.event_kind");
                    kani::cover!(true, "collision released by puback");
                }
                Some(_) => assert!(false, "C10 puback.unexpected_packet"),
            }
            assert!(frame(&g, &h, k, NONE), "C02 puback.frame");
        }
        Err(e) => {
            assert!(matches!(e, StateError::Unsolicited(x) if *x == pkid), "C10 puback.err_kind");
            assert!(k > n || !g.slots[k].some, "C10 puback.err_only_if_unsolicited");
            assert!(frame(&g, &h, NONE, NONE), "C10 puback.err_frame");
            assert!(h.inflight == g.inflight && h.collision == g.collision, "C10 puback.err_bookkeeping");
            assert!(h.events == g.events, "C10 puback.err_no_event");
        }
    }
    assert!(h.await_pingresp == g.await_pingresp, "C18 puback.ping_flag_untouched");
    assert!(wf_g(&st, &h), "C02 puback.wf");
    kani::cover!(r.is_err() && k > n, "ack above table");
    core::mem::forget(r);
    core::mem::forget(st);
}


// ------------------------------------------------------------------------------------------
// PUBREC
// ------------------------------------------------------------------------------------------
// @steps name=v5_pubrec props=C02,C07,C10,C18 fn=v5::MqttState::handle_incoming_pubrec call=pubrec_step covered_by=cstate5
fn pubrec_step(n: usize) {
    let mut st = any_state(n, 0);
    let g = ghost(&st);
    kani::assume(wf_g(&st, &g));
    let pkid: u16 = kani::any();
    let reason = any_pubrec_reason();
    let fail = reason != PubRecReason::Success && reason != PubRecReason::NoMatchingSubscribers;
    let r = st.handle_incoming_pubrec(&PubRec { pkid, reason, properties: None });
    let h = ghost(&st);
    let k = pkid as usize;
    match &r {
        Ok(out) => {
            assert!(k >= 1 && k <= n && g.slots[k].some, "C10 pubrec.ok_only_if_solicited");
            if !fail {
                assert!(matches!(out, Some(Packet::PubRel(x)) if x.pkid == pkid), "C10 pubrec.answers_with_pubrel_same_id");
                assert!(!h.slots[k].some && h.rel[k], "C02 pubrec.moves_slot_to_release_pending");
                assert!(h.inflight == g.inflight, "C07 pubrec.inflight_same");
                assert!(h.collision == g.collision, "C02 pubrec.collision_kept");
                assert!(h.events == g.events + 1, "C10 pubrec.one_event");
                assert!(matches!(st.events.back(), Some(Event::Outgoing(Outgoing::PubRel(x))) if *x == pkid), "C10 pubrec.event_kind");
                assert!(frame(&g, &h, k, k), "C02 pubrec.frame");
            } else {
                // the broker refused the publish: this is its final acknowledgement, no release follows
                assert!(!h.rel[k], "C02 pubrec.refused_no_release_pending");
                match out {
                    None => {
                        assert!(!h.slots[k].some, "C02 pubrec.refused_slot_freed");
                        assert!(h.inflight == g.inflight - 1, "C07 pubrec.refused_inflight_dec");
                        assert!(h.collision == g.collision, "C02 pubrec.refused_collision_kept");
                        assert!(h.events == g.events, "C10 pubrec.refused_no_event");
                    }
                    Some(Packet::Publish(p)) => {
                        assert!(g.collision.some && summ_p(p) == g.collision && p.pkid == pkid, "C02 pubrec.refused_released_is_the_parked_one");
                        assert!(h.slots[k] == g.collision && !h.collision.some, "C02,C07 pubrec.refused_released_recorded");
                        assert!(h.inflight == g.inflight, "C07 pubrec.refused_inflight_counts_released");
                        assert!(h.events == g.events + 1, "C10 pubrec.refused_one_event");
                    }
                    Some(_) => assert!(false, "C10 pubrec.refused_unexpected_packet"),
                }
                assert!(frame(&g, &h, k, NONE), "C02 pubrec.refused_frame");
                kani::cover!(true, "pubrec with failure reason");
            }
        }
        Err(e) => {
            assert!(matches!(e, StateError::Unsolicited(x) if *x == pkid), "C10 pubrec.err_kind");
            assert!(k > n || !g.slots[k].some, "C10 pubrec.err_only_if_unsolicited");
            assert!(frame(&g, &h, NONE, NONE), "C10 pubrec.err_frame");
            assert!(h.inflight == g.inflight && h.collision == g.collision, "C10 pubrec.err_bookkeeping");
            assert!(h.events == g.events, "C10 pubrec.err_no_event");
        }
    }
    assert!(h.await_pingresp == g.await_pingresp, "C18 pubrec.ping_flag_untouched");
    assert!(wf_g(&st, &h), "C02,C07 pubrec.wf");
    kani::cover!(r.is_ok() && !fail, "solicited pubrec");
    kani::cover!(r.is_err() && k > n, "pubrec above table");
    core::mem::forget(r);
    core::mem::forget(st);
}

// ------------------------------------------------------------------------------------------
// PUBCOMP
// ------------------------------------------------------------------------------------------
// @steps name=v5_pubcomp props=C02,C07,C10,C18 fn=v5::MqttState::handle_incoming_pubcomp call=pubcomp_step covered_by=cstate5
fn pubcomp_step(n: usize) {
    let mut st = any_state(n, 0);
    let g = ghost(&st);
    kani::assume(wf_g(&st, &g));
    let pkid: u16 = kani::any();
    let r = st.handle_incoming_pubcomp(&PubComp { pkid, reason: if kani::any() { PubCompReason::Success } else { PubCompReason::PacketIdentifierNotFound }, properties: None });
    let h = ghost(&st);
    let k = pkid as usize;
    match &r {
        Ok(out) => {
            assert!(k >= 1 && k <= n && g.rel[k], "C10 pubcomp.ok_only_if_solicited");
            assert!(!h.rel[k], "C02 pubcomp.release_completed");
            match out {
                None => {
                    assert!(h.inflight == g.inflight - 1, "C07 pubcomp.inflight_dec");
                    assert!(h.collision == g.collision, "C02 pubcomp.collision_kept");
                    assert!(h.events == g.events, "C10 pubcomp.no_event_without_write");
                    assert!(frame(&g, &h, NONE, k), "C02 pubcomp.frame");
                }
                Some(Packet::Publish(p)) => {
                    assert!(g.collision.some && summ_p(p) == g.collision, "C02 pubcomp.released_is_the_parked_one");
                    assert!(p.pkid == pkid, "C07 pubcomp.released_id");
                    // the publish that is now put on the wire must be tracked like any other unacknowledged publish
                    assert!(h.slots[k] == g.collision, "C02,C07 pubcomp.released_recorded");
                    assert!(!h.collision.some, "C07 pubcomp.collision_cleared");
                    assert!(h.inflight == g.inflight, "C07 pubcomp.inflight_counts_released");
                    assert!(h.events == g.events + 1, "C10 pubcomp.one_event");
                    assert!(matches!(st.events.back(), Some(Event::Outgoing(Outgoing::Publish(x))) if *x == pkid), "C10 pubcomp.event_kind");
                    assert!(frame(&g, &h, k, k), "C02 pubcomp.frame_released");
                    kani::cover!(true, "collision released by pubcomp");
                }
                Some(_) => assert!(false, "C10 pubcomp.unexpected_packet"),
            }
        }
        Err(e) => {
            assert!(matches!(e, StateError::Unsolicited(x) if *x == pkid), "C10 pubcomp.err_kind");
            assert!(k > n || !g.rel[k], "C10 pubcomp.err_only_if_unsolicited");
            assert!(frame(&g, &h, NONE, NONE), "C10 pubcomp.err_frame");
            assert!(h.inflight == g.inflight && h.collision == g.collision, "C02,C10 pubcomp.err_bookkeeping");
            assert!(h.events == g.events, "C10 pubcomp.err_no_event");
        }
    }
    assert!(h.await_pingresp == g.await_pingresp, "C18 pubcomp.ping_flag_untouched");
    assert!(wf_g(&st, &h), "C02,C07 pubcomp.wf");
    kani::cover!(r.is_err() && k > n, "pubcomp above table");
    core::mem::forget(r);
    core::mem::forget(st);
}

// ------------------------------------------------------------------------------------------
// outgoing publish
// ------------------------------------------------------------------------------------------
// @steps name=v5_outgoing_publish props=C02,C07,C10,C18 fn=v5::MqttState::outgoing_publish call=outgoing_publish_step ns=quick:1,2;thorough:1,2,3 covered_by=cstate5
fn outgoing_publish_step(n: usize) {
    let mut st = any_state(n, 0);
    let g = ghost(&st);
    kani::assume(wf_g(&st, &g));
    let publish = any_publish();
    let input = summ_p(&publish);
    let r = st.outgoing_publish(publish);
    let h = ghost(&st);
    match &r {
        Ok(Some(Packet::Publish(p))) => {
            let o = summ_p(p);
            assert!(o.qos == input.qos && o.dup == input.dup && o.retain == input.retain, "C02 outgoing_publish.content_kept");
            assert!(h.events == g.events + 1, "C10 outgoing_publish.one_event");
            assert!(matches!(st.events.back(), Some(Event::Outgoing(Outgoing::Publish(x))) if *x == p.pkid), "C10 outgoing_publish.event_kind");
            if input.qos == 0 {
                assert!(frame(&g, &h, NONE, NONE) && h.inflight == g.inflight && h.collision == g.collision, "C07 outgoing_publish.qos0_untracked");
            } else {
                let k = p.pkid as usize;
                assert!(k >= 1 && k <= n && (input.pkid != 0 || p.pkid <= st.max_outgoing_inflight), "C07 outgoing_publish.id_in_range");
                assert!(input.pkid == 0 || input.pkid == p.pkid, "C02 outgoing_publish.keeps_given_id");
                assert!(input.pkid != 0 || p.pkid == g.last_pkid + 1, "C07 outgoing_publish.next_id");
                assert!(!g.slots[k].some, "C07 outgoing_publish.id_not_held_by_unacked_publish");
                assert!(!g.rel[k], "C07 outgoing_publish.id_not_awaiting_pubcomp");
                assert!(h.slots[k] == o, "C02 outgoing_publish.recorded_before_sent");
                assert!(h.inflight == g.inflight + 1, "C07 outgoing_publish.inflight_inc");
                assert!(h.collision == g.collision, "C02 outgoing_publish.collision_kept");
                assert!(frame(&g, &h, k, NONE), "C02 outgoing_publish.frame");
            }
        }
        Ok(None) => {
            // parked: the id is held by an unacknowledged publish
            assert!(input.qos != 0, "C10 outgoing_publish.qos0_always_sent");
            assert!(h.collision.some, "C02 outgoing_publish.parked_is_held");
            let k = h.collision.pkid as usize;
            assert!(k >= 1 && k <= n && g.slots[k].some, "C07 outgoing_publish.collision_only_if_id_held");
            assert!(h.collision.qos == input.qos && h.collision.dup == input.dup && h.collision.retain == input.retain, "C02 outgoing_publish.parked_content");
            assert!(!g.collision.some, "C02 outgoing_publish.previous_parked_publish_not_overwritten");
            assert!(frame(&g, &h, NONE, NONE) && h.inflight == g.inflight, "C02 outgoing_publish.parked_frame");
            assert!(h.events == g.events + 1, "C10 outgoing_publish.await_event");
            assert!(matches!(st.events.back(), Some(Event::Outgoing(Outgoing::AwaitAck(x))) if *x as usize == k), "C10 outgoing_publish.await_event_kind");
            kani::cover!(true, "collision parked");
        }
        Ok(Some(_)) => assert!(false, "C10 outgoing_publish.unexpected_packet"),
        Err(e) => {
            // only a caller-chosen id outside the table is refused
            assert!(input.qos != 0 && input.pkid as usize > n, "C02 outgoing_publish.err_only_for_foreign_id");
            assert!(matches!(e, StateError::Unsolicited(x) if *x == input.pkid), "C10 outgoing_publish.err_kind");
            assert!(frame(&g, &h, NONE, NONE) && h.inflight == g.inflight && h.collision == g.collision, "C02 outgoing_publish.err_frame");
        }
    }
    assert!(h.await_pingresp == g.await_pingresp, "C18 outgoing_publish.ping_flag_untouched");
    assert!(wf_g(&st, &h), "C02,C07 outgoing_publish.wf");
    kani::cover!(matches!(&r, Ok(Some(_))) && input.qos != 0 && input.pkid == 0 && g.last_pkid + 1 == st.max_outgoing_inflight, "id wrap-around");
    core::mem::forget(r);
    core::mem::forget(st);
}

// ------------------------------------------------------------------------------------------
// release replay (outgoing_pubrel / save_pubrel)
// ------------------------------------------------------------------------------------------
// @steps name=v5_outgoing_pubrel props=C02,C07 fn=v5::MqttState::outgoing_pubrel call=outgoing_pubrel_step covered_by=cstate5
fn outgoing_pubrel_step(n: usize) {
    let mut st = any_state(n, 0);
    let g = ghost(&st);
    kani::assume(wf_g(&st, &g));
    let pkid: u16 = kani::any();
    // precondition established by clean#post: a carried-over release has a table id that is not pending now
    kani::assume(pkid as usize <= n);
    kani::assume(pkid == 0 || (!g.rel[pkid as usize] && !g.slots[pkid as usize].some));
    kani::assume(pkid != 0 || (!g.rel[g.last_pkid as usize + 1] && !g.slots[g.last_pkid as usize + 1].some));
    let r = st.outgoing_pubrel(PubRel { pkid, reason: PubRelReason::Success, properties: None });
    let h = ghost(&st);
    match &r {
        Ok(Some(Packet::PubRel(p))) => {
            let k = p.pkid as usize;
            assert!(k >= 1 && k <= n, "C07 outgoing_pubrel.id_in_range");
            assert!(pkid == 0 || p.pkid == pkid, "C02 outgoing_pubrel.keeps_id");
            assert!(h.rel[k], "C02 outgoing_pubrel.release_pending_recorded");
            assert!(h.inflight == g.inflight + 1, "C07 outgoing_pubrel.inflight_inc");
            assert!(frame(&g, &h, NONE, k) && h.collision == g.collision, "C02 outgoing_pubrel.frame");
            assert!(h.events == g.events + 1, "C10 outgoing_pubrel.one_event");
            assert!(matches!(st.events.back(), Some(Event::Outgoing(Outgoing::PubRel(x))) if *x == p.pkid), "C10 outgoing_pubrel.event_kind");
        }
        _ => assert!(false, "C02 outgoing_pubrel.always_sent"),
    }
    assert!(wf_g(&st, &h), "C02 outgoing_pubrel.wf");
    core::mem::forget(r);
    core::mem::forget(st);
}

// ------------------------------------------------------------------------------------------
// clean(): everything unacknowledged is handed back for retransmission, in the documented order
// ------------------------------------------------------------------------------------------
// (content and order of the returned requests are checked by the native bounded stand-in
//  native/rumqttc/state_v4.rs: CBMC 6.11 recurses to stack overflow / OOM when the elements of the
//  returned Vec<Request> are inspected — measured)
// @steps name=v5_clean props=C02,C07,C18,C10 fn=v5::MqttState::clean call=clean_step
fn clean_step(n: usize) {
    let mut st = any_state(n, 2);
    let g = ghost(&st);
    kani::assume(wf_g(&st, &g));
    let pending = st.clean();
    let h = ghost(&st);
    // everything unacknowledged, plus the publish parked on an id collision (accepted, never transmitted)
    assert!(pending.len() == g.inflight as usize + if g.collision.some { 1 } else { 0 }, "C02,C07 clean.count_matches_inflight_plus_parked");
    let mut j = 0usize;
    while j < TMAX {
        if j > n {
            break;
        }
        assert!(!h.slots[j].some && !h.rel[j], "C02 clean.tables_emptied");
        j += 1;
    }
    assert!(h.inflight == 0, "C07 clean.inflight_reset");
    // C07: a collision is only ever pending while the colliding id is genuinely held; after clean() no id is held
    assert!(!h.collision.some, "C07 clean.no_collision_left_pending");
    assert!(!st.await_pingresp && st.collision_ping_count == 0, "C18 clean.ping_state_reset");
    // (what clean() does with the ids of received-but-unreleased QoS 2 publishes is demanded by no property: not asserted)
    assert!(h.last_pkid == g.last_pkid, "C07 clean.pkid_counter_kept");
    kani::cover!(pending.len() == n, "all ids pending");
    core::mem::forget(pending);
    core::mem::forget(st);
}

// ------------------------------------------------------------------------------------------
// inbound QoS flows (C10)
// ------------------------------------------------------------------------------------------
pub const ICAP: usize = 8;

// @harness props=C10 tier=quick kind=bounded bound="incoming QoS2 id table of 8 bits (real: 65536, see v5_new_tables); ids of QoS0/1 publishes full u16; table size max_inflight=1" fn=v5::MqttState::handle_incoming_publish covered_by=cstate5
#[kani::proof]
#[kani::unwind(@UNWIND@)]
fn v5_incoming_publish() {
    let mut st = any_state(1, ICAP);
    let g = ghost(&st);
    let mut publish = any_publish();
    let qos = publish.qos;
    let pkid = publish.pkid;
    kani::assume(qos != QoS::ExactlyOnce || (pkid as usize) < ICAP);
    let manual = st.manual_acks;
    let was_set = (pkid as usize) < ICAP && st.incoming_pub.contains(pkid as usize);
    let ones = st.incoming_pub.count_ones(..);
    let r = st.handle_incoming_publish(&mut publish);
    let h = ghost(&st);
    match &r {
        Ok(out) => {
            match qos {
                QoS::AtMostOnce => {
                    assert!(out.is_none(), "C10 incoming_publish.qos0_no_reply");
                    assert!(h.events == g.events, "C10 incoming_publish.qos0_no_event");
                }
                QoS::AtLeastOnce => {
                    if manual {
                        assert!(out.is_none() && h.events == g.events, "C10 incoming_publish.manual_ack_sends_nothing");
                    } else {
                        assert!(matches!(out, Some(Packet::PubAck(a)) if a.pkid == pkid), "C10 incoming_publish.qos1_puback_same_id");
                        assert!(h.events == g.events + 1, "C10 incoming_publish.qos1_one_event");
                        assert!(matches!(st.events.back(), Some(Event::Outgoing(Outgoing::PubAck(x))) if *x == pkid), "C10 incoming_publish.qos1_event_kind");
                    }
                }
                QoS::ExactlyOnce => {
                    assert!(st.incoming_pub.contains(pkid as usize), "C10 incoming_publish.qos2_id_remembered");
                    assert!(st.incoming_pub.count_ones(..) == ones + if was_set { 0 } else { 1 }, "C10 incoming_publish.qos2_only_that_id");
                    if manual {
                        assert!(out.is_none() && h.events == g.events, "C10 incoming_publish.manual_ack_sends_nothing_qos2");
                    } else {
                        assert!(matches!(out, Some(Packet::PubRec(a)) if a.pkid == pkid), "C10 incoming_publish.qos2_pubrec_same_id");
                        assert!(h.events == g.events + 1, "C10 incoming_publish.qos2_one_event");
                        assert!(matches!(st.events.back(), Some(Event::Outgoing(Outgoing::PubRec(x))) if *x == pkid), "C10 incoming_publish.qos2_event_kind");
                    }
                }
            }
            if qos != QoS::ExactlyOnce {
                assert!(st.incoming_pub.count_ones(..) == ones, "C10 incoming_publish.id_table_untouched");
            }
        }
        Err(_) => assert!(false, "C10 incoming_publish.never_errs"),
    }
    assert!(frame(&g, &h, NONE, NONE) && h.inflight == g.inflight && h.collision == g.collision, "C10 incoming_publish.outgoing_bookkeeping_untouched");
    kani::cover!(qos == QoS::ExactlyOnce && !manual, "qos2 auto ack");
    kani::cover!(qos == QoS::AtLeastOnce && manual, "qos1 manual ack");
    core::mem::forget(r);
    core::mem::forget(st);
}

// @harness props=C10 tier=quick kind=bounded bound="incoming QoS2 id table of 8 bits; PUBREL ids full u16 (ids >= 8 are unsolicited)" fn=v5::MqttState::handle_incoming_pubrel covered_by=cstate5
#[kani::proof]
#[kani::unwind(@UNWIND@)]
fn v5_incoming_pubrel() {
    let mut st = any_state(1, ICAP);
    let g = ghost(&st);
    let pkid: u16 = kani::any();
    let success: bool = kani::any();
    let was_set = (pkid as usize) < ICAP && st.incoming_pub.contains(pkid as usize);
    let ones = st.incoming_pub.count_ones(..);
    let r = st.handle_incoming_pubrel(&PubRel { pkid, reason: if success { PubRelReason::Success } else { PubRelReason::PacketIdentifierNotFound }, properties: None });
    let h = ghost(&st);
    match &r {
        Ok(out) => {
            assert!(was_set, "C10 pubrel.ok_only_for_known_id");
            assert!(!st.incoming_pub.contains(pkid as usize) && st.incoming_pub.count_ones(..) == ones - 1, "C10 pubrel.id_forgotten_only_that");
            // the property: a release of a known id is answered with PUBCOMP — whatever reason code it carries
            let _ = success;
            assert!(matches!(out, Some(Packet::PubComp(a)) if a.pkid == pkid), "C10 pubrel.pubcomp_same_id");
            assert!(h.events == g.events + 1, "C10 pubrel.one_event");
            assert!(matches!(st.events.back(), Some(Event::Outgoing(Outgoing::PubComp(x))) if *x == pkid), "C10 pubrel.event_kind");
        }
        Err(e) => {
            assert!(!was_set, "C10 pubrel.err_only_if_unknown");
            assert!(matches!(e, StateError::Unsolicited(x) if *x == pkid), "C10 pubrel.err_kind");
            assert!(st.incoming_pub.count_ones(..) == ones && h.events == g.events, "C10 pubrel.err_state_unchanged");
        }
    }
    assert!(frame(&g, &h, NONE, NONE) && h.inflight == g.inflight && h.collision == g.collision, "C10 pubrel.outgoing_bookkeeping_untouched");
    kani::cover!(r.is_ok() && success, "known release");
    kani::cover!(r.is_ok() && !success, "release with failure reason");
    kani::cover!(r.is_err() && pkid as usize >= ICAP, "release above table");
    core::mem::forget(r);
    core::mem::forget(st);
}

// @harness props=C10 tier=quick kind=complete bound="none (loop-free, ids full u16)" fn=v5::MqttState::outgoing_puback+outgoing_pubrec+outgoing_disconnect covered_by=cstate5
#[kani::proof]
#[kani::unwind(@UNWIND@)]
fn v5_outgoing_acks() {
    let mut st = any_state(1, 0);
    let g = ghost(&st);
    let pkid: u16 = kani::any();
    let which: u8 = kani::any();
    kani::assume(which < 3);
    let r = if which == 0 {
        st.outgoing_puback(PubAck { pkid, reason: PubAckReason::Success, properties: None })
    } else if which == 1 {
        st.outgoing_pubrec(PubRec { pkid, reason: PubRecReason::Success, properties: None })
    } else {
        st.outgoing_disconnect(DisconnectReasonCode::NormalDisconnection)
    };
    let h = ghost(&st);
    assert!(h.events == g.events + 1, "C10 outgoing_acks.one_event");
    match (&r, which) {
        (Ok(Some(Packet::PubAck(a))), 0) => {
            assert!(a.pkid == pkid && matches!(st.events.back(), Some(Event::Outgoing(Outgoing::PubAck(x))) if *x == pkid), "C10 outgoing_acks.puback");
        }
        (Ok(Some(Packet::PubRec(a))), 1) => {
            assert!(a.pkid == pkid && matches!(st.events.back(), Some(Event::Outgoing(Outgoing::PubRec(x))) if *x == pkid), "C10 outgoing_acks.pubrec");
        }
        (Ok(Some(Packet::Disconnect(_))), 2) => {
            assert!(matches!(st.events.back(), Some(Event::Outgoing(Outgoing::Disconnect))), "C10 outgoing_acks.disconnect");
        }
        _ => assert!(false, "C10 outgoing_acks.kind"),
    }
    assert!(frame(&g, &h, NONE, NONE) && h.inflight == g.inflight && h.collision == g.collision, "C10 outgoing_acks.frame");
    core::mem::forget(r);
    core::mem::forget(st);
}

// ------------------------------------------------------------------------------------------
// subscribe / unsubscribe ids (C07)
// ------------------------------------------------------------------------------------------
// @harness props=C07,C10 tier=quick kind=bounded bound="one filter with empty path; table size max_inflight=2; last_pkid full domain under wf" fn=v5::MqttState::outgoing_subscribe+outgoing_unsubscribe covered_by=cstate5
#[kani::proof]
#[kani::unwind(@UNWIND@)]
fn v5_outgoing_sub_unsub() {
    let mut st = any_state(2, 0);
    let g = ghost(&st);
    kani::assume(wf_g(&st, &g));
    let which: bool = kani::any();
    let empty: bool = kani::any();
    let r = if which {
        let mut filters = Vec::with_capacity(1);
        if !empty {
            filters.push(super::super::mqttbytes::v5::Filter::new(String::new(), any_qos()));
        }
        st.outgoing_subscribe(Subscribe { pkid: kani::any(), filters, properties: None })
    } else {
        let mut topics = Vec::with_capacity(1);
        if !empty {
            topics.push(String::new());
        }
        st.outgoing_unsubscribe(Unsubscribe { pkid: kani::any(), filters: topics, properties: None })
    };
    let h = ghost(&st);
    match &r {
        Ok(Some(Packet::Subscribe(s))) => {
            assert!(which && !empty, "C10 sub.kind");
            assert!(s.pkid >= 1 && s.pkid <= st.max_outgoing_inflight && s.pkid == g.last_pkid + 1, "C07 subscribe.id_in_range_and_fresh");
            assert!(h.events == g.events + 1 && matches!(st.events.back(), Some(Event::Outgoing(Outgoing::Subscribe(x))) if *x == s.pkid), "C10 subscribe.event");
        }
        Ok(Some(Packet::Unsubscribe(u))) => {
            assert!(!which, "C10 unsub.kind");
            assert!(u.pkid >= 1 && u.pkid <= st.max_outgoing_inflight && u.pkid == g.last_pkid + 1, "C07 unsubscribe.id_in_range_and_fresh");
            assert!(h.events == g.events + 1 && matches!(st.events.back(), Some(Event::Outgoing(Outgoing::Unsubscribe(x))) if *x == u.pkid), "C10 unsubscribe.event");
        }
        Err(e) => {
            assert!(which && empty && matches!(e, StateError::EmptySubscription), "C10 subscribe.err_only_when_empty");
            assert!(h.events == g.events && h.last_pkid == g.last_pkid, "C10 subscribe.err_state_unchanged");
        }
        _ => assert!(false, "C10 sub_unsub.unexpected"),
    }
    assert!(frame(&g, &h, NONE, NONE) && h.inflight == g.inflight && h.collision == g.collision, "C07 sub_unsub.frame");
    assert!(wf_g(&st, &h), "C07 sub_unsub.wf");
    kani::cover!(matches!(&r, Ok(Some(Packet::Subscribe(s))) if s.pkid == 2), "subscribe takes last id");
    core::mem::forget(r);
    core::mem::forget(st);
}

// ------------------------------------------------------------------------------------------
// keep-alive flag protocol (C18, reduced scope: no timing)
// ------------------------------------------------------------------------------------------
// @harness props=C18 tier=quick kind=complete bound="none (loop-free; Instant::now stubbed)" fn=v5::MqttState::outgoing_ping+handle_incoming_pingresp covered_by=cstate5
#[kani::proof]
#[kani::unwind(@UNWIND@)]
#[kani::stub(std::time::Instant::now, stub_now)]
fn v5_ping_protocol() {
    let mut st = any_state(1, 0);
    let g = ghost(&st);
    let coll = st.collision.is_some();
    let cpc = st.collision_ping_count;
    kani::assume(cpc < 10);
    let awaiting = st.await_pingresp;
    let r = st.outgoing_ping();
    let h = ghost(&st);
    match &r {
        Ok(out) => {
            assert!(!awaiting, "C18 ping.unanswered_ping_is_reported");
            assert!(!(coll && cpc + 1 >= 2), "C18 ping.collision_timeout_reported");
            assert!(matches!(out, Some(Packet::PingReq(_))), "C18 ping.sends_pingreq");
            assert!(st.await_pingresp, "C18 ping.awaits_response");
            assert!(h.events == g.events + 1 && matches!(st.events.back(), Some(Event::Outgoing(Outgoing::PingReq))), "C10,C18 ping.one_event");
        }
        Err(e) => {
            assert!(awaiting || (coll && cpc + 1 >= 2), "C18 ping.err_only_if_unanswered_or_collision");
            if coll && cpc + 1 >= 2 {
                assert!(matches!(e, StateError::CollisionTimeout), "C18 ping.err_kind_collision");
            } else {
                assert!(matches!(e, StateError::AwaitPingResp), "C18 ping.err_kind_await");
            }
            assert!(h.events == g.events, "C10,C18 ping.err_no_event");
        }
    }
    // a response clears the flag: ping -> pingresp -> ping never errs (without a pending collision)
    let r2 = st.handle_incoming_pingresp();
    assert!(matches!(&r2, Ok(None)) && !st.await_pingresp, "C18 pingresp.clears_flag");
    if !coll {
        let r3 = st.outgoing_ping();
        assert!(matches!(&r3, Ok(Some(Packet::PingReq(_)))), "C18 ping.no_false_alarm_when_answered");
        core::mem::forget(r3);
    }
    assert!(frame(&g, &ghost(&st), NONE, NONE), "C18 ping.frame");
    kani::cover!(r.is_err() && awaiting, "second unanswered interval");
    core::mem::forget(r);
    core::mem::forget(r2);
    core::mem::forget(st);
}

// ------------------------------------------------------------------------------------------
// CONNACK: receive-maximum negotiated down (C07, v5 only)
// ------------------------------------------------------------------------------------------
// @steps name=v5_connack props=C07,C02 fn=v5::MqttState::handle_incoming_connack call=connack_step covered_by=cstate5
fn connack_step(n: usize) {
    let mut st = any_state(n, 0);
    let g = ghost(&st);
    kani::assume(wf_g(&st, &g));
    let old_max = st.max_outgoing_inflight;
    let old_alias = st.broker_topic_alias_max;
    let ok_code: bool = kani::any();
    let with_props: bool = kani::any();
    let receive_max: Option<u16> = kani::any();
    let topic_alias_max: Option<u16> = kani::any();
    let mut connack = ConnAck {
        session_present: kani::any(),
        code: if ok_code { ConnectReturnCode::Success } else { ConnectReturnCode::NotAuthorized },
        properties: None,
    };
    if with_props {
        connack.properties = Some(super::super::mqttbytes::v5::ConnAckProperties {
            session_expiry_interval: None,
            receive_max,
            max_qos: None,
            retain_available: None,
            max_packet_size: None,
            assigned_client_identifier: None,
            topic_alias_max,
            reason_string: None,
            user_properties: Vec::new(),
            wildcard_subscription_available: None,
            subscription_identifiers_available: None,
            shared_subscription_available: None,
            server_keep_alive: None,
            response_information: None,
            server_reference: None,
            authentication_method: None,
            authentication_data: None,
        });
    }
    let r = st.handle_incoming_connack(&mut connack);
    let h = ghost(&st);
    match &r {
        Ok(out) => {
            assert!(ok_code && out.is_none(), "C07 connack.ok_only_on_success");
            let exp_max = match (with_props, receive_max) {
                (true, Some(m)) => if m == 0 { 1 } else if m < n as u16 { m } else { n as u16 },
                _ => old_max,
            };
            assert!(st.max_outgoing_inflight == exp_max, "C07 connack.window_is_min_of_receive_max_and_configured_at_least_1");
            let exp_alias = match (with_props, topic_alias_max) { (true, Some(a)) => a, _ => old_alias };
            assert!(st.broker_topic_alias_max == exp_alias, "C10 connack.alias_max");
        }
        Err(e) => {
            assert!(!ok_code && matches!(e, StateError::ConnFail { .. }), "C07 connack.err_only_on_refusal");
            assert!(st.max_outgoing_inflight == old_max, "C07 connack.err_state_unchanged");
        }
    }
    assert!(frame(&g, &h, NONE, NONE) && h.inflight == g.inflight && h.collision == g.collision, "C07 connack.frame");
    // the id counter is untouched unless it fell outside the (lowered) window, in which case the cycle restarts
    assert!(h.last_pkid == g.last_pkid || (g.last_pkid >= st.max_outgoing_inflight && h.last_pkid == 0), "C07 connack.id_counter");
    // the packet-id counter must stay below the (possibly lowered) window, and the window must be usable
    assert!(wf_g(&st, &h), "C07 connack.wf_after_receive_max");
    // a window of one cannot be lowered (zero is read as one), so the case only exists from two upwards
    kani::cover!(n == 1 || (r.is_ok() && st.max_outgoing_inflight < old_max), "window lowered");
    core::mem::forget(r);
    core::mem::forget(connack);
    core::mem::forget(st);
}
