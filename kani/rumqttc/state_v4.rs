// Kani harnesses for rumqttc/src/state.rs (MQTT 3.1.1 client state machine), unit U8.
// Included as a child module of `state` in a scratch copy of the workspace:
//     #[cfg(kani)] mod verif_kani { use super::*; include!(".../state_v4.rs"); }
// so private functions and fields of the real module are reachable without editing them.
//
// Style: inductive-step contracts.  `any_state()` ranges over ALL states with table size
// max_inflight <= NMAX (bound substituted by the driver: @NMAX@), `wf` is the representation
// invariant, every harness assumes `wf(pre)`, runs ONE real operation with full-domain symbolic
// arguments and asserts the operation's postcondition and `wf(post)`.  Bounded only in NMAX
// (and in topic/payload, which are empty: no handler inspects them).

use bytes::Bytes;

pub const NMAX: usize = @NMAX@;

fn stub_now() -> Instant {
    // FFI clock_gettime is not modelled by Kani; time values are never inspected by the obligations
    unsafe { core::mem::zeroed() }
}

fn any_qos() -> QoS {
    match kani::any::<u8>() % 3 {
        0 => QoS::AtMostOnce,
        1 => QoS::AtLeastOnce,
        _ => QoS::ExactlyOnce,
    }
}

fn any_publish() -> Publish {
    Publish {
        dup: kani::any(),
        qos: any_qos(),
        retain: kani::any(),
        topic: String::new(),
        pkid: kani::any(),
        payload: Bytes::new(),
    }
}

// NOTE (measured, CBMC 6.11): an `Option<Publish>` that is the *value* of a conditional
// expression (`if c { Some(p) } else { None }`, `opt.map(..)`) makes goto-symex abort with
// "l2_rename_rvalues case `struct' not handled" once the real handlers `take()` it.  Writing the
// two variants into memory in separate branches is fine, so symbolic options are always built
// by assignment inside a branch.

/// every MqttState whose tables have exactly n + 1 entries, max_inflight == n (other fields free)
fn any_state(n: usize, incoming_cap: usize) -> MqttState {
    let max: u16 = n as u16;
    let mut outgoing_pub = Vec::with_capacity(n + 1);
    let mut outgoing_rel = FixedBitSet::with_capacity(n + 1);
    let mut i = 0;
    while i <= n {
        if kani::any() {
            outgoing_pub.push(Some(any_publish()));
        } else {
            outgoing_pub.push(None);
        }
        if kani::any() {
            outgoing_rel.insert(i);
        }
        i += 1;
    }
    let mut incoming_pub = FixedBitSet::with_capacity(incoming_cap);
    let mut j = 0;
    while j < incoming_cap {
        if kani::any() {
            incoming_pub.insert(j);
        }
        j += 1;
    }
    let mut st = MqttState {
        await_pingresp: kani::any(),
        collision_ping_count: kani::any(),
        last_incoming: stub_now(),
        last_outgoing: stub_now(),
        last_pkid: kani::any(),
        last_puback: kani::any(),
        inflight: kani::any(),
        max_inflight: max,
        outgoing_pub,
        outgoing_rel,
        incoming_pub,
        collision: None,
        events: VecDeque::with_capacity(8),
        manual_acks: kani::any(),
    };
    if kani::any() {
        st.collision = Some(any_publish());
    }
    st
}

/// scalar summary of a table slot / parked publish (topic and payload are empty in these harnesses)
#[derive(Clone, Copy, PartialEq, Eq)]
struct Slot {
    some: bool,
    pkid: u16,
    qos: u8,
    dup: bool,
    retain: bool,
}

fn summ(o: &Option<Publish>) -> Slot {
    match o {
        None => Slot { some: false, pkid: 0, qos: 0, dup: false, retain: false },
        Some(p) => summ_p(p),
    }
}

fn summ_p(p: &Publish) -> Slot {
    Slot { some: true, pkid: p.pkid, qos: p.qos as u8, dup: p.dup, retain: p.retain }
}

const TMAX: usize = 8;

/// ghost copy of the bookkeeping that obligations compare against
struct Ghost {
    n: usize,
    slots: [Slot; TMAX],
    rel: [bool; TMAX],
    collision: Slot,
    inflight: u16,
    last_pkid: u16,
    last_puback: u16,
    events: usize,
    await_pingresp: bool,
}

fn ghost(st: &MqttState) -> Ghost {
    let none = Slot { some: false, pkid: 0, qos: 0, dup: false, retain: false };
    let mut slots = [none; TMAX];
    let mut rel = [false; TMAX];
    let n = st.outgoing_pub.len() - 1;
    let mut i = 0;
    while i < TMAX {
        if i > n {
            break;
        }
        slots[i] = summ(&st.outgoing_pub[i]);
        rel[i] = st.outgoing_rel.contains(i);
        i += 1;
    }
    Ghost {
        n,
        slots,
        rel,
        collision: summ(&st.collision),
        inflight: st.inflight,
        last_pkid: st.last_pkid,
        last_puback: st.last_puback,
        events: st.events.len(),
        await_pingresp: st.await_pingresp,
    }
}

fn held_count(g: &Ghost) -> usize {
    let mut c = 0;
    let mut i = 0;
    while i < TMAX {
        if i > g.n {
            break;
        }
        if g.slots[i].some {
            c += 1;
        }
        if g.rel[i] {
            c += 1;
        }
        i += 1;
    }
    c
}

/// representation invariant of MqttState (derived from the code, see DESIGN.md §3/C02), evaluated on
/// the ghost summary `g == ghost(st)`
fn wf_g(st: &MqttState, g: &Ghost) -> bool {
    let n = st.max_inflight as usize;
    if n < 1 || st.outgoing_pub.len() != n + 1 || st.outgoing_rel.len() != n + 1 {
        return false;
    }
    if g.slots[0].some || g.rel[0] {
        return false;
    }
    let mut i = 1;
    while i < TMAX {
        if i > n {
            break;
        }
        if g.slots[i].some && (g.slots[i].pkid as usize != i || g.slots[i].qos == 0) {
            return false;
        }
        i += 1;
    }
    if g.inflight as usize != held_count(g) {
        return false;
    }
    if g.last_pkid >= st.max_inflight || g.last_puback > st.max_inflight {
        return false;
    }
    if g.collision.some {
        let k = g.collision.pkid as usize;
        if k < 1 || k > n || g.collision.qos == 0 {
            return false;
        }
        if !(g.slots[k].some || g.rel[k]) {
            return false;
        }
    }
    true
}

/// all slots other than `except` and all release bits other than `except_rel` are unchanged
fn frame(g: &Ghost, h: &Ghost, except: usize, except_rel: usize) -> bool {
    let mut i = 0;
    while i < TMAX {
        if i > g.n {
            break;
        }
        if i != except && g.slots[i] != h.slots[i] {
            return false;
        }
        if i != except_rel && g.rel[i] != h.rel[i] {
            return false;
        }
        i += 1;
    }
    true
}

const NONE: usize = usize::MAX;

// ------------------------------------------------------------------------------------------
// next_pkid: function contract, all max_inflight >= 1 (no table involved) — complete
// ------------------------------------------------------------------------------------------
#[kani::proof]
fn v4_next_pkid_contract() {
    // state without tables: next_pkid touches last_pkid / max_inflight only
    let mut st = MqttState {
        await_pingresp: false,
        collision_ping_count: 0,
        last_incoming: stub_now(),
        last_outgoing: stub_now(),
        last_pkid: kani::any(),
        last_puback: 0,
        inflight: 0,
        max_inflight: kani::any(),
        outgoing_pub: Vec::new(),
        outgoing_rel: FixedBitSet::with_capacity(0),
        incoming_pub: FixedBitSet::with_capacity(0),
        collision: None,
        events: VecDeque::new(),
        manual_acks: false,
    };
    kani::assume(st.max_inflight >= 1 && st.last_pkid < st.max_inflight);
    let old = st.last_pkid;
    let max = st.max_inflight;
    let r = st.next_pkid();
    assert!(r >= 1 && r <= max, "C07 next_pkid.range");
    assert!(r == old + 1, "C07 next_pkid.successor");
    assert!(st.last_pkid < max, "C07 next_pkid.wf");
    assert!(st.last_pkid == if r == max { 0 } else { r }, "C07 next_pkid.wrap");
    kani::cover!(r == max, "wrap-around reachable");
    kani::cover!(r == 1 && max == u16::MAX, "max limit reachable");
    core::mem::forget(st);
}

// ------------------------------------------------------------------------------------------
// PUBACK
// ------------------------------------------------------------------------------------------
fn puback_step(n: usize) {
    let mut st = any_state(n, 0);
    let g = ghost(&st);
    kani::assume(wf_g(&st, &g));
    let pkid: u16 = kani::any();
    let r = st.handle_incoming_puback(&PubAck { pkid });
    let h = ghost(&st);
    let k = pkid as usize;
    match &r {
        Ok(out) => {
            assert!(k >= 1 && k <= n && g.slots[k].some, "C10 puback.ok_only_if_solicited");
            match out {
                None => {
                    assert!(!h.slots[k].some, "C02 puback.removes_acked_slot");
                    assert!(h.inflight == g.inflight - 1, "C07 puback.inflight_dec");
                    assert!(h.collision == g.collision, "C02 puback.collision_kept");
                    assert!(h.events == g.events, "C10 puback.no_event_without_write");
                }
                Some(Packet::Publish(p)) => {
                    // a parked (collision) publish with this id is released by the ack
                    assert!(g.collision.some && summ_p(p) == g.collision, "C02 puback.released_is_the_parked_one");
                    assert!(p.pkid == pkid, "C07 puback.released_id");
                    assert!(h.slots[k] == g.collision, "C02 puback.released_recorded");
                    assert!(!h.collision.some, "C07 puback.collision_cleared");
                    assert!(h.inflight == g.inflight, "C07 puback.inflight_same");
                    assert!(h.events == g.events + 1, "C10 puback.one_event");
                    assert!(matches!(st.events.back(), Some(Event::Outgoing(Outgoing::Publish(x))) if *x == pkid), "C10 puback.event_kind");
                    kani::cover!(true, "collision released by puback");
                }
                Some(_) => assert!(false, "C10 puback.unexpected_packet"),
            }
            assert!(frame(&g, &h, k, NONE), "C02 puback.frame");
        }
        Err(e) => {
            assert!(matches!(e, StateError::Unsolicited(x) if *x == pkid), "C10 puback.err_kind");
            assert!(k > n || !g.slots[k].some, "C10 puback.err_only_if_unsolicited");
            assert!(frame(&g, &h, NONE, NONE), "C10 puback.err_frame");
            assert!(h.inflight == g.inflight && h.collision == g.collision, "C10 puback.err_bookkeeping");
            assert!(h.events == g.events, "C10 puback.err_no_event");
        }
    }
    assert!(wf_g(&st, &h), "C02 puback.wf");
    kani::cover!(r.is_err() && k > n, "ack above table");
    core::mem::forget(r);
    core::mem::forget(st);
}

#[kani::proof]
#[kani::unwind(@UNWIND@)]
fn v4_puback_step_n1() {
    puback_step(1);
}

#[kani::proof]
#[kani::unwind(@UNWIND@)]
fn v4_puback_step_n2() {
    puback_step(2);
}

#[kani::proof]
#[kani::unwind(@UNWIND@)]
fn v4_puback_step_n3() {
    puback_step(3);
}
