// *** NOT REGISTERED (measured): any harness that reaches `parking_lot::Mutex::lock` (data_buffer.lock() inside
// push_forwards) makes the Kani 0.68 compiler panic at kani-compiler/src/intrinsics.rs:243 — the same ICE that rules
// out Router-level harnesses.  Kept as the written contract of the push side; the push side is exercised by the
// native router-level stand-in `outbound_window_is_bounded_unique_and_resumes_on_acks` instead. ***
//
// Unit U2b — `Outgoing::push_forwards` (the push side of the outbound window: packet-id assignment and inflight
// registration), which is outside Verus (`impl Iterator` parameter, parking_lot lock).  Paired with the Verus unit
// `window` (ack side, WIN invariant).  Bounded: at most 2 forwards pushed onto a window of at most 2 entries whose
// position in the 1..=100 id cycle is fully symbolic (so the wrap at 100 is inside the bound).

fn any_forward() -> Forward {
    Forward {
        cursor: if kani::any() { Some((kani::any(), kani::any())) } else { None },
        size: 0,
        publish: crate::protocol::Publish { dup: false, qos: crate::protocol::QoS::AtLeastOnce, pkid: kani::any(), retain: kani::any(), topic: bytes::Bytes::new(), payload: bytes::Bytes::new() },
        properties: None,
    }
}

fn succ(x: u16) -> u16 {
    if x == 100 { 1 } else { x + 1 }
}

// @harness props=C09,C01 tier=quick kind=bounded bound="window of <= 2 unacknowledged entries anywhere in the id cycle, <= 2 forwards pushed" fn=Outgoing::push_forwards+free_slots
#[kani::proof]
#[kani::unwind(5)]
fn push_forwards_assigns_consecutive_fresh_ids() {
    // `Outgoing::new` creates a flume channel, which makes the Kani 0.68 compiler panic (intrinsics.rs:243); the
    // handle is never touched by push_forwards / free_slots, so it is left as an (unusable) zeroed value and the
    // structure is never dropped.
    let mut o = Outgoing {
        client_id: String::new(),
        data_buffer: Arc::new(Mutex::new(VecDeque::with_capacity(4))),
        handle: unsafe { core::mem::zeroed() },
        inflight_buffer: VecDeque::with_capacity(4),
        unacked_pubrels: VecDeque::new(),
        last_pkid: 0,
        meter: Default::default(),
    };
    // a window satisfying WIN: `k` consecutive ids ending at the last id handed out
    let last: u16 = kani::any();
    kani::assume(last <= 99);
    let k: usize = kani::any();
    kani::assume(k <= 2);
    let newest = if last == 0 { 100 } else { last };
    if k == 2 {
        let older = if newest == 1 { 100 } else { newest - 1 };
        o.inflight_buffer.push_back((older, kani::any(), None));
    }
    if k >= 1 {
        o.inflight_buffer.push_back((newest, kani::any(), None));
    }
    o.last_pkid = last;
    let m: usize = kani::any();
    kani::assume(m <= 2);
    let qos: u8 = kani::any();
    kani::assume(qos <= 2);
    let filter_idx: usize = kani::any();
    let mut v = Vec::with_capacity(2);
    let mut i = 0;
    while i < m {
        v.push(any_forward());
        i += 1;
    }
    let free_before = o.free_slots();
    assert!(free_before == 100 - k, "C09 free_slots.is_100_minus_window");
    let (buffered, inflight) = o.push_forwards(v.into_iter(), qos, filter_idx);
    assert!(buffered == m, "C01 push_forwards.all_buffered");
    if qos == 0 {
        assert!(inflight == k && o.inflight_buffer.len() == k && o.last_pkid == last, "C09 push_forwards.qos0_outside_window");
    } else {
        assert!(inflight == k + m && o.inflight_buffer.len() == k + m, "C09 push_forwards.window_grows_by_pushed");
        // the ids handed out continue the cycle, are non-zero, and are recorded with filter and cursor
        let buf = o.data_buffer.lock();
        let mut expect = newest;
        if k == 0 {
            expect = if last == 0 { 100 } else { last };
        }
        let mut j = 0;
        while j < m {
            expect = if k == 0 && j == 0 { last + 1 } else { succ(expect) };
            match &buf[j] {
                Notification::Forward(f) => {
                    assert!(f.publish.pkid == expect && f.publish.pkid != 0 && f.publish.pkid <= 100, "C09 push_forwards.consecutive_nonzero_id");
                    let reg = o.inflight_buffer[k + j];
                    assert!(reg.0 == expect && reg.1 == filter_idx && reg.2 == f.cursor, "C09,C08 push_forwards.registered_with_filter_and_cursor");
                }
                _ => assert!(false, "C01 push_forwards.kind"),
            }
            j += 1;
        }
        assert!(o.last_pkid == if expect == 100 { 0 } else { expect } || m == 0, "C09 push_forwards.last_pkid_tracks_newest");
        kani::cover!(m == 2 && expect == 1, "wrap at 100 inside a push");
    }
    core::mem::forget(o);
}
