// Unit U1b — the contract of `Segment::readv` that the Verus unit `commitlog` ASSUMES (the body is an iterator
// chain outside the Verus subset), checked here on the real code.  Bounded in the segment length only
// (data.len() <= 3); cursor, len and absolute offset are full-domain u64 under the precondition Verus proves at
// both call sites (cursor.1 >= absolute_offset, absolute_offset + 2*len(data) <= u64::MAX).

#[derive(Clone, Copy, PartialEq, Eq)]
struct E(u8);

impl Storage for E {
    fn size(&self) -> usize {
        1
    }
}

// @harness props=C13,C01,C08 tier=quick kind=bounded bound="segment length <= 3; cursor, len, absolute offset full u64 under the stated precondition" fn=Segment::readv
#[kani::proof]
#[kani::unwind(6)]
fn seg_readv_contract() {
    let n: usize = kani::any();
    kani::assume(n <= 3);
    let abs: u64 = kani::any();
    kani::assume(abs <= u64::MAX - 6);
    let mut seg: Segment<E> = Segment { data: Vec::with_capacity(3), total_size: 0, absolute_offset: abs };
    let mut i = 0;
    while i < n {
        seg.data.push(E(kani::any()));
        i += 1;
    }
    let cursor: (u64, u64) = (kani::any(), kani::any());
    let len: u64 = kani::any();
    kani::assume(cursor.1 >= abs);
    // any count at all: "at most the requested count" includes u64::MAX ("everything")
    let mut out: Vec<(E, Offset)> = Vec::with_capacity(4);
    let r = seg.readv(cursor, len, &mut out);
    let idx = cursor.1 - abs;
    match r {
        Ok(pos) => {
            if idx >= n as u64 {
                assert!(out.len() == 0, "C13 seg_readv.nothing_beyond_end");
                assert!(matches!(pos, SegmentPosition::Done(x) if x == abs + n as u64), "C13 seg_readv.done_at_end");
            } else {
                let cnt = if len >= n as u64 - idx { n as u64 - idx } else { len };
                assert!(out.len() as u64 == cnt, "C13 seg_readv.count");
                let mut k = 0usize;
                while k < 3 {
                    if k as u64 >= cnt {
                        break;
                    }
                    assert!(out[k].0 == seg.data[idx as usize + k], "C13 seg_readv.entries_in_order");
                    assert!(out[k].1 == (cursor.0, cursor.1 + k as u64), "C13 seg_readv.own_offsets");
                    k += 1;
                }
                if len < n as u64 - idx {
                    assert!(matches!(pos, SegmentPosition::Next(x) if x == abs + idx + len), "C13 seg_readv.next_continuation");
                } else {
                    assert!(matches!(pos, SegmentPosition::Done(x) if x == abs + n as u64), "C13 seg_readv.done_when_exhausted");
                }
            }
        }
        Err(e) => {
            core::mem::forget(e);
            assert!(false, "C13 seg_readv.never_errs");
        }
    }
    kani::cover!(idx < n as u64 && len < n as u64 - idx, "partial read");
    kani::cover!(idx < n as u64 && len == 0, "zero-length read inside the segment");
    core::mem::forget(out);
    core::mem::forget(seg);
}
