// Kani harnesses for rumqttd/src/router/scheduler.rs — paired executable form of the Verus contracts in
// contracts/tracker.vspec (Verus gives no counterexample; and a rewrite of try_ready may leave the Verus
// subset), plus Scheduler::{reschedule,pause,poll} on the real Slab/VecDeque.

fn any_pause() -> PauseReason {
    match kani::any::<u8>() % 3 {
        0 => PauseReason::Caughtup,
        1 => PauseReason::InflightFull,
        _ => PauseReason::Busy,
    }
}

fn any_status() -> Status {
    if kani::any() { Status::Ready } else { Status::Paused(any_pause()) }
}

fn any_reason() -> ScheduleReason {
    match kani::any::<u8>() % 5 {
        0 => ScheduleReason::Init,
        1 => ScheduleReason::NewFilter,
        2 => ScheduleReason::FreshData,
        3 => ScheduleReason::IncomingAck,
        _ => ScheduleReason::Ready,
    }
}

fn wakes(p: PauseReason, reason: ScheduleReason) -> bool {
    match reason {
        ScheduleReason::Init | ScheduleReason::Ready => true,
        ScheduleReason::NewFilter => p == PauseReason::Caughtup,
        // fresh data also stands for replies waiting to be flushed (C06): it wakes everything but a busy link
        ScheduleReason::FreshData => p != PauseReason::Busy,
        ScheduleReason::IncomingAck => p != PauseReason::Busy,
    }
}

// @harness props=C09,C01,C06,C03 tier=quick kind=complete bound="none: all 4 states x 5 stimuli (loop-free)" fn=Tracker::try_ready
#[kani::proof]
fn tracker_try_ready_table() {
    let mut t = Tracker { id: String::new(), data_requests: VecDeque::new(), status: any_status() };
    let old = t.status;
    let reason = any_reason();
    // the debug_assert! guards of the body: Init / Ready are only sent to a connection parked as Busy (or already ready)
    kani::assume(!(reason == ScheduleReason::Init || reason == ScheduleReason::Ready) || old == Status::Ready || old == Status::Paused(PauseReason::Busy));
    let r = t.try_ready(reason);
    match old {
        Status::Ready => assert!(r.is_none() && t.status == Status::Ready, "C01 try_ready.ready_stays_ready_not_requeued"),
        Status::Paused(p) => {
            if wakes(p, reason) {
                assert!(r == Some(p) && t.status == Status::Ready, "C09,C01,C06 try_ready.wakes");
            } else {
                // not woken: must stay parked exactly as it was, so that the stimulus it waits for still wakes it
                assert!(r.is_none() && t.status == old, "C09,C01,C06 try_ready.stays_parked");
            }
        }
    }
    assert!(t.data_requests.len() == 0, "C01 try_ready.frame");
    kani::cover!(old == Status::Paused(PauseReason::InflightFull) && reason == ScheduleReason::IncomingAck && r.is_some(), "ack resumes a full window");
    kani::cover!(old == Status::Paused(PauseReason::Busy) && reason == ScheduleReason::IncomingAck && r.is_none(), "ack while busy waits for Ready");
    core::mem::forget(t);
}

// NOTE (measured): a second harness driving Scheduler::{reschedule,pause,poll} on the real Slab/VecDeque makes the
// Kani 0.68 compiler panic (kani-compiler/src/intrinsics.rs:243, same ICE as for Router::new) during reachability
// collection, for every harness of the crate.  The queue-level facts (a woken connection is queued exactly once,
// pause unqueues) are therefore exercised only by the native router-level stand-ins (native/rumqttd/router_model.rs).
