
#[cfg(test)]
mod hunt_4 {
    use super::mqttbytes::v5::*;
    use super::mqttbytes::*;
    use super::{Event, Incoming, MqttState, Outgoing};

    /// The broker delivers a QoS 2 publish (id 7), the client answers PUBREC 7, the broker releases
    /// id 7 with a PUBREL that carries reason code 0x92 (a broker that lost its record of the id
    /// does exactly this when the client's PUBREC arrives after a session mix-up).
    ///
    /// Correct behaviour (MQTT 5 §4.3.3, and property C10): a PUBREL for a known id is always
    /// answered with PUBCOMP 7, and that write is announced with Outgoing::PubComp(7).
    /// Observed: the id is forgotten, nothing is sent, the flow never completes on the broker side.
    #[test]
    fn pubrel_with_reason_code_for_a_known_id_is_answered_with_pubcomp() {
        let mut state = MqttState::new(10, false);

        let mut publish = Publish::new("a/b", QoS::ExactlyOnce, vec![1, 2, 3], None);
        publish.pkid = 7;
        let reply = state
            .handle_incoming_packet(Incoming::Publish(publish))
            .unwrap();
        assert_eq!(reply, Some(Packet::PubRec(PubRec::new(7, None))));

        let pubrel = PubRel {
            pkid: 7,
            reason: PubRelReason::PacketIdentifierNotFound,
            properties: None,
        };
        let reply = state.handle_incoming_packet(Incoming::PubRel(pubrel)).unwrap();
        println!("reply to PUBREL(7, 0x92) = {reply:?}");
        println!("events = {:?}", state.events);

        assert!(
            matches!(&reply, Some(Packet::PubComp(c)) if c.pkid == 7),
            "no PUBCOMP for the release of known id 7"
        );
        assert!(state
            .events
            .contains(&Event::Outgoing(Outgoing::PubComp(7))));
    }
}
