
#[cfg(test)]
mod hunt_8 {
    use super::*;
    use tokio_util::codec::{Decoder, Encoder};

    /// Two packets are encoded back to back into the same output buffer - exactly what
    /// `tokio_util::codec::Framed` does with its write buffer when two items are fed before a
    /// flush, and what `Packet::write(&mut BytesMut, ..)` invites.
    ///
    /// Correct behaviour: the buffer holds PINGREQ followed by a CONNECT that decodes to the
    /// packet that was encoded.
    /// Observed: `Connect::write` patches the connect-flags byte at an index counted from the
    /// START of the buffer (`buffer[flags_index]`), not from the start of the CONNECT frame. With
    /// two bytes already in the buffer it overwrites the 'T' of "MQTT" with the flags and leaves
    /// the real flags byte at "clean session" only: will and login are in the payload but not
    /// announced, the protocol name is destroyed.
    #[test]
    fn connect_encoded_after_another_packet_round_trips() {
        let mut connect = Connect::new("client");
        connect.set_login("user", "secret");
        connect.last_will = Some(LastWill::new("will/topic", "gone", QoS::AtLeastOnce, false));
        let connect = Packet::Connect(connect);

        let mut codec = Codec {
            max_incoming_size: 1024,
            max_outgoing_size: 1024,
        };

        // reference: the same packet in an empty buffer
        let mut alone = BytesMut::new();
        codec.encode(connect.clone(), &mut alone).unwrap();
        assert_eq!(codec.decode(&mut alone.clone()).unwrap(), Some(connect.clone()));

        let mut buffer = BytesMut::new();
        codec.encode(Packet::PingReq, &mut buffer).unwrap();
        codec.encode(connect.clone(), &mut buffer).unwrap();
        println!("alone    = {:02x?}", &alone[..16]);
        println!("appended = {:02x?}", &buffer[2..18]);

        assert_eq!(&buffer[2..], &alone[..], "the CONNECT frame depends on what was in the buffer before");

        assert_eq!(codec.decode(&mut buffer).unwrap(), Some(Packet::PingReq));
        let decoded = codec.decode(&mut buffer);
        println!("decoded  = {decoded:?}");
        assert_eq!(decoded.unwrap(), Some(connect));
    }
}
