
#[cfg(test)]
mod hunt_3 {
    use super::*;
    use crate::mqttbytes::v4::{ConnAck, ConnectReturnCode, PubAck};
    use crate::{AsyncClient, Outgoing, QoS};
    use bytes::BytesMut;
    use tokio::io::{AsyncReadExt, AsyncWriteExt};
    use tokio::net::{TcpListener, TcpStream};

    async fn read_packet(stream: &mut TcpStream, buf: &mut BytesMut) -> Option<Packet> {
        loop {
            match Packet::read(buf, 1 << 20) {
                Ok(p) => return Some(p),
                Err(crate::mqttbytes::Error::InsufficientBytes(_)) => {}
                Err(e) => panic!("broker side decode error {e:?}"),
            }
            if stream.read_buf(buf).await.ok()? == 0 {
                return None;
            }
        }
    }

    async fn send(stream: &mut TcpStream, packet: Packet) {
        let mut out = BytesMut::new();
        packet.write(&mut out, 1 << 20).unwrap();
        stream.write_all(&out).await.unwrap();
    }

    /// Connection 1: never acknowledges anything and drops the connection when told so.
    /// Later connections: fresh session (session present = false), acknowledge and report publishes.
    async fn broker(
        listener: TcpListener,
        drop_first: flume::Receiver<()>,
        seen: flume::Sender<Vec<u8>>,
    ) {
        let mut n = 0;
        loop {
            let (mut stream, _) = listener.accept().await.unwrap();
            n += 1;
            let mut buf = BytesMut::new();
            match read_packet(&mut stream, &mut buf).await {
                Some(Packet::Connect(_)) => {}
                other => panic!("expected CONNECT, got {other:?}"),
            }
            send(&mut stream, Packet::ConnAck(ConnAck::new(ConnectReturnCode::Success, false))).await;

            if n == 1 {
                loop {
                    tokio::select! {
                        _ = drop_first.recv_async() => break,
                        p = read_packet(&mut stream, &mut buf) => if p.is_none() { break },
                    }
                }
                drop(stream);
                continue;
            }

            while let Some(p) = read_packet(&mut stream, &mut buf).await {
                match p {
                    Packet::Publish(p) => {
                        seen.send(p.payload.to_vec()).unwrap();
                        if p.qos == QoS::AtLeastOnce {
                            send(&mut stream, Packet::PubAck(PubAck::new(p.pkid))).await;
                        }
                    }
                    Packet::PingReq => send(&mut stream, Packet::PingResp).await,
                    _ => {}
                }
            }
        }
    }

    /// Default options (clean session), inflight = 1. "one" is on the wire and unacknowledged, so
    /// the window is full; the user publishes "two" and "three" (QoS 1, `publish()` returns Ok),
    /// they wait in the request channel. The connection dies, the client reconnects.
    ///
    /// Correct behaviour: "two" and "three" were never transmitted and belong to no session; they
    /// are sent on the new connection (or at least an error is surfaced for them).
    /// Observed: `EventLoop::clean()` moves them from the request channel into `pending`, and
    /// `poll()` then clears `pending` because CONNACK says "no session present". Both are silently
    /// discarded; the event loop reports nothing.
    #[tokio::test(flavor = "current_thread")]
    async fn queued_requests_are_silently_discarded_by_a_reconnect_without_session() {
        let listener = TcpListener::bind("127.0.0.1:0").await.unwrap();
        let port = listener.local_addr().unwrap().port();
        let (drop_tx, drop_rx) = flume::bounded(1);
        let (seen_tx, seen_rx) = flume::unbounded();
        tokio::spawn(broker(listener, drop_rx, seen_tx));

        let mut options = MqttOptions::new("hunt-3", "127.0.0.1", port);
        options.set_inflight(1).set_keep_alive(Duration::from_secs(5));
        let (client, mut eventloop) = AsyncClient::new(options, 10);

        client.publish("a/b", QoS::AtLeastOnce, false, "one").await.unwrap();
        loop {
            match time::timeout(Duration::from_secs(5), eventloop.poll()).await.unwrap() {
                Ok(Event::Outgoing(Outgoing::Publish(1))) => break,
                Ok(_) => {}
                Err(e) => panic!("unexpected error: {e:?}"),
            }
        }

        // accepted by the client API, waiting behind the full window
        client.publish("a/b", QoS::AtLeastOnce, false, "two").await.unwrap();
        client.publish("a/b", QoS::AtLeastOnce, false, "three").await.unwrap();

        // the connection dies
        drop_tx.send(()).unwrap();
        let error = loop {
            if let Err(e) = eventloop.poll().await {
                break e;
            }
        };
        println!("connection error reported to the user: {error:?}");

        // reconnect and keep running for 3 seconds
        let mut events = Vec::new();
        let deadline = Instant::now() + Duration::from_secs(3);
        while let Ok(r) = time::timeout_at(deadline, eventloop.poll()).await {
            events.push(format!("{r:?}"));
        }

        let received: Vec<String> = seen_rx.drain().map(|p| String::from_utf8(p).unwrap()).collect();
        println!("events after the failure: {events:?}");
        println!("publishes received by the broker on the new connection: {received:?}");
        println!(
            "left in the client: pending = {}, inflight = {}",
            eventloop.pending.len(),
            eventloop.state.inflight
        );

        assert_eq!(
            received,
            vec!["two".to_owned(), "three".to_owned()],
            "publishes that were accepted but never transmitted must not vanish"
        );
    }
}
