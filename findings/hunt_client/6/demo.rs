
#[cfg(test)]
mod hunt_6 {
    use super::*;
    use crate::mqttbytes::v4::{ConnAck, ConnectReturnCode, Publish};
    use crate::{AsyncClient, QoS};
    use bytes::BytesMut;
    use tokio::io::{AsyncReadExt, AsyncWriteExt};
    use tokio::net::{TcpListener, TcpStream};

    async fn read_packet(stream: &mut TcpStream, buf: &mut BytesMut) -> Option<Packet> {
        loop {
            match Packet::read(buf, 1 << 20) {
                Ok(p) => return Some(p),
                Err(crate::mqttbytes::Error::InsufficientBytes(_)) => {}
                Err(e) => panic!("broker side decode error {e:?}"),
            }
            if stream.read_buf(buf).await.ok()? == 0 {
                return None;
            }
        }
    }

    /// Connection 1: CONNACK, then (when told so) one QoS 1 PUBLISH immediately followed by the
    /// end of the connection. Connection 2: CONNACK and nothing else.
    async fn broker(listener: TcpListener, go: flume::Receiver<()>) {
        for n in 1..=2 {
            let (mut stream, _) = listener.accept().await.unwrap();
            let mut buf = BytesMut::new();
            match read_packet(&mut stream, &mut buf).await {
                Some(Packet::Connect(_)) => {}
                other => panic!("expected CONNECT, got {other:?}"),
            }
            let mut out = BytesMut::new();
            Packet::ConnAck(ConnAck::new(ConnectReturnCode::Success, false))
                .write(&mut out, 1 << 20)
                .unwrap();
            stream.write_all(&out).await.unwrap();

            if n == 1 {
                go.recv_async().await.unwrap();
                let mut publish = Publish::new("a/b", QoS::AtLeastOnce, "last words");
                publish.pkid = 1;
                let mut out = BytesMut::new();
                Packet::Publish(publish).write(&mut out, 1 << 20).unwrap();
                stream.write_all(&out).await.unwrap();
                stream.shutdown().await.unwrap();
                // wait until the client has closed its side, then drop
                while read_packet(&mut stream, &mut buf).await.is_some() {}
            } else {
                while read_packet(&mut stream, &mut buf).await.is_some() {}
            }
        }
    }

    /// Wire history seen by the client:
    ///   connection 1: CONNACK, PUBLISH(id 1), <end of stream>
    ///   connection 2: CONNACK
    /// Correct behaviour: the user sees Incoming(ConnAck), Incoming(Publish 1), [Outgoing(PubAck 1)],
    /// Err(connection lost), Incoming(ConnAck) - packets in wire order - and no PUBACK is announced
    /// that was never written.
    /// Observed: the PUBLISH of connection 1 is reported only AFTER the CONNACK of connection 2,
    /// followed by Outgoing(PubAck(1)) for an acknowledgement that never left the client (its
    /// buffer was dropped with connection 1 and nothing is written on connection 2).
    #[tokio::test(flavor = "current_thread")]
    async fn packets_are_reported_in_wire_order_across_a_reconnect() {
        let listener = TcpListener::bind("127.0.0.1:0").await.unwrap();
        let port = listener.local_addr().unwrap().port();
        let (go_tx, go_rx) = flume::bounded(1);
        tokio::spawn(broker(listener, go_rx));

        let mut options = MqttOptions::new("hunt-6", "127.0.0.1", port);
        options.set_keep_alive(Duration::from_secs(5));
        let (_client, mut eventloop) = AsyncClient::new(options, 10);

        let mut seen = Vec::new();
        // first CONNACK
        seen.push(format!("{:?}", eventloop.poll().await));
        go_tx.send(()).unwrap();
        // let both the PUBLISH and the FIN arrive
        time::sleep(Duration::from_millis(300)).await;

        let deadline = Instant::now() + Duration::from_secs(2);
        while let Ok(r) = time::timeout_at(deadline, eventloop.poll()).await {
            seen.push(match r {
                Ok(Event::Incoming(Packet::Publish(p))) => format!("Incoming(Publish {})", p.pkid),
                Ok(Event::Incoming(Packet::ConnAck(_))) => "Incoming(ConnAck)".to_owned(),
                Ok(e) => format!("{e:?}"),
                Err(_) => "Err(connection lost)".to_owned(),
            });
        }
        println!("reported to the user: {seen:#?}");

        let publish_at = seen.iter().position(|e| e == "Incoming(Publish 1)").unwrap();
        let second_connack_at = seen.iter().rposition(|e| e == "Incoming(ConnAck)").unwrap();
        assert!(
            publish_at < second_connack_at,
            "PUBLISH of the old connection is reported after the CONNACK of the new connection"
        );
    }
}
