
#[cfg(test)]
mod hunt_10 {
    use super::*;
    use crate::link::local::{LinkBuilder, LinkRx};
    use crate::protocol::{Packet, PubRel, PubRelReason, Publish, PublishProperties, QoS};
    use crate::router::Ack;
    use crate::Notification;
    use std::time::{Duration, Instant};

    fn config() -> RouterConfig {
        RouterConfig {
            max_connections: 10,
            max_outgoing_packet_count: 100,
            max_segment_size: 1024 * 1024,
            max_segment_count: 10,
            custom_segment: None,
            initialized_filters: None,
            shared_subscriptions_strategy: Default::default(),
        }
    }

    fn next(rx: &mut LinkRx, what: &str) -> Notification {
        let deadline = Instant::now() + Duration::from_secs(2);
        loop {
            match rx.recv_deadline(deadline) {
                Ok(Some(Notification::Unschedule)) => rx.ready().unwrap(),
                Ok(Some(n)) => return n,
                Ok(None) => {}
                Err(e) => panic!("nothing arrived while waiting for {what}: {e:?}"),
            }
        }
    }

    fn alias(n: u16) -> Option<PublishProperties> {
        Some(PublishProperties {
            topic_alias: Some(n),
            ..Default::default()
        })
    }

    /// A MQTT 5 publisher establishes topic alias 1 with a QoS 2 publish ("a/b" + alias 1) and,
    /// as the protocol allows, uses the alias right away for its next publish (empty topic,
    /// alias 1, QoS 1) - the PUBREC/PUBREL exchange of the first message is still running.
    ///
    /// Correct behaviour: the alias mapping is established when the PUBLISH that carries it is
    /// received; both messages reach the subscriber under topic a/b.
    /// Observed: for QoS 2 the router parks the publish and only looks at the alias when the PUBREL
    /// arrives (`append_to_commitlog`), so the second publish finds no mapping and the publisher
    /// is disconnected with a protocol error; nothing is delivered.
    #[tokio::test(flavor = "current_thread")]
    async fn alias_established_by_a_qos2_publish_is_usable_immediately() {
        let router_tx = Router::new(0, config()).spawn();

        let (mut sub_tx, mut sub_rx, _) = LinkBuilder::new("sub", router_tx.clone()).build().unwrap();
        let (mut pub_tx, mut pub_rx, _) = LinkBuilder::new("pub", router_tx.clone()).build().unwrap();

        sub_tx.subscribe("a/b").unwrap();
        assert!(matches!(next(&mut sub_rx, "SUBACK"), Notification::DeviceAck(Ack::SubAck(_))));

        let first = Publish {
            dup: false,
            qos: QoS::ExactlyOnce,
            pkid: 1,
            retain: false,
            topic: "a/b".into(),
            payload: "first".into(),
        };
        let second = Publish {
            dup: false,
            qos: QoS::AtLeastOnce,
            pkid: 2,
            retain: false,
            topic: "".into(),
            payload: "second".into(),
        };
        pub_tx.send(Packet::Publish(first, alias(1))).await.unwrap();
        pub_tx.send(Packet::Publish(second, alias(1))).await.unwrap();

        // PUBREC 1 and PUBACK 2 are expected
        let mut got = Vec::new();
        let deadline = Instant::now() + Duration::from_secs(2);
        while got.len() < 2 {
            match pub_rx.recv_deadline(deadline) {
                Ok(Some(n)) => got.push(format!("{n:?}")),
                Ok(None) => {}
                Err(e) => {
                    got.push(format!("link closed by the router: {e:?}"));
                    break;
                }
            }
        }
        println!("publisher received: {got:#?}");
        assert!(
            got.iter().any(|n| n.contains("PubRec")) && got.iter().any(|n| n.contains("PubAck")),
            "publisher was disconnected for using the alias it had just established"
        );

        let release = PubRel { pkid: 1, reason: PubRelReason::Success };
        pub_tx.send(Packet::PubRel(release, None)).await.unwrap();

        let mut delivered = Vec::new();
        for _ in 0..2 {
            match next(&mut sub_rx, "two forwarded publishes") {
                Notification::Forward(f) => delivered.push((
                    String::from_utf8(f.publish.topic.to_vec()).unwrap(),
                    String::from_utf8(f.publish.payload.to_vec()).unwrap(),
                )),
                other => panic!("unexpected {other:?}"),
            }
        }
        delivered.sort();
        assert_eq!(
            delivered,
            vec![("a/b".to_owned(), "first".to_owned()), ("a/b".to_owned(), "second".to_owned())]
        );
    }
}
