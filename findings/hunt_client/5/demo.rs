
#[cfg(test)]
mod hunt_5 {
    use super::MqttState;
    use crate::mqttbytes::v4::*;
    use crate::mqttbytes::*;
    use crate::{Event, Incoming, Outgoing};

    /// Persistent session. The broker delivers a QoS 2 publish (id 5); the client answers PUBREC 5.
    /// The connection is lost before the broker's PUBREL arrives; `EventLoop::clean()` runs
    /// (`MqttState::clean()`), the client reconnects, the broker reports "session present" and
    /// - as MQTT requires and as rumqttd does (router/routing.rs, `pending_acks` -> `ackslog.pubrel`) -
    /// sends the outstanding PUBREL 5 again.
    ///
    /// Correct behaviour: id 5 is part of the client's session state (a QoS 2 message received but
    /// not completely acknowledged), so the release is answered with PUBCOMP 5.
    /// Observed: `clean()` wipes `incoming_pub`, the PUBREL is treated as unsolicited, the event
    /// loop tears the connection down, reconnects, receives the same PUBREL again, ... forever.
    #[test]
    fn release_of_a_received_qos2_publish_is_answered_after_a_reconnect() {
        let mut state = MqttState::new(10, false);

        let mut publish = Publish::new("a/b", QoS::ExactlyOnce, vec![1, 2, 3]);
        publish.pkid = 5;
        let reply = state
            .handle_incoming_packet(Incoming::Publish(publish))
            .unwrap();
        assert_eq!(reply, Some(Packet::PubRec(PubRec::new(5))));

        // connection lost, session kept (this is what EventLoop::clean() calls)
        let pending = state.clean();
        assert!(pending.is_empty());
        state.events.clear();

        let reply = state.handle_incoming_packet(Incoming::PubRel(PubRel::new(5)));
        println!("reply to the retransmitted PUBREL 5 = {reply:?}");

        assert!(
            matches!(&reply, Ok(Some(Packet::PubComp(c))) if c.pkid == 5),
            "the release of a known QoS 2 id is not answered with PUBCOMP"
        );
        assert!(state
            .events
            .contains(&Event::Outgoing(Outgoing::PubComp(5))));
    }
}
