
#[cfg(test)]
mod hunt_2 {
    use super::*;
    use crate::mqttbytes::v4::{ConnAck, ConnectReturnCode, PubAck};
    use crate::{AsyncClient, Outgoing, QoS};
    use bytes::BytesMut;
    use tokio::io::{AsyncReadExt, AsyncWriteExt};
    use tokio::net::{TcpListener, TcpStream};

    async fn read_packet(stream: &mut TcpStream, buf: &mut BytesMut) -> Option<Packet> {
        loop {
            match Packet::read(buf, 1 << 20) {
                Ok(p) => return Some(p),
                Err(crate::mqttbytes::Error::InsufficientBytes(_)) => {}
                Err(e) => panic!("broker side decode error {e:?}"),
            }
            if stream.read_buf(buf).await.ok()? == 0 {
                return None;
            }
        }
    }

    async fn send(stream: &mut TcpStream, packet: Packet) {
        let mut out = BytesMut::new();
        packet.write(&mut out, 1 << 20).unwrap();
        stream.write_all(&out).await.unwrap();
    }

    /// Scripted broker. Connection 1: acknowledges only the SECOND publish (id 2) and then, when
    /// told so, drops the connection. Every later connection: accepts the client with a fresh
    /// session, answers pings and reports every PUBLISH it receives.
    async fn broker(
        listener: TcpListener,
        drop_first: flume::Receiver<()>,
        seen: flume::Sender<(usize, Vec<u8>)>,
    ) {
        let mut n = 0;
        loop {
            let (mut stream, _) = listener.accept().await.unwrap();
            n += 1;
            let mut buf = BytesMut::new();
            match read_packet(&mut stream, &mut buf).await {
                Some(Packet::Connect(_)) => {}
                other => panic!("expected CONNECT, got {other:?}"),
            }
            send(&mut stream, Packet::ConnAck(ConnAck::new(ConnectReturnCode::Success, false))).await;

            if n == 1 {
                let mut publishes = 0;
                loop {
                    tokio::select! {
                        _ = drop_first.recv_async() => break,
                        p = read_packet(&mut stream, &mut buf) => match p {
                            Some(Packet::Publish(_)) => {
                                publishes += 1;
                                if publishes == 3 {
                                    send(&mut stream, Packet::PubAck(PubAck::new(2))).await;
                                }
                            }
                            Some(Packet::PingReq) => send(&mut stream, Packet::PingResp).await,
                            Some(_) => {}
                            None => break,
                        }
                    }
                }
                drop(stream);
                continue;
            }

            while let Some(p) = read_packet(&mut stream, &mut buf).await {
                match p {
                    Packet::Publish(p) => {
                        seen.send((n, p.payload.to_vec())).unwrap();
                        if p.qos == QoS::AtLeastOnce {
                            send(&mut stream, Packet::PubAck(PubAck::new(p.pkid))).await;
                        }
                    }
                    Packet::PingReq => send(&mut stream, Packet::PingResp).await,
                    _ => {}
                }
            }
        }
    }

    /// inflight = 3, default clean session. Publishes 1,2,3 are on the wire, the broker acknowledges
    /// id 2 first, the fourth publish is taken from the user, gets id 1 and is parked as a collision.
    /// Then the connection dies and the client reconnects (no session present).
    ///
    /// Correct behaviour: the parked publish is either handed back for (re)transmission or dropped
    /// together with the rest of the lost session, and the event loop serves user requests again.
    /// Observed: `clean()` keeps `state.collision`, although no slot holds id 1 any more. The
    /// collision can never be resolved, so the event loop never takes a user request again and only
    /// cycles through "collision timeout -> reconnect".
    #[tokio::test(flavor = "current_thread")]
    async fn parked_collision_survives_reconnect_and_blocks_the_event_loop_forever() {
        let listener = TcpListener::bind("127.0.0.1:0").await.unwrap();
        let port = listener.local_addr().unwrap().port();
        let (drop_tx, drop_rx) = flume::bounded(1);
        let (seen_tx, seen_rx) = flume::unbounded();
        tokio::spawn(broker(listener, drop_rx, seen_tx));

        let mut options = MqttOptions::new("hunt-2", "127.0.0.1", port);
        options.set_inflight(3).set_keep_alive(Duration::from_secs(1));
        let (client, mut eventloop) = AsyncClient::new(options, 10);

        for payload in ["one", "two", "three", "four"] {
            client.publish("a/b", QoS::AtLeastOnce, false, payload).await.unwrap();
        }

        // run until the fourth publish is parked
        loop {
            match time::timeout(Duration::from_secs(5), eventloop.poll()).await.unwrap() {
                Ok(Event::Outgoing(Outgoing::AwaitAck(1))) => break,
                Ok(_) => {}
                Err(e) => panic!("unexpected error before the collision: {e:?}"),
            }
        }
        assert!(eventloop.state.collision.is_some());

        // the connection dies
        drop_tx.send(()).unwrap();
        loop {
            if eventloop.poll().await.is_err() {
                break;
            }
        }

        // a new request from the user
        client.publish("a/b", QoS::AtLeastOnce, false, "five").await.unwrap();

        // keep the event loop running for 6 seconds (6 keep alive periods)
        let mut errors = Vec::new();
        let mut connacks = 0;
        let deadline = Instant::now() + Duration::from_secs(6);
        while Instant::now() < deadline {
            match time::timeout_at(deadline, eventloop.poll()).await {
                Ok(Ok(Event::Incoming(Packet::ConnAck(_)))) => connacks += 1,
                Ok(Ok(_)) => {}
                Ok(Err(e)) => errors.push(format!("{e:?}")),
                Err(_) => break,
            }
        }

        let received: Vec<(usize, String)> = seen_rx
            .drain()
            .map(|(n, p)| (n, String::from_utf8(p).unwrap()))
            .collect();
        println!("reconnects = {connacks}, errors = {errors:?}");
        println!("publishes received by the broker after the first connection = {received:?}");
        println!(
            "state: inflight = {}, collision = {:?}, slots in use = {}",
            eventloop.state.inflight,
            eventloop.state.collision,
            eventloop.state.outgoing_pub.iter().filter(|p| p.is_some()).count()
        );

        assert!(
            received.iter().any(|(_, p)| p == "five"),
            "the client never serves the user again: 'five' was not transmitted in 6 s on a healthy connection"
        );
    }
}
