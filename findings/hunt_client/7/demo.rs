
#[cfg(test)]
mod hunt_7 {
    use super::*;
    use crate::link::local::{LinkBuilder, LinkRx};
    use crate::protocol::{Packet, PubRel, PubRelProperties, PubRelReason, Publish, QoS};
    use crate::router::Ack;
    use crate::Notification;
    use std::time::{Duration, Instant};

    fn config() -> RouterConfig {
        RouterConfig {
            max_connections: 10,
            max_outgoing_packet_count: 100,
            max_segment_size: 1024 * 1024,
            max_segment_count: 10,
            custom_segment: None,
            initialized_filters: None,
            shared_subscriptions_strategy: Default::default(),
        }
    }

    fn next(rx: &mut LinkRx, what: &str) -> Notification {
        let deadline = Instant::now() + Duration::from_secs(2);
        loop {
            match rx.recv_deadline(deadline) {
                Ok(Some(Notification::Unschedule)) => rx.ready().unwrap(),
                Ok(Some(n)) => return n,
                Ok(None) => {}
                Err(e) => panic!("nothing arrived while waiting for {what}: {e:?}"),
            }
        }
    }

    /// A MQTT 5 publisher sends a QoS 2 message and releases it with a PUBREL that carries a
    /// property (a reason string - perfectly legal, MQTT 5 §3.6.2.2). A subscriber (any protocol
    /// version) is subscribed to the topic.
    ///
    /// Correct behaviour: the PUBREL is answered with PUBCOMP and the message is delivered.
    /// Observed: the router only matches `Packet::PubRel(pubrel, None)`; the same packet with
    /// `Some(properties)` falls into the catch-all arm ("Unexpected packet received, ignoring"),
    /// so the message is never delivered and the publisher never gets a PUBCOMP.
    #[tokio::test(flavor = "current_thread")]
    async fn qos2_publish_released_by_a_pubrel_with_properties_is_delivered() {
        let router_tx = Router::new(0, config()).spawn();

        let (mut sub_tx, mut sub_rx, _) = LinkBuilder::new("sub", router_tx.clone()).build().unwrap();
        let (mut pub_tx, mut pub_rx, _) = LinkBuilder::new("pub", router_tx.clone()).build().unwrap();

        sub_tx.subscribe("a/b").unwrap();
        assert!(matches!(next(&mut sub_rx, "SUBACK"), Notification::DeviceAck(Ack::SubAck(_))));

        let publish = Publish {
            dup: false,
            qos: QoS::ExactlyOnce,
            pkid: 1,
            retain: false,
            topic: "a/b".into(),
            payload: "hello".into(),
        };
        pub_tx.send(Packet::Publish(publish, None)).await.unwrap();
        assert!(matches!(next(&mut pub_rx, "PUBREC"), Notification::DeviceAck(Ack::PubRec(_))));

        let pubrel = PubRel { pkid: 1, reason: PubRelReason::Success };
        let properties = PubRelProperties {
            reason_string: Some("released".to_owned()),
            user_properties: vec![],
        };
        pub_tx.send(Packet::PubRel(pubrel, Some(properties))).await.unwrap();

        match next(&mut pub_rx, "PUBCOMP for the publisher") {
            Notification::DeviceAck(Ack::PubComp(c)) => assert_eq!(c.pkid, 1),
            other => panic!("expected PUBCOMP, got {other:?}"),
        }
        match next(&mut sub_rx, "the forwarded publish") {
            Notification::Forward(f) => assert_eq!(&f.publish.payload[..], b"hello"),
            other => panic!("expected the publish, got {other:?}"),
        }
    }
}
