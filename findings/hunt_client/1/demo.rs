
#[cfg(test)]
mod hunt_1 {
    use super::*;
    use crate::link::local::LinkBuilder;
    use crate::Notification;
    use std::collections::HashMap;
    use std::time::{Duration, Instant};

    fn config() -> RouterConfig {
        RouterConfig {
            max_connections: 10,
            max_outgoing_packet_count: 100,
            max_segment_size: 1024 * 1024,
            max_segment_count: 10,
            custom_segment: None,
            initialized_filters: None,
            shared_subscriptions_strategy: Default::default(),
        }
    }

    /// What a conforming MQTT 5 receiver does with (topic, alias): a non-empty topic (re)defines
    /// the alias, an empty topic is looked up.
    fn resolve(aliases: &mut HashMap<u16, Vec<u8>>, topic: &[u8], alias: Option<u16>) -> Vec<u8> {
        match (topic.is_empty(), alias) {
            (false, Some(a)) => {
                aliases.insert(a, topic.to_vec());
                topic.to_vec()
            }
            (false, None) => topic.to_vec(),
            (true, Some(a)) => aliases.get(&a).cloned().expect("unknown alias"),
            (true, None) => panic!("empty topic without alias"),
        }
    }

    fn collect(rx: &mut crate::link::local::LinkRx, n: usize, out: &mut Vec<(Vec<u8>, Option<u16>, Vec<u8>)>) {
        let deadline = Instant::now() + Duration::from_secs(5);
        while out.len() < n {
            match rx.recv_deadline(deadline) {
                Ok(Some(Notification::Forward(f))) => {
                    let alias = f.properties.as_ref().and_then(|p| p.topic_alias);
                    out.push((f.publish.topic.to_vec(), alias, f.publish.payload.to_vec()));
                }
                Ok(Some(Notification::Unschedule)) => rx.ready().unwrap(),
                Ok(_) => {}
                Err(e) => panic!("only {} of {} forwards arrived: {:?}", out.len(), n, e),
            }
        }
    }

    /// A v3.1.1-style publisher (no properties) publishes on a/b and a/c, a MQTT 5 subscriber that
    /// allows topic aliases (Topic Alias Maximum = 10) is subscribed to a/+.
    /// Correct behaviour: every delivered message resolves to the topic it was published on.
    #[test]
    fn wildcard_subscriber_with_topic_aliases_gets_the_published_topic() {
        let router_tx = Router::new(0, config()).spawn();

        let (mut sub_tx, mut sub_rx, _) = LinkBuilder::new("sub", router_tx.clone())
            .topic_alias_max(10)
            .build()
            .unwrap();
        let (mut pub_tx, _pub_rx, _) = LinkBuilder::new("pub", router_tx.clone()).build().unwrap();

        sub_tx.subscribe("a/+").unwrap();
        // wait for the SUBACK
        let deadline = Instant::now() + Duration::from_secs(5);
        loop {
            match sub_rx.recv_deadline(deadline).unwrap() {
                Some(Notification::DeviceAck(_)) => break,
                _ => continue,
            }
        }

        let mut got = Vec::new();

        // first batch: the alias is being established
        pub_tx.publish("a/b", "on-b-1").unwrap();
        pub_tx.publish("a/c", "on-c-1").unwrap();
        collect(&mut sub_rx, 2, &mut got);

        // second batch: the alias "already exists"
        pub_tx.publish("a/b", "on-b-2").unwrap();
        collect(&mut sub_rx, 3, &mut got);
        pub_tx.publish("a/c", "on-c-2").unwrap();
        collect(&mut sub_rx, 4, &mut got);

        let mut aliases = HashMap::new();
        let resolved: Vec<(String, String)> = got
            .iter()
            .map(|(topic, alias, payload)| {
                let t = resolve(&mut aliases, topic, *alias);
                (String::from_utf8(t).unwrap(), String::from_utf8(payload.clone()).unwrap())
            })
            .collect();

        println!("wire view (topic, alias, payload): {:?}", got
            .iter()
            .map(|(t, a, p)| (String::from_utf8_lossy(t).into_owned(), *a, String::from_utf8_lossy(p).into_owned()))
            .collect::<Vec<_>>());

        let expected = vec![
            ("a/b".to_owned(), "on-b-1".to_owned()),
            ("a/c".to_owned(), "on-c-1".to_owned()),
            ("a/b".to_owned(), "on-b-2".to_owned()),
            ("a/c".to_owned(), "on-c-2".to_owned()),
        ];
        assert_eq!(resolved, expected, "subscriber sees a message under a topic it was not published on");
    }
}
