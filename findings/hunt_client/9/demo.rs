
#[cfg(test)]
mod hunt_9 {
    use super::auth::{AuthProperties, AuthReasonCode};
    use super::*;

    /// AUTH is one of the packet types of the MQTT 5 client codec (`Packet::Auth`, written by
    /// `Packet::write`, sized by `Packet::size`).
    ///
    /// Correct behaviour: the declared remaining length / `size()` / the value returned by `write`
    /// equal the number of bytes written, and the frame decodes to the same packet.
    /// Observed: (a) `AuthProperties::len` forgets the two length-prefix bytes of every string
    /// (method, reason, both halves of a user property) and uses `len_len(data.len())` instead of
    /// 2 for the authentication data, so the frame's remaining length and property length are too
    /// small; (b) the decoder has no case for packet type 15, so even a correct AUTH frame is
    /// rejected with InvalidPacketType(15).
    #[test]
    fn auth_packet_round_trips() {
        let auth = Auth {
            code: AuthReasonCode::Continue,
            properties: Some(AuthProperties {
                method: Some("SCRAM-SHA-1".to_owned()),
                data: Some(Bytes::from_static(b"client-first")),
                reason: None,
                user_properties: vec![("k".to_owned(), "v".to_owned())],
            }),
        };
        let packet = Packet::Auth(auth);

        let mut buffer = BytesMut::new();
        let reported = packet.write(&mut buffer, None).unwrap();
        println!(
            "bytes written = {}, write() returned = {}, size() = {}, declared remaining length = {}",
            buffer.len(),
            reported,
            packet.size(),
            buffer[1]
        );
        println!("frame = {:02x?}", &buffer[..]);

        assert_eq!(reported, buffer.len(), "write() misreports the number of bytes");
        assert_eq!(packet.size(), buffer.len(), "size() misreports the number of bytes");
        assert_eq!(buffer[1] as usize, buffer.len() - 2, "declared remaining length is wrong");

        let decoded = Packet::read(&mut buffer, None);
        assert_eq!(decoded.unwrap(), packet);
    }

    /// Even the smallest AUTH (no properties), whose length IS computed correctly, cannot be read.
    #[test]
    fn minimal_auth_packet_round_trips() {
        let packet = Packet::Auth(Auth {
            code: AuthReasonCode::Success,
            properties: None,
        });
        let mut buffer = BytesMut::new();
        let reported = packet.write(&mut buffer, None).unwrap();
        assert_eq!(reported, buffer.len());
        assert_eq!(packet.size(), buffer.len());
        let decoded = Packet::read(&mut buffer, None);
        println!("decoded = {decoded:?}");
        assert_eq!(decoded.unwrap(), packet);
    }
}
