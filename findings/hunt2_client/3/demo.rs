
#[cfg(test)]
mod hunt_3 {
    // C11: after a connection failure the client retransmits every unacknowledged publish first
    // (before any request the user issued afterwards) and, for QoS 1 on the 3.1.1 client, in the
    // order the publishes were originally sent.
    //
    // History: m1, m2, m3 (QoS 1, ids 1, 2, 3) are in flight and a fourth request m4 waits in the
    // channel when connection #1 breaks. Connection #2 resumes the session, m1 and m2 are
    // retransmitted, then connection #2 breaks as well (before m3 is retransmitted).
    // Correct behaviour on connection #3: m1, m2, m3 (original order, original ids), then m4.
    // Observed: m3, m4, m1, m2 - `EventLoop::clean()` appends what connection #2 had in flight
    // BEHIND the part of `pending` that connection #2 had not got to yet.
    // (With `set_inflight(3)` instead of 4 it gets worse: m4 is given id 1 while m1 still waits
    // for its retransmission, the broker receives m3 (3), m4 (1), m2 (2) and m1 is parked as a
    // "collision" behind the PUBACK of m4.)
    use super::*;
    use crate::mqttbytes::v4::{ConnAck, ConnectReturnCode};
    use crate::mqttbytes::QoS;
    use crate::AsyncClient;
    use bytes::BytesMut;
    use std::sync::{Arc, Mutex};
    use tokio::io::{AsyncReadExt, AsyncWriteExt};
    use tokio::net::{TcpListener, TcpStream};

    async fn next_packet(socket: &mut TcpStream, buf: &mut BytesMut) -> Option<Packet> {
        loop {
            match Packet::read(buf, 1 << 20) {
                Ok(p) => return Some(p),
                Err(crate::mqttbytes::Error::InsufficientBytes(_)) => {}
                Err(e) => panic!("broker side decode error {e:?}"),
            }
            match socket.read_buf(buf).await {
                Ok(0) | Err(_) => return None,
                Ok(_) => {}
            }
        }
    }

    async fn send(socket: &mut TcpStream, packet: Packet) {
        let mut out = BytesMut::new();
        packet.write(&mut out, 1 << 20).unwrap();
        socket.write_all(&out).await.unwrap();
    }

    #[tokio::test]
    async fn second_failure_during_retransmission_keeps_the_order() {
        let listener = TcpListener::bind("127.0.0.1:0").await.unwrap();
        let port = listener.local_addr().unwrap().port();
        // (connection number, pkid, dup, payload) of every PUBLISH the broker received
        let seen: Arc<Mutex<Vec<(usize, u16, String)>>> = Arc::new(Mutex::new(Vec::new()));

        let log = seen.clone();
        tokio::spawn(async move {
            // connection 1 is closed after 3 publishes, connection 2 after 2, connection 3 stays.
            // The broker never acknowledges anything (it is allowed to be slow).
            for (connection, close_after) in [(1usize, 3usize), (2, 2), (3, usize::MAX)] {
                let (mut socket, _) = listener.accept().await.unwrap();
                let mut buf = BytesMut::new();
                let mut publishes = 0;
                while let Some(packet) = next_packet(&mut socket, &mut buf).await {
                    match packet {
                        Packet::Connect(_) => {
                            let connack = ConnAck::new(ConnectReturnCode::Success, connection > 1);
                            send(&mut socket, Packet::ConnAck(connack)).await
                        }
                        Packet::Publish(p) => {
                            let payload = String::from_utf8_lossy(&p.payload).into_owned();
                            log.lock().unwrap().push((connection, p.pkid, payload));
                            publishes += 1;
                            if publishes == close_after {
                                break;
                            }
                        }
                        _ => {}
                    }
                }
                drop(socket);
            }
        });

        let mut options = MqttOptions::new("hunt-3", "127.0.0.1", port);
        options
            .set_inflight(4)
            .set_clean_session(false)
            .set_keep_alive(Duration::from_secs(30))
            // retransmissions are spaced so that the broker's close is noticed in between
            .set_pending_throttle(Duration::from_millis(150));
        let (client, mut eventloop) = AsyncClient::new(options, 10);
        for i in 1..=4 {
            client.publish("hunt/topic", QoS::AtLeastOnce, false, format!("m{i}")).await.unwrap();
        }

        let start = Instant::now();
        let mut errors = 0;
        while start.elapsed() < Duration::from_secs(3) {
            // (the timeout has to be longer than the pending throttle: a cancelled poll restarts it)
            match time::timeout(Duration::from_millis(500), eventloop.poll()).await {
                Ok(Err(_)) => errors += 1,
                _ => {}
            }
            let on_third = seen.lock().unwrap().iter().filter(|(c, _, _)| *c == 3).count();
            if on_third >= 4 {
                break;
            }
        }

        let seen = seen.lock().unwrap().clone();
        for connection in 1..=3 {
            let on: Vec<_> = seen.iter().filter(|(c, _, _)| *c == connection).map(|(_, id, m)| (*id, m.as_str())).collect();
            println!("connection {connection}: broker received {on:?}");
        }
        assert_eq!(errors, 2, "setup: exactly two connection failures");
        let first: Vec<_> = seen.iter().filter(|(c, _, _)| *c == 1).map(|(_, id, m)| (*id, m.clone())).collect();
        let second: Vec<_> = seen.iter().filter(|(c, _, _)| *c == 2).map(|(_, id, m)| (*id, m.clone())).collect();
        assert_eq!(first, vec![(1, "m1".to_string()), (2, "m2".to_string()), (3, "m3".to_string())], "setup");
        assert_eq!(second, vec![(1, "m1".to_string()), (2, "m2".to_string())], "setup");

        let third: Vec<_> = seen.iter().filter(|(c, _, _)| *c == 3).map(|(_, _, m)| m.clone()).collect();
        assert_eq!(
            third,
            vec!["m1", "m2", "m3", "m4"],
            "C11: unacknowledged publishes go first and in their original order, the new request last"
        );
    }
}
