
#[cfg(test)]
mod hunt_1 {
    // C18: "with keep-alive zero it never pings".
    // A MQTT 5 broker may put `Server Keep Alive = 0` into its CONNACK; the client MUST use that
    // value instead of its own, and 0 means that the keep-alive mechanism is switched off.
    // Correct behaviour: the client sends no PINGREQ at all and reports no keep-alive failure.
    // Observed: `mqtt_connect` stores Duration::ZERO into `options.keep_alive`, the event loop
    // arms `time::sleep(ZERO)` unconditionally, so the client pings immediately, re-arms the
    // timer with `now + 0`, and the very next poll fails with `AwaitPingResp` although the
    // broker answers every PINGREQ at once.
    use super::*;
    use crate::v5::mqttbytes::v5::{ConnAck, ConnAckProperties, ConnectReturnCode, Packet, PingResp};
    use bytes::BytesMut;
    use std::sync::atomic::{AtomicUsize, Ordering};
    use std::sync::Arc;
    use tokio::io::{AsyncReadExt, AsyncWriteExt};
    use tokio::net::TcpListener;

    #[tokio::test]
    async fn server_keep_alive_zero_must_disable_pings() {
        let listener = TcpListener::bind("127.0.0.1:0").await.unwrap();
        let port = listener.local_addr().unwrap().port();
        let pings = Arc::new(AtomicUsize::new(0));
        let connects = Arc::new(AtomicUsize::new(0));

        let (p, c) = (pings.clone(), connects.clone());
        tokio::spawn(async move {
            loop {
                let (mut socket, _) = listener.accept().await.unwrap();
                let (p, c) = (p.clone(), c.clone());
                tokio::spawn(async move {
                    let mut buf = BytesMut::new();
                    loop {
                        match Packet::read(&mut buf, None) {
                            Ok(Packet::Connect(..)) => {
                                c.fetch_add(1, Ordering::SeqCst);
                                let props = ConnAckProperties {
                                    session_expiry_interval: None,
                                    receive_max: None,
                                    max_qos: None,
                                    retain_available: None,
                                    max_packet_size: None,
                                    assigned_client_identifier: None,
                                    topic_alias_max: None,
                                    reason_string: None,
                                    user_properties: vec![],
                                    wildcard_subscription_available: None,
                                    subscription_identifiers_available: None,
                                    shared_subscription_available: None,
                                    // keep-alive switched off by the server
                                    server_keep_alive: Some(0),
                                    response_information: None,
                                    server_reference: None,
                                    authentication_method: None,
                                    authentication_data: None,
                                };
                                let connack = ConnAck {
                                    session_present: false,
                                    code: ConnectReturnCode::Success,
                                    properties: Some(props),
                                };
                                let mut out = BytesMut::new();
                                Packet::ConnAck(connack).write(&mut out, None).unwrap();
                                socket.write_all(&out).await.unwrap();
                            }
                            Ok(Packet::PingReq(_)) => {
                                p.fetch_add(1, Ordering::SeqCst);
                                // the broker answers every ping immediately
                                let mut out = BytesMut::new();
                                Packet::PingResp(PingResp).write(&mut out, None).unwrap();
                                if socket.write_all(&out).await.is_err() {
                                    return;
                                }
                            }
                            Ok(_) => {}
                            Err(_) => match socket.read_buf(&mut buf).await {
                                Ok(0) | Err(_) => return,
                                Ok(_) => {}
                            },
                        }
                    }
                });
            }
        });

        let mut options = MqttOptions::new("hunt-1", "127.0.0.1", port);
        options.set_keep_alive(Duration::from_secs(5));
        let mut eventloop = EventLoop::new(options, 10);

        let mut keep_alive_failures = 0;
        let deadline = Instant::now() + Duration::from_millis(1500);
        while Instant::now() < deadline {
            match time::timeout(Duration::from_millis(100), eventloop.poll()).await {
                Ok(Err(ConnectionError::MqttState(StateError::AwaitPingResp))) => {
                    keep_alive_failures += 1
                }
                Ok(Err(e)) => panic!("unexpected error {e:?}"),
                _ => {}
            }
        }

        let pings = pings.load(Ordering::SeqCst);
        let connects = connects.load(Ordering::SeqCst);
        println!("in 1.5 s: {connects} connections, {pings} PINGREQ received by the broker, {keep_alive_failures} AwaitPingResp failures");
        assert_eq!(eventloop.options.keep_alive(), Duration::ZERO, "server keep alive adopted");
        assert_eq!(keep_alive_failures, 0, "keep-alive failure reported although keep-alive is off and the broker answers every ping");
        assert_eq!(pings, 0, "PINGREQ sent although the keep-alive is zero");
    }
}
