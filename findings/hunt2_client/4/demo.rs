
#[cfg(test)]
mod hunt_4 {
    // C02 (and the liveness half of C07): a publish the encoder refuses must not be recorded as
    // "in flight" and carried over to the next connection.
    //
    // History: MQTT 3.1.1 client with default options except `clean_session(false)`; the default
    // outgoing packet size limit is 10 KiB. The user publishes m1 (small), BIG (11 KiB), m2
    // (small), all QoS 1. The broker is perfectly healthy and acknowledges at once.
    // Correct behaviour: the oversized publish is refused once (an error for that request), it
    // occupies neither a packet id nor a window slot, and it is not replayed; m1 and m2 are
    // delivered and acknowledged and the connection stays up.
    // Observed: `outgoing_publish` stores BIG in `outgoing_pub` (inflight + 1) and only then the
    // codec refuses it (`OutgoingPacketTooLarge`); the error tears the connection down,
    // `clean()` moves BIG to `pending`, the resumed session replays it, it is refused again, ...
    // for ever: one reconnect per poll, m1 is re-sent on every connection and its PUBACK is
    // never processed because the connection is dropped right after.
    use super::*;
    use crate::mqttbytes::v4::{ConnAck, ConnectReturnCode, PubAck};
    use crate::mqttbytes::QoS;
    use crate::AsyncClient;
    use bytes::BytesMut;
    use std::sync::{Arc, Mutex};
    use tokio::io::{AsyncReadExt, AsyncWriteExt};
    use tokio::net::{TcpListener, TcpStream};

    async fn next_packet(socket: &mut TcpStream, buf: &mut BytesMut) -> Option<Packet> {
        loop {
            match Packet::read(buf, 1 << 20) {
                Ok(p) => return Some(p),
                Err(crate::mqttbytes::Error::InsufficientBytes(_)) => {}
                Err(e) => panic!("broker side decode error {e:?}"),
            }
            match socket.read_buf(buf).await {
                Ok(0) | Err(_) => return None,
                Ok(_) => {}
            }
        }
    }

    async fn send(socket: &mut TcpStream, packet: Packet) -> bool {
        let mut out = BytesMut::new();
        packet.write(&mut out, 1 << 20).unwrap();
        socket.write_all(&out).await.is_ok()
    }

    #[tokio::test]
    async fn refused_publish_is_not_replayed_for_ever() {
        let listener = TcpListener::bind("127.0.0.1:0").await.unwrap();
        let port = listener.local_addr().unwrap().port();
        // (connection number, pkid, payload length) of every PUBLISH the broker received
        let seen: Arc<Mutex<Vec<(usize, u16, usize)>>> = Arc::new(Mutex::new(Vec::new()));
        let connections = Arc::new(Mutex::new(0usize));

        let (log, count) = (seen.clone(), connections.clone());
        tokio::spawn(async move {
            loop {
                let (mut socket, _) = listener.accept().await.unwrap();
                let connection = {
                    let mut c = count.lock().unwrap();
                    *c += 1;
                    *c
                };
                let log = log.clone();
                tokio::spawn(async move {
                    let mut buf = BytesMut::new();
                    while let Some(packet) = next_packet(&mut socket, &mut buf).await {
                        let ok = match packet {
                            Packet::Connect(_) => {
                                // persistent session: present from the second connection on
                                let connack = ConnAck::new(ConnectReturnCode::Success, connection > 1);
                                send(&mut socket, Packet::ConnAck(connack)).await
                            }
                            Packet::Publish(p) => {
                                log.lock().unwrap().push((connection, p.pkid, p.payload.len()));
                                // healthy broker: immediate acknowledgement
                                send(&mut socket, Packet::PubAck(PubAck::new(p.pkid))).await
                            }
                            _ => true,
                        };
                        if !ok {
                            return;
                        }
                    }
                });
            }
        });

        let mut options = MqttOptions::new("hunt-4", "127.0.0.1", port);
        options.set_clean_session(false).set_keep_alive(Duration::from_secs(30));
        let (client, mut eventloop) = AsyncClient::new(options, 10);
        client.publish("hunt/topic", QoS::AtLeastOnce, false, vec![1u8; 10]).await.unwrap();
        client.publish("hunt/topic", QoS::AtLeastOnce, false, vec![2u8; 11 * 1024]).await.unwrap();
        client.publish("hunt/topic", QoS::AtLeastOnce, false, vec![3u8; 20]).await.unwrap();

        let mut too_large_errors = 0;
        let mut other_errors = 0;
        let mut pubacks = 0;
        let start = Instant::now();
        while start.elapsed() < Duration::from_millis(1500) {
            match time::timeout(Duration::from_millis(100), eventloop.poll()).await {
                Ok(Ok(Event::Incoming(Packet::PubAck(_)))) => pubacks += 1,
                Ok(Err(ConnectionError::MqttState(StateError::Deserialization(
                    crate::mqttbytes::Error::OutgoingPacketTooLarge { .. },
                )))) => too_large_errors += 1,
                Ok(Err(e)) => {
                    println!("other error: {e:?}");
                    other_errors += 1
                }
                _ => {}
            }
        }

        let seen = seen.lock().unwrap().clone();
        let connections = *connections.lock().unwrap();
        let m1_copies = seen.iter().filter(|(_, _, len)| *len == 10).count();
        let m2_copies = seen.iter().filter(|(_, _, len)| *len == 20).count();
        println!("in 1.5 s: {connections} connections, {too_large_errors} OutgoingPacketTooLarge errors, {other_errors} other errors");
        println!("broker received m1 {m1_copies} times, m2 {m2_copies} times; client processed {pubacks} PUBACKs");
        println!("state after the run: inflight = {}, pending = {}", eventloop.state.inflight, eventloop.pending.len());
        println!("first publishes seen by the broker (connection, pkid, len): {:?}", &seen[..seen.len().min(8)]);

        assert!(too_large_errors <= 1, "the refused publish is replayed and refused again and again ({too_large_errors} times)");
        assert!(connections <= 2, "the connection never stays up ({connections} connections in 1.5 s)");
    }
}
