
#[cfg(test)]
mod hunt_2 {
    // C07: "the event loop takes no new user request while the window is full or an id
    // collision is unresolved"; C02: an accepted QoS 1 publish is never silently dropped.
    //
    // History (well behaved broker, MQTT 3.1.1 client, inflight limit 2, persistent session):
    //   * the user queues five QoS 1 publishes m1..m5,
    //   * m1, m2 go out (window full), m3..m5 wait in the request channel,
    //   * the connection breaks; `EventLoop::clean()` moves m1, m2 AND the three requests still
    //     waiting in the channel into `pending`,
    //   * the next connection resumes the session; the broker is slow to acknowledge.
    // Correct behaviour: m1 and m2 are retransmitted, the window is full again, m3..m5 stay
    // queued until acknowledgements free the window, and in the end the broker has seen all five.
    // Observed: the request branch of `select()` is enabled whenever `pending` is not empty,
    // whatever the window says, so m3, m4, m5 are pulled while two publishes are unacknowledged;
    // each collides (ids 1, 2, 1) and replaces the one parked before it: m3 and m4 never reach
    // the broker.
    use super::*;
    use crate::mqttbytes::v4::{ConnAck, ConnectReturnCode, PubAck};
    use crate::mqttbytes::QoS;
    use crate::AsyncClient;
    use bytes::BytesMut;
    use std::sync::{Arc, Mutex};
    use tokio::io::{AsyncReadExt, AsyncWriteExt};
    use tokio::net::{TcpListener, TcpStream};

    async fn next_packet(socket: &mut TcpStream, buf: &mut BytesMut) -> Option<Packet> {
        loop {
            match Packet::read(buf, 1 << 20) {
                Ok(p) => return Some(p),
                Err(crate::mqttbytes::Error::InsufficientBytes(_)) => {}
                Err(e) => panic!("broker side decode error {e:?}"),
            }
            match socket.read_buf(buf).await {
                Ok(0) | Err(_) => return None,
                Ok(_) => {}
            }
        }
    }

    async fn send(socket: &mut TcpStream, packet: Packet) {
        let mut out = BytesMut::new();
        packet.write(&mut out, 1 << 20).unwrap();
        socket.write_all(&out).await.unwrap();
    }

    #[tokio::test]
    async fn requests_drained_from_the_channel_respect_the_window_after_resume() {
        let listener = TcpListener::bind("127.0.0.1:0").await.unwrap();
        let port = listener.local_addr().unwrap().port();
        // (connection number, pkid, payload) of every PUBLISH the broker received
        let seen: Arc<Mutex<Vec<(usize, u16, String)>>> = Arc::new(Mutex::new(Vec::new()));

        let log = seen.clone();
        tokio::spawn(async move {
            // first connection: fresh session, nothing is acknowledged, closed after two publishes
            let (mut socket, _) = listener.accept().await.unwrap();
            let mut buf = BytesMut::new();
            let mut publishes = 0;
            while let Some(packet) = next_packet(&mut socket, &mut buf).await {
                match packet {
                    Packet::Connect(_) => {
                        send(&mut socket, Packet::ConnAck(ConnAck::new(ConnectReturnCode::Success, false))).await
                    }
                    Packet::Publish(p) => {
                        log.lock().unwrap().push((1, p.pkid, String::from_utf8_lossy(&p.payload).into_owned()));
                        publishes += 1;
                        if publishes == 2 {
                            time::sleep(Duration::from_millis(100)).await;
                            break;
                        }
                    }
                    _ => {}
                }
            }
            drop(socket);

            // second connection: session present; the broker acknowledges (in order) only after
            // 700 ms, then immediately
            let (mut socket, _) = listener.accept().await.unwrap();
            let mut buf = BytesMut::new();
            let slow_until = Instant::now() + Duration::from_millis(700);
            let mut unacked: Vec<u16> = Vec::new();
            loop {
                let packet = if Instant::now() < slow_until {
                    match time::timeout_at(slow_until, next_packet(&mut socket, &mut buf)).await {
                        Ok(p) => p,
                        Err(_) => {
                            for pkid in unacked.drain(..) {
                                send(&mut socket, Packet::PubAck(PubAck::new(pkid))).await;
                            }
                            continue;
                        }
                    }
                } else {
                    next_packet(&mut socket, &mut buf).await
                };
                match packet {
                    Some(Packet::Connect(_)) => {
                        send(&mut socket, Packet::ConnAck(ConnAck::new(ConnectReturnCode::Success, true))).await
                    }
                    Some(Packet::Publish(p)) => {
                        log.lock().unwrap().push((2, p.pkid, String::from_utf8_lossy(&p.payload).into_owned()));
                        if Instant::now() < slow_until {
                            unacked.push(p.pkid);
                        } else {
                            send(&mut socket, Packet::PubAck(PubAck::new(p.pkid))).await;
                        }
                    }
                    Some(_) => {}
                    None => return,
                }
            }
        });

        let mut options = MqttOptions::new("hunt-2", "127.0.0.1", port);
        options.set_inflight(2).set_clean_session(false).set_keep_alive(Duration::from_secs(30));
        let (client, mut eventloop) = AsyncClient::new(options, 10);
        for i in 1..=5 {
            client.publish("hunt/topic", QoS::AtLeastOnce, false, format!("m{i}")).await.unwrap();
        }

        // poll until the first connection has failed and the session has been resumed
        let mut resumed = false;
        let mut errors = 0;
        let start = Instant::now();
        while !resumed && start.elapsed() < Duration::from_secs(3) {
            match time::timeout(Duration::from_millis(50), eventloop.poll()).await {
                Ok(Ok(Event::Incoming(Packet::ConnAck(c)))) if c.session_present => resumed = true,
                Ok(Err(_)) => errors += 1,
                _ => {}
            }
        }
        assert!(resumed && errors == 1, "setup: one failure, then a resumed session");
        assert_eq!(eventloop.pending.len(), 5, "setup: m1, m2 and the three requests from the channel are pending");

        // 400 ms on the resumed connection during which the broker acknowledges nothing
        let mut requests_taken_while_window_full = 0;
        let phase = Instant::now();
        while phase.elapsed() < Duration::from_millis(400) {
            let blocked = eventloop.state.inflight >= 2 || eventloop.state.collision.is_some();
            let queued = eventloop.pending.len();
            let _ = time::timeout(Duration::from_millis(20), eventloop.poll()).await;
            if blocked && eventloop.pending.len() < queued {
                requests_taken_while_window_full += 1;
            }
        }
        let still_queued = eventloop.pending.len();

        // now the broker acknowledges everything, let the client finish
        let phase = Instant::now();
        while phase.elapsed() < Duration::from_millis(1200) {
            let _ = time::timeout(Duration::from_millis(20), eventloop.poll()).await;
        }

        let seen = seen.lock().unwrap().clone();
        println!("PUBLISH packets received by the broker (connection, pkid, payload): {seen:?}");
        println!("requests taken while the window was full / a collision was pending: {requests_taken_while_window_full}");
        println!("requests still queued after 400 ms without acknowledgements: {still_queued} (expected 3)");
        let missing: Vec<String> = (1..=5)
            .map(|i| format!("m{i}"))
            .filter(|m| !seen.iter().any(|(_, _, payload)| payload == m))
            .collect();
        println!("publishes that never reached the broker: {missing:?}");

        assert_eq!(requests_taken_while_window_full, 0, "C07: requests taken although the window was full");
        assert!(missing.is_empty(), "C02: accepted QoS 1 publishes lost: {missing:?}");
    }
}
