
#[cfg(test)]
mod hunt_model5 {
    use super::*;
    use super::mqttbytes::v5::*;
    use super::mqttbytes::*;
    use super::Request;
    use std::collections::{HashMap, HashSet, VecDeque};

    struct R(u64);
    impl R {
        fn next(&mut self) -> u64 { self.0 ^= self.0 << 13; self.0 ^= self.0 >> 7; self.0 ^= self.0 << 17; self.0 }
        fn below(&mut self, n: usize) -> usize { (self.next() % n as u64) as usize }
    }

    #[derive(Debug, Clone, PartialEq)]
    enum Stage { Sent, Released }
    #[derive(Debug, Clone)]
    struct Wire { pkid: u16, msg: u32, qos: QoS, stage: Stage }

    fn msg_of(p: &Publish) -> u32 { u32::from_be_bytes([p.payload[0], p.payload[1], p.payload[2], p.payload[3]]) }

    struct Sim {
        max: u16,
        upper: u16,
        state: MqttState,
        pending: VecDeque<Request>,
        channel: VecDeque<Request>,
        wire: Vec<Wire>,
        // msgs accepted (handed to state) and not finally acked -> qos
        open: HashMap<u32, QoS>,
        // broker session: QoS2 msgs received (pkid -> msg) awaiting release
        log: Vec<String>,
        fixed_guard: bool,
        next_msg: u32,
        done: HashSet<u32>,
    }

    impl Sim {
        fn put_on_wire(&mut self, packet: Packet) -> Result<(), String> {
            match packet {
                Packet::Publish(p) => {
                    let msg = msg_of(&p);
                    self.log.push(format!("wire PUBLISH id {} msg {} {:?}", p.pkid, msg, p.qos));
                    if p.pkid == 0 || p.pkid > self.upper { return Err(format!("id {} out of range", p.pkid)); }
                    if self.pending.iter().any(|r| matches!(r, Request::PubRel(x) if x.pkid == p.pkid)) { return Err(format!("KNOWN-PUBCOMP (pending release) id {}", p.pkid)); }
                    if self.pending.iter().any(|r| matches!(r, Request::Publish(x) if x.pkid == p.pkid)) { return Err(format!("I7: fresh id {} equals the id of a publish still waiting for retransmission", p.pkid)); }
                    if let Some(w) = self.wire.iter().find(|w| w.pkid == p.pkid) {
                        if w.stage == Stage::Sent {
                            return Err(format!("I2: id {} used for msg {} while msg {} unacked on the same connection", p.pkid, msg, w.msg));
                        } else {
                            // known: fresh id not checked against ids awaiting PUBCOMP
                            return Err(format!("KNOWN-PUBCOMP id {}", p.pkid));
                        }
                    }
                    self.wire.push(Wire { pkid: p.pkid, msg, qos: p.qos, stage: Stage::Sent });
                    if self.wire.len() > self.max as usize { return Err(format!("I3: {} unacked on the wire > {}", self.wire.len(), self.max)); }
                }
                Packet::PubRel(r) => {
                    self.log.push(format!("wire PUBREL id {}", r.pkid));
                    match self.wire.iter_mut().find(|w| w.pkid == r.pkid) {
                        Some(w) => w.stage = Stage::Released,
                        None => {
                            if self.wire.iter().any(|w| w.pkid == r.pkid) { return Err(format!("KNOWN-PUBCOMP (release) id {}", r.pkid)); }
                            // retransmitted release after resume
                            self.wire.push(Wire { pkid: r.pkid, msg: u32::MAX, qos: QoS::ExactlyOnce, stage: Stage::Released });
                        }
                    }
                }
                other => return Err(format!("unexpected on wire {other:?}")),
            }
            Ok(())
        }

        fn held(&self, msg: u32) -> bool {
            let in_state = self.state.outgoing_pub.iter().flatten().any(|p| msg_of(p) == msg)
                || self.state.collision.as_ref().map(|p| msg_of(p) == msg).unwrap_or(false);
            let in_pending = self.pending.iter().any(|r| matches!(r, Request::Publish(p) if msg_of(p) == msg));
            in_state || in_pending
        }

        fn check(&self, released_msgs: &HashMap<u32, u16>) -> Result<(), String> {
            for (msg, _qos) in self.open.iter() {
                if self.held(*msg) { continue; }
                // QoS2 after PUBREC: the release must be held
                if let Some(pkid) = released_msgs.get(msg) {
                    let rel_held = self.state.outgoing_rel.contains(*pkid as usize)
                        || self.pending.iter().any(|r| matches!(r, Request::PubRel(x) if x.pkid == *pkid));
                    if rel_held { continue; }
                    return Err(format!("I1: release of msg {msg} (id {pkid}) not held"));
                }
                return Err(format!("I1: msg {msg} neither in flight nor held for retransmission"));
            }
            if let Some(c) = &self.state.collision {
                let slot = self.state.outgoing_pub[c.pkid as usize].is_some() || self.state.outgoing_rel.contains(c.pkid as usize);
                if !slot { return Err(format!("I5: collision on id {} but nothing holds that id", c.pkid)); }
            }
            let counted = self.state.outgoing_pub.iter().flatten().count() + self.state.outgoing_rel.count_ones(..);
            if counted != self.state.inflight as usize { return Err(format!("I6: inflight counter {} but {} held", self.state.inflight, counted)); }
            Ok(())
        }
    }

    fn run(seed: u64, max: u16, fixed_guard: bool, in_order_broker: bool) -> Result<(), (String, Vec<String>)> {
        let mut r = R(seed | 1);
        let mut sim = Sim { max, upper: max, state: MqttState::new(max, false), pending: VecDeque::new(), channel: VecDeque::new(), wire: vec![], open: HashMap::new(), log: vec![], fixed_guard, next_msg: 1, done: HashSet::new() };
        let mut released: HashMap<u32, u16> = HashMap::new();
        macro_rules! bail { ($e:expr) => { return Err(($e, sim.log.clone())) } }
        for _step in 0..400 {
            match r.below(10) {
                0 | 1 | 2 => {
                    if sim.channel.len() < 6 {
                        let qos = if r.below(3) == 0 { QoS::ExactlyOnce } else { QoS::AtLeastOnce };
                        let msg = sim.next_msg; sim.next_msg += 1;
                        sim.channel.push_back(Request::Publish(Publish::new("t", qos, msg.to_be_bytes().to_vec(), None)));
                    }
                }
                3 | 4 | 5 => {
                    let full = sim.state.inflight >= sim.state.max_outgoing_inflight;
                    let collision = sim.state.collision.is_some();
                    let enabled = if fixed_guard { !full && !collision } else { !sim.pending.is_empty() || (!full && !collision) };
                    if !enabled { continue; }
                    let request = if let Some(x) = sim.pending.pop_front() { x } else if let Some(x) = sim.channel.pop_front() { x } else { continue };
                    if let Request::Publish(p) = &request { sim.open.insert(msg_of(p), p.qos); sim.log.push(format!("take msg {} id {} (inflight {} collision {})", msg_of(p), p.pkid, sim.state.inflight, collision)); }
                    match sim.state.handle_outgoing_packet(request) {
                        Ok(Some(packet)) => if let Err(e) = sim.put_on_wire(packet) { bail!(e) },
                        Ok(None) => sim.log.push("  -> parked (collision)".into()),
                        Err(e) => bail!(format!("state error on outgoing: {e:?}")),
                    }
                    sim.state.events.clear();
                }
                6 | 7 | 8 => {
                    if sim.wire.is_empty() { continue; }
                    let idx = if in_order_broker { 0 } else { r.below(sim.wire.len()) };
                    let w = sim.wire[idx].clone();
                    let incoming = match (w.qos, &w.stage) {
                        (QoS::AtLeastOnce, _) => { sim.wire.remove(idx); sim.open.remove(&w.msg); sim.done.insert(w.msg); Packet::PubAck(PubAck::new(w.pkid, None)) }
                        (_, Stage::Sent) => { released.insert(w.msg, w.pkid); Packet::PubRec(PubRec::new(w.pkid, None)) }
                        (_, Stage::Released) => {
                            sim.wire.remove(idx);
                            let msg = released.iter().find(|(_, id)| **id == w.pkid).map(|(m, _)| *m);
                            if let Some(m) = msg { released.remove(&m); sim.open.remove(&m); sim.done.insert(m); }
                            Packet::PubComp(PubComp::new(w.pkid, None))
                        }
                    };
                    sim.log.push(format!("broker -> {incoming:?}"));
                    match sim.state.handle_incoming_packet(incoming) {
                        Ok(Some(packet)) => if let Err(e) = sim.put_on_wire(packet) { bail!(e) },
                        Ok(None) => {}
                        Err(e) => bail!(format!("state error on incoming: {e:?}")),
                    }
                    sim.state.events.clear();
                }
                _ => {
                    // connection failure + resume (session present)
                    sim.log.push("--- connection lost, session resumed".into());
                    let carried = sim.state.clean();
                    if fixed_guard {
                        // finding 3 fix: what was in flight goes in front
                        let mut q: VecDeque<Request> = carried.into();
                        q.extend(sim.pending.drain(..));
                        sim.pending = q;
                    } else {
                        sim.pending.extend(carried);
                    }
                    sim.pending.extend(sim.channel.drain(..));
                    sim.wire.clear();
                    let rm = [1u16, 2, 3, 5, 9][r.below(5)];
                    let props = ConnAckProperties { session_expiry_interval: None, receive_max: Some(rm), max_qos: None, retain_available: None, max_packet_size: None, assigned_client_identifier: None, topic_alias_max: None, reason_string: None, user_properties: vec![], wildcard_subscription_available: None, subscription_identifiers_available: None, shared_subscription_available: None, server_keep_alive: None, response_information: None, server_reference: None, authentication_method: None, authentication_data: None };
                    let connack = ConnAck { session_present: true, code: ConnectReturnCode::Success, properties: Some(props) };
                    sim.log.push(format!("connack receive_max {rm}"));
                    sim.state.handle_incoming_packet(Packet::ConnAck(connack)).unwrap();
                    sim.state.events.clear();
                    sim.max = sim.state.max_outgoing_inflight;
                }
            }
            if let Err(e) = sim.check(&released) { bail!(e) }
        }
        Ok(())
    }

    #[test]
    fn explore() {
        for fixed_guard in [true, false] {
            for in_order in [true, false] {
                let mut kinds: HashMap<String, (u64, u16, Vec<String>)> = HashMap::new();
                let mut runs = 0;
                for seed in 1..4000u64 {
                    for max in [1u16, 2, 3, 5] {
                        runs += 1;
                        if let Err((e, log)) = run(seed * 7919, max, fixed_guard, in_order) {
                            if e.starts_with("KNOWN") { continue; }
                            let key: String = e.chars().take(6).collect();
                            kinds.entry(key).or_insert((seed, max, { let mut l = log; l.push(e); l }));
                        }
                    }
                }
                println!("#### fixed_guard={fixed_guard} in_order_broker={in_order}: {runs} runs, failure kinds: {}", kinds.len());
                for (k, (seed, max, log)) in kinds.iter() {
                    println!("--- kind {k:?} seed {seed} max {max}");
                    for l in log.iter().rev().take(14).collect::<Vec<_>>().into_iter().rev() { println!("    {l}"); }
                }
            }
        }
    }
}
