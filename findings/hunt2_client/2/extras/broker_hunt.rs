
#[cfg(test)]
mod hunt {
    use super::*;
    use rand::{rngs::StdRng, Rng, SeedableRng};

    fn s(r: &mut StdRng) -> String {
        let n = match r.gen_range(0..10) {
            0 => 0,
            1 => r.gen_range(100..300),
            _ => r.gen_range(0..12),
        };
        let alphabet: Vec<char> = "ab/+#$ \u{0}é漢𝄞z".chars().collect();
        (0..n).map(|_| alphabet[r.gen_range(0..alphabet.len())]).collect()
    }
    fn b(r: &mut StdRng) -> Bytes {
        let n = match r.gen_range(0..10) {
            0 => 0,
            1 => r.gen_range(100..300),
            _ => r.gen_range(0..12),
        };
        Bytes::from((0..n).map(|_| r.gen::<u8>()).collect::<Vec<u8>>())
    }
    fn up(r: &mut StdRng) -> Vec<(String, String)> {
        (0..r.gen_range(0..3)).map(|_| (s(r), s(r))).collect()
    }
    fn o<T>(r: &mut StdRng, f: impl FnOnce(&mut StdRng) -> T) -> Option<T> {
        if r.gen_bool(0.5) { Some(f(r)) } else { None }
    }
    fn q(r: &mut StdRng) -> QoS {
        qos(r.gen_range(0..3)).unwrap()
    }
    fn pkid(r: &mut StdRng) -> u16 {
        match r.gen_range(0..4) { 0 => 1, 1 => 65535, _ => r.gen_range(1..=65535) }
    }
    fn payload(r: &mut StdRng) -> Bytes {
        let n = match r.gen_range(0..12) {
            0 => 0,
            1 => r.gen_range(100..140),
            2 => r.gen_range(16370..16400),
            _ => r.gen_range(0..40),
        };
        Bytes::from(vec![7u8; n])
    }

    fn gen_publish(r: &mut StdRng, v5: bool) -> Packet {
        let qos = q(r);
        let p = Publish {
            dup: qos != QoS::AtMostOnce && r.gen(),
            qos,
            pkid: if qos == QoS::AtMostOnce { 0 } else { pkid(r) },
            retain: r.gen(),
            topic: Bytes::from(s(r)),
            payload: payload(r),
        };
        let props = if v5 && r.gen() {
            let pp = PublishProperties {
                payload_format_indicator: o(r, |r| r.gen()),
                message_expiry_interval: o(r, |r| r.gen()),
                topic_alias: o(r, |r| r.gen()),
                response_topic: o(r, s),
                correlation_data: o(r, b),
                user_properties: up(r),
                subscription_identifiers: (0..r.gen_range(0..3)).map(|_| match r.gen_range(0..5) {0=>127,1=>128,2=>16384,3=>268_435_455,_=>r.gen_range(1..268_435_455)}).collect(),
                content_type: o(r, s),
            };
            if pp == PublishProperties::default() { None } else { Some(pp) }
        } else { None };
        Packet::Publish(p, props)
    }

    macro_rules! ackprops {
        ($r:expr, $t:ident) => {{
            let p = $t { reason_string: o($r, s), user_properties: up($r) };
            if p.reason_string.is_none() && p.user_properties.is_empty() { None } else { Some(p) }
        }};
    }

    fn gen(r: &mut StdRng, v5: bool) -> Packet {
        match r.gen_range(0..14) {
            0 => {
                let props = if v5 && r.gen() {
                    let p = ConnectProperties {
                        session_expiry_interval: o(r, |r| r.gen()),
                        receive_maximum: o(r, |r| r.gen()),
                        max_packet_size: o(r, |r| r.gen()),
                        topic_alias_max: o(r, |r| r.gen()),
                        request_response_info: o(r, |r| r.gen()),
                        request_problem_info: o(r, |r| r.gen()),
                        user_properties: up(r),
                        authentication_method: o(r, s),
                        authentication_data: o(r, b),
                    };
                    let empty = ConnectProperties { session_expiry_interval: None, receive_maximum: None, max_packet_size: None, topic_alias_max: None, request_response_info: None, request_problem_info: None, user_properties: vec![], authentication_method: None, authentication_data: None };
                    if p == empty { None } else { Some(p) }
                } else { None };
                let will = o(r, |r| LastWill { topic: Bytes::from(s(r)), message: b(r), qos: q(r), retain: r.gen() });
                let wp = if v5 && will.is_some() && r.gen() {
                    let p = LastWillProperties {
                        delay_interval: o(r, |r| r.gen()),
                        payload_format_indicator: o(r, |r| r.gen()),
                        message_expiry_interval: o(r, |r| r.gen()),
                        content_type: o(r, s),
                        response_topic: o(r, s),
                        correlation_data: o(r, b),
                        user_properties: up(r),
                    };
                    let empty = LastWillProperties { delay_interval: None, payload_format_indicator: None, message_expiry_interval: None, content_type: None, response_topic: None, correlation_data: None, user_properties: vec![] };
                    if p == empty { None } else { Some(p) }
                } else { None };
                let login = o(r, |r| {
                    let mut u = s(r); let mut p = s(r);
                    // the empty/empty login is known not to round trip
                    if u.is_empty() && p.is_empty() { u = "u".into(); }
                    if r.gen_bool(0.2) { p = String::new(); if u.is_empty() { u = "u".into(); } }
                    Login { username: u, password: p }
                });
                Packet::Connect(Connect { keep_alive: r.gen(), client_id: s(r), clean_session: r.gen() }, props, will, wp, login)
            }
            1 => {
                let code = if v5 {
                    [ConnectReturnCode::Success, ConnectReturnCode::UnspecifiedError, ConnectReturnCode::MalformedPacket, ConnectReturnCode::ProtocolError, ConnectReturnCode::ImplementationSpecificError, ConnectReturnCode::UnsupportedProtocolVersion, ConnectReturnCode::ClientIdentifierNotValid, ConnectReturnCode::BadUserNamePassword, ConnectReturnCode::NotAuthorized, ConnectReturnCode::ServerUnavailable, ConnectReturnCode::ServerBusy, ConnectReturnCode::Banned, ConnectReturnCode::BadAuthenticationMethod, ConnectReturnCode::TopicNameInvalid, ConnectReturnCode::PacketTooLarge, ConnectReturnCode::QuotaExceeded, ConnectReturnCode::PayloadFormatInvalid, ConnectReturnCode::RetainNotSupported, ConnectReturnCode::QoSNotSupported, ConnectReturnCode::UseAnotherServer, ConnectReturnCode::ServerMoved, ConnectReturnCode::ConnectionRateExceeded][r.gen_range(0..22)]
                } else {
                    [ConnectReturnCode::Success, ConnectReturnCode::RefusedProtocolVersion, ConnectReturnCode::ClientIdentifierNotValid, ConnectReturnCode::ServiceUnavailable, ConnectReturnCode::BadUserNamePassword, ConnectReturnCode::NotAuthorized][r.gen_range(0..6)]
                };
                let props = if v5 && r.gen() {
                    let p = ConnAckProperties {
                        session_expiry_interval: o(r, |r| r.gen()),
                        receive_max: o(r, |r| r.gen()),
                        max_qos: o(r, |r| r.gen()),
                        retain_available: o(r, |r| r.gen()),
                        max_packet_size: o(r, |r| r.gen()),
                        assigned_client_identifier: o(r, s),
                        topic_alias_max: o(r, |r| r.gen()),
                        reason_string: o(r, s),
                        user_properties: up(r),
                        wildcard_subscription_available: o(r, |r| r.gen()),
                        subscription_identifiers_available: o(r, |r| r.gen()),
                        shared_subscription_available: o(r, |r| r.gen()),
                        server_keep_alive: o(r, |r| r.gen()),
                        response_information: o(r, s),
                        server_reference: o(r, s),
                        authentication_method: o(r, s),
                        authentication_data: o(r, b),
                    };
                    if p == ConnAckProperties::default() { None } else { Some(p) }
                } else { None };
                Packet::ConnAck(ConnAck { session_present: r.gen(), code }, props)
            }
            2 => gen_publish(r, v5),
            3 => {
                let reasons = [PubAckReason::Success, PubAckReason::NoMatchingSubscribers, PubAckReason::UnspecifiedError, PubAckReason::ImplementationSpecificError, PubAckReason::NotAuthorized, PubAckReason::TopicNameInvalid, PubAckReason::PacketIdentifierInUse, PubAckReason::QuotaExceeded, PubAckReason::PayloadFormatInvalid];
                let reason = if v5 { reasons[r.gen_range(0..9)] } else { PubAckReason::Success };
                Packet::PubAck(PubAck { pkid: pkid(r), reason }, if v5 { ackprops!(r, PubAckProperties) } else { None })
            }
            4 => {
                let reasons = [PubRecReason::Success, PubRecReason::NoMatchingSubscribers, PubRecReason::UnspecifiedError, PubRecReason::ImplementationSpecificError, PubRecReason::NotAuthorized, PubRecReason::TopicNameInvalid, PubRecReason::PacketIdentifierInUse, PubRecReason::QuotaExceeded, PubRecReason::PayloadFormatInvalid];
                let reason = if v5 { reasons[r.gen_range(0..9)] } else { PubRecReason::Success };
                Packet::PubRec(PubRec { pkid: pkid(r), reason }, if v5 { ackprops!(r, PubRecProperties) } else { None })
            }
            5 => {
                let reason = if v5 && r.gen() { PubRelReason::PacketIdentifierNotFound } else { PubRelReason::Success };
                Packet::PubRel(PubRel { pkid: pkid(r), reason }, if v5 { ackprops!(r, PubRelProperties) } else { None })
            }
            6 => {
                let reason = if v5 && r.gen() { PubCompReason::PacketIdentifierNotFound } else { PubCompReason::Success };
                Packet::PubComp(PubComp { pkid: pkid(r), reason }, if v5 { ackprops!(r, PubCompProperties) } else { None })
            }
            7 => {
                let filters = (0..r.gen_range(1..4)).map(|_| Filter {
                    path: s(r),
                    qos: q(r),
                    nolocal: v5 && r.gen(),
                    preserve_retain: v5 && r.gen(),
                    retain_forward_rule: if v5 { [RetainForwardRule::OnEverySubscribe, RetainForwardRule::OnNewSubscribe, RetainForwardRule::Never][r.gen_range(0..3)].clone() } else { RetainForwardRule::OnEverySubscribe },
                }).collect();
                let props = if v5 && r.gen() {
                    let p = SubscribeProperties { id: o(r, |r| match r.gen_range(0..5) {0=>127,1=>128,2=>16384,3=>268_435_455,_=>r.gen_range(1..268_435_455)}), user_properties: up(r) };
                    if p.id.is_none() && p.user_properties.is_empty() { None } else { Some(p) }
                } else { None };
                Packet::Subscribe(Subscribe { pkid: pkid(r), filters }, props)
            }
            8 => {
                let v5codes = [SubscribeReasonCode::QoS0, SubscribeReasonCode::QoS1, SubscribeReasonCode::QoS2, SubscribeReasonCode::Unspecified, SubscribeReasonCode::ImplementationSpecific, SubscribeReasonCode::NotAuthorized, SubscribeReasonCode::TopicFilterInvalid, SubscribeReasonCode::PkidInUse, SubscribeReasonCode::QuotaExceeded, SubscribeReasonCode::SharedSubscriptionsNotSupported, SubscribeReasonCode::SubscriptionIdNotSupported, SubscribeReasonCode::WildcardSubscriptionsNotSupported];
                let v4codes = [SubscribeReasonCode::Success(QoS::AtMostOnce), SubscribeReasonCode::Success(QoS::AtLeastOnce), SubscribeReasonCode::Success(QoS::ExactlyOnce), SubscribeReasonCode::Failure];
                let return_codes = (0..r.gen_range(1..4)).map(|_| if v5 { v5codes[r.gen_range(0..12)] } else { v4codes[r.gen_range(0..4)] }).collect();
                Packet::SubAck(SubAck { pkid: pkid(r), return_codes }, if v5 { ackprops!(r, SubAckProperties) } else { None })
            }
            9 => {
                let filters = (0..r.gen_range(1..4)).map(|_| s(r)).collect();
                let props = if v5 && r.gen() { let u = up(r); if u.is_empty() { None } else { Some(UnsubscribeProperties { user_properties: u }) } } else { None };
                Packet::Unsubscribe(Unsubscribe { pkid: pkid(r), filters }, props)
            }
            10 => {
                let rs = [UnsubAckReason::Success, UnsubAckReason::NoSubscriptionExisted, UnsubAckReason::UnspecifiedError, UnsubAckReason::ImplementationSpecificError, UnsubAckReason::NotAuthorized, UnsubAckReason::TopicFilterInvalid, UnsubAckReason::PacketIdentifierInUse];
                let reasons = if v5 { (0..r.gen_range(1..4)).map(|_| rs[r.gen_range(0..7)]).collect() } else { vec![] };
                Packet::UnsubAck(UnsubAck { pkid: pkid(r), reasons }, if v5 { ackprops!(r, UnsubAckProperties) } else { None })
            }
            11 => Packet::PingReq(PingReq),
            12 => Packet::PingResp(PingResp),
            _ => {
                if v5 {
                    let codes = [DisconnectReasonCode::NormalDisconnection, DisconnectReasonCode::DisconnectWithWillMessage, DisconnectReasonCode::UnspecifiedError, DisconnectReasonCode::MalformedPacket, DisconnectReasonCode::ProtocolError, DisconnectReasonCode::ImplementationSpecificError, DisconnectReasonCode::NotAuthorized, DisconnectReasonCode::ServerBusy, DisconnectReasonCode::ServerShuttingDown, DisconnectReasonCode::KeepAliveTimeout, DisconnectReasonCode::SessionTakenOver, DisconnectReasonCode::TopicFilterInvalid, DisconnectReasonCode::TopicNameInvalid, DisconnectReasonCode::ReceiveMaximumExceeded, DisconnectReasonCode::TopicAliasInvalid, DisconnectReasonCode::PacketTooLarge, DisconnectReasonCode::MessageRateTooHigh, DisconnectReasonCode::QuotaExceeded, DisconnectReasonCode::AdministrativeAction, DisconnectReasonCode::PayloadFormatInvalid, DisconnectReasonCode::RetainNotSupported, DisconnectReasonCode::QoSNotSupported, DisconnectReasonCode::UseAnotherServer, DisconnectReasonCode::ServerMoved, DisconnectReasonCode::SharedSubscriptionNotSupported, DisconnectReasonCode::ConnectionRateExceeded, DisconnectReasonCode::MaximumConnectTime, DisconnectReasonCode::SubscriptionIdentifiersNotSupported, DisconnectReasonCode::WildcardSubscriptionsNotSupported];
                    let props = if r.gen() {
                        let p = DisconnectProperties { session_expiry_interval: o(r, |r| r.gen()), reason_string: o(r, s), user_properties: up(r), server_reference: o(r, s) };
                        if p.session_expiry_interval.is_none() && p.reason_string.is_none() && p.user_properties.is_empty() && p.server_reference.is_none() { None } else { Some(p) }
                    } else { None };
                    Packet::Disconnect(Disconnect { reason_code: codes[r.gen_range(0..codes.len())] }, props)
                } else {
                    Packet::Disconnect(Disconnect { reason_code: DisconnectReasonCode::NormalDisconnection }, None)
                }
            }
        }
    }

    fn rd(v5: bool, buf: &mut BytesMut, max: usize) -> Result<Packet, Error> {
        if v5 { v5::V5.read_mut(buf, max) } else { v4::V4.read_mut(buf, max) }
    }
    fn wr(v5: bool, p: Packet, buf: &mut BytesMut) -> Result<usize, Error> {
        if v5 { v5::V5.write(p, buf) } else { v4::V4.write(p, buf) }
    }

    #[test]
    fn roundtrip_random() {
        for v5 in [false, true] {
            let mut r = StdRng::seed_from_u64(42 + v5 as u64);
            let mut fails = 0;
            for i in 0..30000 {
                let p = gen(&mut r, v5);
                let mut buf = BytesMut::new();
                let prefix = r.gen_range(0..3usize);
                buf.extend_from_slice(&vec![0xEE; prefix]);
                let n = match wr(v5, p.clone(), &mut buf) {
                    Ok(n) => n,
                    Err(e) => { println!("v5={v5} #{i} write error {e:?} for {p:?}"); fails += 1; continue; }
                };
                let _ = buf.split_to(prefix);
                if n != buf.len() { println!("v5={v5} #{i} size {n} != written {} for {p:?}", buf.len()); fails += 1; continue; }
                let total = buf.len();
                // trailing next frame
                buf.extend_from_slice(&[0xC0, 0x00]);
                let whole = buf.clone();
                match rd(v5, &mut buf, 1 << 28) {
                    Ok(back) => {
                        if back != p { println!("v5={v5} #{i} MISMATCH\n  in  {p:?}\n  out {back:?}"); fails += 1; }
                        if buf.len() != 2 { println!("v5={v5} #{i} consumed {} of {total}", whole.len() - buf.len()); fails += 1; }
                    }
                    Err(e) => { println!("v5={v5} #{i} read error {e:?} for {p:?} bytes {:?}", &whole[..whole.len().min(64)]); fails += 1; }
                }
                // chunking: a few prefixes
                if total < 600 {
                    for k in 0..total {
                        let mut part = BytesMut::from(&whole[..k]);
                        match rd(v5, &mut part, 1 << 28) {
                            Err(Error::InsufficientBytes(n)) => {
                                if n == 0 || n > total - k { println!("v5={v5} #{i} split {k}/{total}: hint {n}"); fails += 1; }
                                if part.len() != k { println!("v5={v5} #{i} split {k}: consumed"); fails += 1; }
                            }
                            other => { println!("v5={v5} #{i} split {k}/{total}: {other:?} for {p:?}"); fails += 1; }
                        }
                    }
                }
                if fails > 20 { break; }
            }
            assert_eq!(fails, 0);
        }
    }

    #[test]
    fn fuzz_mutations() {
        use std::panic::{catch_unwind, AssertUnwindSafe};
        for v5 in [false, true] {
            let mut r = StdRng::seed_from_u64(7 + v5 as u64);
            let mut fails = 0;
            for i in 0..60000 {
                let p = gen(&mut r, v5);
                let mut buf = BytesMut::new();
                if wr(v5, p.clone(), &mut buf).is_err() { continue; }
                if buf.len() > 700 { continue; }
                let mut bytes = buf.to_vec();
                // mutate
                for _ in 0..r.gen_range(1..4) {
                    let idx = r.gen_range(0..bytes.len());
                    match r.gen_range(0..4) {
                        0 => bytes[idx] = r.gen(),
                        1 => bytes[idx] ^= 1 << r.gen_range(0..8),
                        2 => { bytes.remove(idx); }
                        _ => bytes.insert(idx, r.gen()),
                    }
                    if bytes.is_empty() { bytes.push(0); }
                }
                // follow by a sentinel frame
                let sentinel = [0xD0u8, 0x00];
                let mut all = bytes.clone();
                all.extend_from_slice(&sentinel);
                all.extend_from_slice(&sentinel);
                let mut whole = BytesMut::from(&all[..]);
                let res = catch_unwind(AssertUnwindSafe(|| rd(v5, &mut whole, 1000)));
                let res = match res { Ok(x) => x, Err(_) => { println!("v5={v5} #{i} PANIC on {:?}", all); fails += 1; continue; } };
                let consumed = all.len() - whole.len();
                // declared frame
                let declared = {
                    let chk = if v5 { v5::check(all.iter(), 1000).map(|h| h.frame_length()) } else { v4::check(all.iter(), 1000).map(|h| h.frame_length()) };
                    chk
                };
                match (&res, &declared) {
                    (Err(Error::InsufficientBytes(_)), Ok(_)) => { println!("v5={v5} #{i} Insufficient for complete frame {:?}", all); fails += 1; }
                    (_, Ok(fl)) => { if consumed != *fl { println!("v5={v5} #{i} consumed {consumed} declared {fl} res {res:?} {:?}", all); fails += 1; } }
                    (Ok(_), Err(e)) => { println!("v5={v5} #{i} accepted though check says {e:?}"); fails += 1; }
                    (Err(_), Err(_)) => { if consumed != 0 { println!("v5={v5} #{i} consumed {consumed} on header error"); fails += 1; } }
                }
                // chunking independence
                if let Ok(fl) = declared {
                    for k in 0..fl.min(all.len()) {
                        let mut part = BytesMut::from(&all[..k]);
                        let pr = catch_unwind(AssertUnwindSafe(|| rd(v5, &mut part, 1000)));
                        match pr {
                            Ok(Err(Error::InsufficientBytes(n))) if n > 0 && n <= fl - k && part.len() == k => {}
                            // header errors may already be reported early
                            Ok(Err(e)) if res.as_ref().err() == Some(&e) && k < 5 => {}
                            other => { println!("v5={v5} #{i} split {k}/{fl} gives {other:?}, unsplit {res:?} bytes {:?}", &all[..fl]); fails += 1; break; }
                        }
                    }
                }
                if fails > 20 { break; }
            }
            assert_eq!(fails, 0);
        }
    }

    #[test]
    fn fuzz_raw() {
        use std::panic::{catch_unwind, AssertUnwindSafe};
        for v5 in [false, true] {
            let mut r = StdRng::seed_from_u64(99 + v5 as u64);
            for i in 0..300000 {
                let n = r.gen_range(0..40);
                let mut bytes: Vec<u8> = (0..n).map(|_| if r.gen_bool(0.5) { r.gen_range(0..6) } else { r.gen() }).collect();
                if n > 2 { bytes[0] = (r.gen_range(1..15u8) << 4) | if r.gen_bool(0.7) { 0 } else { r.gen_range(0..16) }; bytes[1] = r.gen_range(0..n as u8); }
                let mut whole = BytesMut::from(&bytes[..]);
                let res = catch_unwind(AssertUnwindSafe(|| rd(v5, &mut whole, 1000)));
                if res.is_err() { panic!("v5={v5} #{i} PANIC on {:?}", bytes); }
            }
        }
    }

    fn hex(b: &[u8]) -> String { b.iter().map(|x| format!("{:02x}", x)).collect() }
    fn unhex(s: &str) -> Vec<u8> { (0..s.len() / 2).map(|i| u8::from_str_radix(&s[2 * i..2 * i + 2], 16).unwrap()).collect() }

    fn interop_packets(v5: bool) -> Vec<Packet> {
        let mut r = StdRng::seed_from_u64(1234 + v5 as u64);
        (0..20000).map(|_| gen(&mut r, v5)).collect()
    }

    #[test]
    fn interop_gen() {
        for v5 in [false, true] {
            let mut out = String::new();
            for p in interop_packets(v5) {
                let mut buf = BytesMut::new();
                wr(v5, p, &mut buf).unwrap();
                out.push_str(&hex(&buf));
                out.push('\n');
            }
            std::fs::write(format!("/tmp/wt-E2/scratch/b_v{}.hex", if v5 { 5 } else { 4 }), out).unwrap();
        }
    }

    #[test]
    fn interop_check() {
        let mut fails = 0;
        for v5 in [false, true] {
            let text = std::fs::read_to_string(format!("/tmp/wt-E2/scratch/c_v{}.hex", if v5 { 5 } else { 4 })).unwrap();
            let lines: Vec<&str> = text.lines().collect();
            let packets = interop_packets(v5);
            assert_eq!(lines.len(), packets.len());
            for (i, (p, line)) in packets.iter().zip(lines).enumerate() {
                if fails > 40 { break; }
                if line.starts_with("ERR") {
                    let mut buf = BytesMut::new();
                    wr(v5, p.clone(), &mut buf).unwrap();
                    println!("v5={v5} #{i} client: {line}\n   packet {p:?}\n   bytes {}", hex(&buf[..buf.len().min(80)]));
                    fails += 1;
                    continue;
                }
                let mut buf = BytesMut::from(&unhex(line)[..]);
                match rd(v5, &mut buf, 1 << 28) {
                    Ok(back) => {
                        if &back != p || !buf.is_empty() { println!("v5={v5} #{i} MISMATCH after client relay\n  in  {p:?}\n  out {back:?} left {}", buf.len()); fails += 1; }
                    }
                    Err(e) => { println!("v5={v5} #{i} broker cannot read client bytes: {e:?}\n  packet {p:?}\n  bytes {}", &line[..line.len().min(160)]); fails += 1; }
                }
            }
        }
        assert_eq!(fails, 0);
    }
}
