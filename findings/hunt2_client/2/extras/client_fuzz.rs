
#[cfg(test)]
mod hunt_fuzz {
    use bytes::BytesMut;
    use std::panic::{catch_unwind, AssertUnwindSafe};
    fn unhex(s: &str) -> Vec<u8> { (0..s.len() / 2).map(|i| u8::from_str_radix(&s[2 * i..2 * i + 2], 16).unwrap()).collect() }
    struct R(u64);
    impl R {
        fn next(&mut self) -> u64 { self.0 ^= self.0 << 13; self.0 ^= self.0 >> 7; self.0 ^= self.0 << 17; self.0 }
        fn below(&mut self, n: usize) -> usize { (self.next() % n as u64) as usize }
    }

    fn run(v5: bool) {
        let text = std::fs::read_to_string(format!("/tmp/wt-E2/scratch/b_v{}.hex", if v5 { 5 } else { 4 })).unwrap();
        let mut r = R(0x9E3779B97F4A7C15);
        let mut fails = 0;
        let rd = |buf: &mut BytesMut, max: usize| -> Result<String, String> {
            if v5 {
                use crate::v5::mqttbytes::v5::Packet;
                use crate::v5::mqttbytes::Error;
                match Packet::read(buf, Some(max as u32)) { Ok(p) => Ok(format!("{p:?}")), Err(Error::InsufficientBytes(n)) => Err(format!("INSUFFICIENT {n}")), Err(e) => Err(format!("{e:?}")) }
            } else {
                use crate::mqttbytes::v4::Packet;
                use crate::mqttbytes::Error;
                match Packet::read(buf, max) { Ok(p) => Ok(format!("{p:?}")), Err(Error::InsufficientBytes(n)) => Err(format!("INSUFFICIENT {n}")), Err(e) => Err(format!("{e:?}")) }
            }
        };
        // frame length by our own parse of the header
        let declared = |b: &[u8]| -> Option<usize> {
            let mut len = 0usize; let mut i = 1; let mut shift = 0;
            loop { if i >= b.len() || i > 4 { return None; } let x = b[i] as usize; len += (x & 0x7f) << shift; i += 1; if x & 0x80 == 0 { break; } shift += 7; }
            Some(i + len)
        };
        for (li, line) in text.lines().enumerate() {
            let orig = unhex(line);
            if orig.len() > 400 { continue; }
            for _ in 0..3 {
                let mut bytes = orig.clone();
                for _ in 0..1 + r.below(3) {
                    let idx = r.below(bytes.len());
                    match r.below(4) {
                        0 => bytes[idx] = r.next() as u8,
                        1 => bytes[idx] ^= 1 << r.below(8),
                        2 => { bytes.remove(idx); }
                        _ => bytes.insert(idx, r.next() as u8),
                    }
                    if bytes.is_empty() { bytes.push(0); }
                }
                let mut all = bytes.clone();
                all.extend_from_slice(&[0xD0, 0x00, 0xD0, 0x00]);
                let mut whole = BytesMut::from(&all[..]);
                let res = match catch_unwind(AssertUnwindSafe(|| rd(&mut whole, 1000))) {
                    Ok(x) => x,
                    Err(_) => { println!("v5={v5} line {li} PANIC on {:02x?}", all); fails += 1; continue; }
                };
                let consumed = all.len() - whole.len();
                let fl = declared(&all);
                match (&res, fl) {
                    (Err(e), Some(fl)) if e.starts_with("INSUFFICIENT") && fl <= all.len() => { println!("v5={v5} line {li} {e} for complete frame {:02x?}", &all[..fl]); fails += 1; }
                    (_, Some(fl)) if fl <= all.len() => {
                        if consumed != fl && consumed != 0 { println!("v5={v5} line {li} consumed {consumed} declared {fl} res {res:?}"); fails += 1; }
                        if consumed == 0 && res.is_ok() { println!("v5={v5} ok without consuming"); fails += 1; }
                        // chunking
                        for k in 0..fl {
                            let mut part = BytesMut::from(&all[..k]);
                            let pr = catch_unwind(AssertUnwindSafe(|| rd(&mut part, 1000)));
                            match pr {
                                Ok(Err(e)) if e.starts_with("INSUFFICIENT") && part.len() == k => {
                                    let n: usize = e[13..].parse().unwrap();
                                    if n == 0 || n > fl - k { println!("v5={v5} line {li} split {k}/{fl} hint {n}"); fails += 1; break; }
                                }
                                Ok(Err(e)) if Err::<String, String>(e.clone()) == res && k < 6 => {}
                                other => { println!("v5={v5} line {li} split {k}/{fl} gives {other:?} unsplit {res:?} bytes {:02x?}", &all[..fl]); fails += 1; break; }
                            }
                        }
                    }
                    _ => {}
                }
                if fails > 15 { panic!("too many failures"); }
            }
        }
        assert_eq!(fails, 0);
    }

    #[test] fn fuzz_v4() { run(false) }
    #[test] fn fuzz_v5() { run(true) }
}
