
#[cfg(test)]
mod hunt_relay {
    use bytes::BytesMut;
    fn hex(b: &[u8]) -> String { b.iter().map(|x| format!("{:02x}", x)).collect() }
    fn unhex(s: &str) -> Vec<u8> { (0..s.len() / 2).map(|i| u8::from_str_radix(&s[2 * i..2 * i + 2], 16).unwrap()).collect() }

    #[test]
    fn relay_v4() {
        use crate::mqttbytes::v4::Packet;
        let text = std::fs::read_to_string("/tmp/wt-E2/scratch/b_v4.hex").unwrap();
        let mut out = String::new();
        for line in text.lines() {
            let mut buf = BytesMut::from(&unhex(line)[..]);
            match Packet::read(&mut buf, 1 << 28) {
                Ok(p) => {
                    if !buf.is_empty() { out.push_str("ERR leftover\n"); continue; }
                    let mut o = BytesMut::new();
                    match p.write(&mut o, 1 << 28) {
                        Ok(n) => {
                            if n != o.len() || p.size() != o.len() { out.push_str(&format!("ERR size n={} size()={} written={} {:?}\n", n, p.size(), o.len(), p)); }
                            else { out.push_str(&hex(&o)); out.push('\n'); }
                        }
                        Err(e) => out.push_str(&format!("ERR write {:?} {:?}\n", e, p)),
                    }
                }
                Err(e) => out.push_str(&format!("ERR read {:?}\n", e)),
            }
        }
        std::fs::write("/tmp/wt-E2/scratch/c_v4.hex", out).unwrap();
    }

    #[test]
    fn relay_v5() {
        use crate::v5::mqttbytes::v5::Packet;
        let text = std::fs::read_to_string("/tmp/wt-E2/scratch/b_v5.hex").unwrap();
        let mut out = String::new();
        for line in text.lines() {
            let mut buf = BytesMut::from(&unhex(line)[..]);
            match Packet::read(&mut buf, None) {
                Ok(p) => {
                    if !buf.is_empty() { out.push_str("ERR leftover\n"); continue; }
                    let mut o = BytesMut::new();
                    match p.write(&mut o, None) {
                        Ok(n) => {
                            if n != o.len() || p.size() != o.len() { out.push_str(&format!("ERR size n={} size()={} written={} {:?}\n", n, p.size(), o.len(), p)); }
                            else { out.push_str(&hex(&o)); out.push('\n'); }
                        }
                        Err(e) => out.push_str(&format!("ERR write {:?} {:?}\n", e, p)),
                    }
                }
                Err(e) => out.push_str(&format!("ERR read {:?}\n", e)),
            }
        }
        std::fs::write("/tmp/wt-E2/scratch/c_v5.hex", out).unwrap();
    }
}
