// Demonstration (against the real rumqttc v5 code BEFORE commit "fix: v5 client keeps packet ids inside a lowered
// receive-maximum") of obligation v5 connack.wf_after_receive_max failing.  Append as
// `#[cfg(test)] mod verif_findings { use super::*; include!(..) }` to rumqttc/src/v5/state.rs.
#[test]
fn receive_max_lowered_below_id_counter() {
    let mut st = MqttState::new(10, false);
    for i in 1..=5u16 {
        let p = Publish::new("t", QoS::AtLeastOnce, vec![1u8], None);
        assert!(matches!(st.handle_outgoing_packet(Request::Publish(p)).unwrap(), Some(Packet::Publish(q)) if q.pkid == i));
        st.handle_incoming_packet(Incoming::PubAck(PubAck::new(i, None))).unwrap();
    }
    // reconnect: the broker now grants a receive-maximum of 3
    let props = ConnAckProperties {
        session_expiry_interval: None, receive_max: Some(3), max_qos: None, retain_available: None, max_packet_size: None,
        assigned_client_identifier: None, topic_alias_max: None, reason_string: None, user_properties: vec![],
        wildcard_subscription_available: None, subscription_identifiers_available: None, shared_subscription_available: None,
        server_keep_alive: None, response_information: None, server_reference: None, authentication_method: None, authentication_data: None,
    };
    let connack = ConnAck { session_present: true, code: ConnectReturnCode::Success, properties: Some(props) };
    st.handle_incoming_packet(Incoming::ConnAck(connack)).unwrap();
    assert_eq!(st.max_outgoing_inflight, 3);
    let p = Publish::new("t", QoS::AtLeastOnce, vec![1u8], None);
    let out = st.handle_outgoing_packet(Request::Publish(p)).unwrap();
    let id = match out { Some(Packet::Publish(q)) => q.pkid, _ => 0 };
    println!("packet id after the window was lowered to 3: {}", id);
    assert!(id >= 1 && id <= 3, "packet id {} is larger than the negotiated inflight limit 3", id);
}
