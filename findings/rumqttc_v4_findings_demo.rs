// Demonstrations (against the real rumqttc code) of the two recorded findings in MqttState::outgoing_publish.
// Appended as `#[cfg(test)] mod verif_findings { use super::*; include!(..) }` to rumqttc/src/state.rs of a
// scratch copy and run with `cargo test -p rumqttc --lib verif_findings -- --nocapture`.

fn p(qos: QoS, tag: u8) -> Publish {
    Publish::new(format!("t/{}", tag), qos, vec![tag])
}

/// F1 (C07): a packet id is handed to a new publish while the QoS 2 flow that used it is still waiting for PUBCOMP.
#[test]
fn f1_id_reused_while_release_pending() {
    let mut st = MqttState::new(2, false);
    // QoS2 publish gets id 1
    let a = st.handle_outgoing_packet(Request::Publish(p(QoS::ExactlyOnce, 1))).unwrap();
    assert!(matches!(&a, Some(Packet::Publish(x)) if x.pkid == 1));
    // broker answers PUBREC(1): release now pending, id 1 still in use until PUBCOMP(1)
    st.handle_incoming_packet(Incoming::PubRec(PubRec::new(1))).unwrap();
    // QoS1 publish gets id 2 (= max): id counter wraps
    st.handle_outgoing_packet(Request::Publish(p(QoS::AtLeastOnce, 2))).unwrap();
    st.handle_incoming_packet(Incoming::PubAck(PubAck::new(2))).unwrap();
    // next publish gets id 1 again although PUBCOMP(1) has not arrived
    let b = st.handle_outgoing_packet(Request::Publish(p(QoS::ExactlyOnce, 3))).unwrap();
    println!("second publish sent with id {:?} while outgoing_rel[1] = {}", b.as_ref().map(|x| match x { Packet::Publish(q) => q.pkid, _ => 0 }), st.outgoing_rel.contains(1));
    assert!(matches!(&b, Some(Packet::Publish(x)) if x.pkid == 1) && st.outgoing_rel.contains(1), "two unfinished flows share id 1");
    // consequence: PUBREC(1) for the second publish leaves the counter one too high for ever
    st.handle_incoming_packet(Incoming::PubRec(PubRec::new(1))).unwrap();
    st.handle_incoming_packet(Incoming::PubComp(PubComp::new(1))).unwrap();
    println!("everything acknowledged, inflight = {} (should be 0)", st.inflight);
    assert_eq!(st.inflight, 1, "window has leaked by one");
}

/// F2 (C02): a parked (collision) publish is overwritten — silently dropped — by the next colliding publish.
#[test]
fn f2_parked_publish_overwritten() {
    let mut st = MqttState::new(2, false);
    st.handle_outgoing_packet(Request::Publish(p(QoS::AtLeastOnce, 1))).unwrap(); // id 1
    st.handle_outgoing_packet(Request::Publish(p(QoS::AtLeastOnce, 2))).unwrap(); // id 2, counter wraps
    // nothing acknowledged; two more accepted requests (as when they are replayed from `pending`,
    // which the event loop serves regardless of the collision flag)
    let c = st.handle_outgoing_packet(Request::Publish(p(QoS::AtLeastOnce, 3))).unwrap();
    assert!(c.is_none() && st.collision.as_ref().unwrap().payload[0] == 3, "third publish parked on id 1");
    let d = st.handle_outgoing_packet(Request::Publish(p(QoS::AtLeastOnce, 4))).unwrap();
    assert!(d.is_none());
    println!("parked publish is now payload {:?}; payload [3] is gone", st.collision.as_ref().unwrap().payload);
    let everything: Vec<u8> = st.clean().into_iter().filter_map(|r| match r { Request::Publish(q) => Some(q.payload[0]), _ => None }).collect();
    assert!(!everything.contains(&3) && st.collision.as_ref().unwrap().payload[0] == 4, "publish 3 is neither in flight, held, nor parked");
}
