#[cfg(test)]
mod hunt_11 {
    #![allow(dead_code, unused_imports, unused_variables)]
    use super::*;
    use crate::protocol::{Filter as PFilter, RetainForwardRule, Subscribe, Unsubscribe, PingReq, SubscribeProperties};
    use bytes::Bytes;
    use crate::router::Ack;
    use parking_lot::Mutex;
    use std::sync::Arc;

    fn config() -> RouterConfig {
        RouterConfig {
            max_segment_size: 1024 * 1024,
            max_connections: 10,
            max_segment_count: 10,
            max_outgoing_packet_count: 1024,
            custom_segment: None,
            initialized_filters: None,
            shared_subscriptions_strategy: Default::default(),
        }
    }

    struct Client {
        id: ConnectionId,
        ibuf: Arc<Mutex<VecDeque<Packet>>>,
        obuf: Arc<Mutex<VecDeque<Notification>>>,
        _rx: Receiver<()>,
    }

    fn run(router: &mut Router) {
        for _ in 0..3000 {
            if router.consume().is_none() {
                break;
            }
        }
    }

    fn connect_with(router: &mut Router, name: &str, clean: bool, f: impl FnOnce(&mut Connection)) -> Client {
        let mut connection = Connection::new(None, name.to_owned(), clean, false);
        f(&mut connection);
        let incoming = Incoming::new(connection.client_id.to_owned());
        let (outgoing, rx) = Outgoing::new(connection.client_id.to_owned());
        let ibuf = incoming.buffer();
        let obuf = outgoing.buffer();
        router.events(0, Event::Connect { connection, incoming, outgoing });
        let id = *router.connection_map.get(name).unwrap();
        run(router);
        Client { id, ibuf, obuf, _rx: rx }
    }

    fn connect(router: &mut Router, name: &str, clean: bool) -> Client {
        connect_with(router, name, clean, |_| {})
    }

    fn send(router: &mut Router, c: &Client, packets: Vec<Packet>) {
        c.ibuf.lock().extend(packets);
        router.events(c.id, Event::DeviceData);
        run(router);
    }

    /// Everything the router handed to the link since the last call. Answers `Unschedule` with `Ready`.
    fn drain(router: &mut Router, c: &Client) -> Vec<Notification> {
        let mut out = Vec::new();
        loop {
            let batch: Vec<Notification> = c.obuf.lock().drain(..).collect();
            if batch.is_empty() {
                break;
            }
            let mut unscheduled = false;
            for n in batch {
                match n {
                    Notification::Unschedule => unscheduled = true,
                    n => out.push(n),
                }
            }
            if unscheduled {
                router.events(c.id, Event::Ready);
                run(router);
            }
        }
        out
    }

    fn forwards(ns: &[Notification]) -> Vec<Forward> {
        ns.iter()
            .filter_map(|n| match n {
                Notification::Forward(f) => Some(f.clone()),
                _ => None,
            })
            .collect()
    }

    fn acks(ns: &[Notification]) -> Vec<Ack> {
        ns.iter()
            .filter_map(|n| match n {
                Notification::DeviceAck(a) => Some(a.clone()),
                _ => None,
            })
            .collect()
    }

    fn payloads(ns: &[Notification]) -> Vec<String> {
        forwards(ns)
            .iter()
            .map(|f| String::from_utf8(f.publish.payload.to_vec()).unwrap())
            .collect()
    }

    fn filter(path: &str, qos: QoS) -> PFilter {
        PFilter {
            path: path.to_owned(),
            qos,
            nolocal: false,
            preserve_retain: false,
            retain_forward_rule: RetainForwardRule::OnEverySubscribe,
        }
    }

    fn subscribe(pkid: u16, filters: &[(&str, QoS)]) -> Packet {
        Packet::Subscribe(
            Subscribe { pkid, filters: filters.iter().map(|(p, q)| filter(p, *q)).collect() },
            None,
        )
    }

    fn unsubscribe(pkid: u16, filters: &[&str]) -> Packet {
        Packet::Unsubscribe(
            Unsubscribe { pkid, filters: filters.iter().map(|s| s.to_string()).collect() },
            None,
        )
    }

    fn publish(topic: &str, payload: &str, qos: QoS, pkid: u16, retain: bool) -> Packet {
        Packet::Publish(
            Publish {
                dup: false,
                qos,
                pkid,
                retain,
                topic: Bytes::copy_from_slice(topic.as_bytes()),
                payload: Bytes::copy_from_slice(payload.as_bytes()),
            },
            None,
        )
    }

    fn puback(pkid: u16) -> Packet {
        Packet::PubAck(PubAck { pkid, reason: PubAckReason::Success }, None)
    }
    fn pubrec(pkid: u16) -> Packet {
        Packet::PubRec(PubRec { pkid, reason: PubRecReason::Success }, None)
    }
    fn pubrel(pkid: u16) -> Packet {
        Packet::PubRel(PubRel { pkid, reason: PubRelReason::Success }, None)
    }
    fn pubcomp(pkid: u16) -> Packet {
        Packet::PubComp(PubComp { pkid, reason: PubCompReason::Success }, None)
    }

    // C01 (and C15): retained messages are looked up when the new DataRequest is first consumed,
    // not when the SUBSCRIBE is processed, while the log cursor is taken at SUBSCRIBE time. A
    // retained publish that is accepted after the SUBSCRIBE but before that first consume (same
    // batch of packets, or simply the next events the router pulls before it polls the ready queue)
    // is delivered twice: once as a "retained" replay and once as the live message.
    // Correct behaviour: the subscription took effect before the publish, so the message is
    // forwarded once, live, not flagged retained.
    #[test]
    fn subscribe_then_retained_publish_is_delivered_twice() {
        let mut r = Router::new(0, config());
        let s = connect(&mut r, "sub", true);
        drain(&mut r, &s);
        send(
            &mut r,
            &s,
            vec![
                subscribe(1, &[("t", QoS::AtMostOnce)]),
                publish("t", "r1", QoS::AtMostOnce, 0, true),
            ],
        );
        let got: Vec<(String, bool)> = forwards(&drain(&mut r, &s))
            .iter()
            .map(|f| (String::from_utf8(f.publish.payload.to_vec()).unwrap(), f.publish.retain))
            .collect();
        assert_eq!(got, vec![("r1".to_string(), false)], "(payload, retain flag) of the forwards");
    }

    // The same with two clients: the router thread pulls up to 500 events before it polls the
    // ready queue (`run_inner`), so SUBSCRIBE by one client and a retained PUBLISH by another can
    // both be handled before the subscriber is consumed.
    #[test]
    fn subscribe_then_retained_publish_by_other_client() {
        let mut r = Router::new(0, config());
        let s = connect(&mut r, "sub", true);
        let p = connect(&mut r, "pub", true);
        drain(&mut r, &s);
        s.ibuf.lock().extend(vec![subscribe(1, &[("t", QoS::AtMostOnce)])]);
        p.ibuf.lock().extend(vec![publish("t", "r1", QoS::AtMostOnce, 0, true)]);
        r.events(s.id, Event::DeviceData);
        r.events(p.id, Event::DeviceData);
        run(&mut r);
        let got: Vec<(String, bool)> = forwards(&drain(&mut r, &s))
            .iter()
            .map(|f| (String::from_utf8(f.publish.payload.to_vec()).unwrap(), f.publish.retain))
            .collect();
        assert_eq!(got, vec![("r1".to_string(), false)], "(payload, retain flag) of the forwards");
    }
}
