    struct Lcg(u64);
    impl Lcg {
        fn next(&mut self, n: u64) -> u64 {
            self.0 = self.0.wrapping_mul(6364136223846793005).wrapping_add(1442695040888963407);
            (self.0 >> 33) % n
        }
    }

    // two clean subscribers with overlapping filters, lazy links (buffer-full / delayed Ready), sub/unsub churn
    fn fuzz_plain(seed: u64) {
        let mut rng = Lcg(seed);
        let mut r = Router::new(0, RouterConfig { max_outgoing_packet_count: 1 + rng.next(300), ..config() });
        let p = connect(&mut r, "pub", true);
        let subs = [connect(&mut r, "s0", true), connect(&mut r, "s1", true)];
        let filters = ["a/b", "a/+", "#", "c"];
        let topics = ["a/b", "a/c", "c", "d"];
        let fm = |f: &str, t: &str| crate::protocol::matches(t, f);
        // active[s][f] = Some(qos)
        let mut active: [[Option<QoS>; 4]; 2] = [[None; 4]; 2];
        // expected per subscriber per topic: multiset as counts of (topic, idx)
        let mut expected: [HashMap<(usize, usize), usize>; 2] = [HashMap::new(), HashMap::new()];
        let mut got: [HashMap<(usize, usize), usize>; 2] = [HashMap::new(), HashMap::new()];
        let mut last_seen: [[[i64; 4]; 4]; 2] = [[[-1; 4]; 4]; 2]; // not used for strict order (multi-sub), kept simple
        let mut published = [0usize; 4];
        let mut unacked: [VecDeque<u16>; 2] = [VecDeque::new(), VecDeque::new()];
        let mut need_ready = [false; 2];
        let mut pk = 0u16;
        let mut take = |r: &mut Router, i: usize, got: &mut [HashMap<(usize, usize), usize>; 2], unacked: &mut [VecDeque<u16>; 2], need_ready: &mut [bool; 2]| {
            let batch: Vec<Notification> = subs[i].obuf.lock().drain(..).collect();
            for n in batch {
                match n {
                    Notification::Forward(f) => {
                        let t = topics.iter().position(|t| t.as_bytes() == &f.publish.topic[..]).unwrap();
                        let idx: usize = std::str::from_utf8(&f.publish.payload).unwrap().parse().unwrap();
                        *got[i].entry((t, idx)).or_default() += 1;
                        if f.publish.qos != QoS::AtMostOnce { unacked[i].push_back(f.publish.pkid); assert!(unacked[i].len() <= 100); }
                    }
                    Notification::Unschedule => need_ready[i] = true,
                    Notification::DeviceAck(_) => {}
                    other => panic!("{other:?}"),
                }
            }
        };
        for _step in 0..400 {
            match rng.next(12) {
                0..=4 => {
                    let n = 1 + rng.next(60) as usize;
                    let mut batch = vec![];
                    for _ in 0..n {
                        let t = rng.next(4) as usize;
                        batch.push(publish(topics[t], &format!("{}", published[t]), QoS::AtMostOnce, 0, false));
                        for s in 0..2 { for f in 0..4 { if active[s][f].is_some() && fm(filters[f], topics[t]) { *expected[s].entry((t, published[t])).or_default() += 1; } } }
                        published[t] += 1;
                    }
                    send(&mut r, &p, batch);
                }
                5 | 6 => { let i = rng.next(2) as usize; take(&mut r, i, &mut got, &mut unacked, &mut need_ready); }
                7 => { let i = rng.next(2) as usize; if need_ready[i] { need_ready[i] = false; r.events(subs[i].id, Event::Ready); run(&mut r); } }
                8 => {
                    let i = rng.next(2) as usize;
                    let k = rng.next(unacked[i].len() as u64 + 1);
                    let a: Vec<Packet> = (0..k).map(|_| puback(unacked[i].pop_front().unwrap())).collect();
                    if !a.is_empty() { send(&mut r, &subs[i], a); }
                }
                9 | 10 => {
                    let i = rng.next(2) as usize; let f = rng.next(4) as usize;
                    if active[i][f].is_none() {
                        let q = if rng.next(2) == 0 { QoS::AtMostOnce } else { QoS::AtLeastOnce };
                        pk += 1; send(&mut r, &subs[i], vec![subscribe(pk, &[(filters[f], q)])]); active[i][f] = Some(q);
                    }
                }
                _ => {}
            }
            for i in 0..2 { assert!(r.connection_map.contains_key(&format!("s{i}")), "seed {seed} kicked"); }
        }
        // quiesce
        for _ in 0..5000 {
            let mut progress = false;
            for i in 0..2 {
                let before: usize = got[i].values().sum();
                take(&mut r, i, &mut got, &mut unacked, &mut need_ready);
                if need_ready[i] { need_ready[i] = false; r.events(subs[i].id, Event::Ready); run(&mut r); progress = true; }
                let a: Vec<Packet> = unacked[i].drain(..).map(puback).collect();
                if !a.is_empty() { send(&mut r, &subs[i], a); progress = true; }
                if got[i].values().sum::<usize>() != before { progress = true; }
            }
            if !progress { break; }
        }
        for i in 0..2 {
            assert_eq!(got[i], expected[i], "seed {seed} subscriber {i}: idle={:?}", r.consume());
        }
        let _ = last_seen;
    }

    #[test]
    fn fuzz_plain_lazy_links() { for seed in 0..300 { fuzz_plain(seed); } }
