    #[test]
    fn window_two_subs() {
        let mut r = Router::new(0, config());
        let s = connect(&mut r, "sub", true);
        let p = connect(&mut r, "pub", true);
        send(&mut r, &s, vec![subscribe(1, &[("a", QoS::AtLeastOnce), ("b", QoS::ExactlyOnce)])]);
        drain(&mut r, &s);
        for n in 0..150 { send(&mut r, &p, vec![publish("a", &format!("a{n}"), QoS::AtMostOnce, 0, false), publish("b", &format!("b{n}"), QoS::AtMostOnce, 0, false)]); }
        let mut all = vec![];
        let mut pending: VecDeque<Notification> = VecDeque::new();
        let mut outstanding = 0usize;
        let mut rels = 0;
        for _ in 0..2000 {
            pending.extend(drain(&mut r, &s));
            let Some(n) = pending.pop_front() else { break };
            match n {
                Notification::Forward(f) => {
                    outstanding += 1;
                    assert!(outstanding <= 100);
                    assert!(f.publish.pkid != 0);
                    all.push(String::from_utf8(f.publish.payload.to_vec()).unwrap());
                    if f.publish.qos == QoS::AtLeastOnce { send(&mut r, &s, vec![puback(f.publish.pkid)]); }
                    else { send(&mut r, &s, vec![pubrec(f.publish.pkid)]); }
                    outstanding -= 1;
                }
                Notification::DeviceAck(Ack::PubRel(rel)) => { rels += 1; send(&mut r, &s, vec![pubcomp(rel.pkid)]); }
                other => panic!("{other:?}"),
            }
        }
        assert_eq!(all.len(), 300);
        assert_eq!(rels, 150);
        assert!(r.connection_map.contains_key("sub"));
        let a: Vec<_> = all.iter().filter(|x| x.starts_with('a')).cloned().collect();
        assert_eq!(a, (0..150).map(|n| format!("a{n}")).collect::<Vec<_>>());
        let b: Vec<_> = all.iter().filter(|x| x.starts_with('b')).cloned().collect();
        assert_eq!(b, (0..150).map(|n| format!("b{n}")).collect::<Vec<_>>());
    }

    // full window, then ack all at once, expect rest with no further stimulus
    #[test]
    fn window_batch_ack() {
        let mut r = Router::new(0, config());
        let s = connect(&mut r, "sub", true);
        let p = connect(&mut r, "pub", true);
        send(&mut r, &s, vec![subscribe(1, &[("a", QoS::AtLeastOnce), ("b", QoS::AtLeastOnce), ("c", QoS::AtMostOnce)])]);
        drain(&mut r, &s);
        for n in 0..150 { send(&mut r, &p, vec![publish("a", &format!("a{n}"), QoS::AtMostOnce, 0, false), publish("b", &format!("b{n}"), QoS::AtMostOnce, 0, false), publish("c", &format!("c{n}"), QoS::AtMostOnce, 0, false)]); }
        let mut all = vec![];
        for round in 0..20 {
            let ns = drain(&mut r, &s);
            if ns.is_empty() { break; }
            let f = forwards(&ns);
            let q: Vec<_> = f.iter().filter(|f| f.publish.qos != QoS::AtMostOnce).collect();
            println!("round {round}: {} forwards, {} qos1", f.len(), q.len());
            assert!(q.len() <= 100);
            all.extend(payloads(&ns));
            send(&mut r, &s, q.iter().map(|f| puback(f.publish.pkid)).collect());
        }
        assert_eq!(all.len(), 450);
    }

    // persistent session: unacked resend from oldest, acked not resent, two filters
    #[test]
    fn persistent_resume() {
        let mut r = Router::new(0, config());
        let s = connect(&mut r, "sub", false);
        let p = connect(&mut r, "pub", true);
        send(&mut r, &s, vec![subscribe(1, &[("a", QoS::AtLeastOnce), ("b", QoS::AtLeastOnce)])]);
        drain(&mut r, &s);
        for n in 0..3 { send(&mut r, &p, vec![publish("a", &format!("a{n}"), QoS::AtMostOnce, 0, false), publish("b", &format!("b{n}"), QoS::AtMostOnce, 0, false)]); }
        let f = forwards(&drain(&mut r, &s));
        println!("{:?}", f.iter().map(|f| (f.publish.pkid, String::from_utf8(f.publish.payload.to_vec()).unwrap())).collect::<Vec<_>>());
        // ack first 3
        send(&mut r, &s, f[..3].iter().map(|f| puback(f.publish.pkid)).collect());
        let acked: Vec<String> = f[..3].iter().map(|f| String::from_utf8(f.publish.payload.to_vec()).unwrap()).collect();
        let unacked: Vec<String> = f[3..].iter().map(|f| String::from_utf8(f.publish.payload.to_vec()).unwrap()).collect();
        r.events(s.id, Event::Disconnect); run(&mut r);
        send(&mut r, &p, vec![publish("a", "a3", QoS::AtMostOnce, 0, false)]);
        let s = connect(&mut r, "sub", false);
        let ns = drain(&mut r, &s);
        let got = payloads(&ns);
        println!("acked {acked:?} unacked {unacked:?} got {got:?}");
        for a in &acked { assert!(!got.contains(a)); }
        for a in &unacked { assert_eq!(got.iter().filter(|g| *g == a).count(), 1); }
        assert!(got.contains(&"a3".to_string()));
        // clean connect
        r.events(s.id, Event::Disconnect); run(&mut r);
        let s = connect(&mut r, "sub", true);
        let ns = drain(&mut r, &s);
        assert!(forwards(&ns).is_empty());
        assert!(matches!(&acks(&ns)[0], Ack::ConnAck(_, c, _) if !c.session_present));
        send(&mut r, &p, vec![publish("a", "a4", QoS::AtMostOnce, 0, false)]);
        assert!(drain(&mut r, &s).is_empty());
    }

    // QoS2 inbound: out-of-order release / unknown id
    #[test]
    fn qos2_inbound() {
        let mut r = Router::new(0, config());
        let s = connect(&mut r, "sub", true);
        send(&mut r, &s, vec![subscribe(1, &[("t", QoS::AtMostOnce)])]);
        drain(&mut r, &s);
        let p = connect(&mut r, "pub", true);
        drain(&mut r, &p);
        send(&mut r, &p, vec![publish("t", "m1", QoS::ExactlyOnce, 1, false), publish("t", "m2", QoS::ExactlyOnce, 2, false)]);
        println!("{:?}", acks(&drain(&mut r, &p)));
        assert!(drain(&mut r, &s).is_empty());
        send(&mut r, &p, vec![pubrel(9)]);
        println!("{:?} sub got {:?}", acks(&drain(&mut r, &p)), payloads(&drain(&mut r, &s)));
    }
