    fn small_config(count: usize) -> RouterConfig {
        RouterConfig { max_segment_size: 1024, max_segment_count: count, ..config() }
    }

    // log wrap while persistent subscriber is away
    #[test]
    fn log_wrap_away() {
        for count in [1usize, 2, 3] {
            let mut r = Router::new(0, small_config(count));
            let s = connect(&mut r, "sub", false);
            let p = connect(&mut r, "pub", true);
            send(&mut r, &s, vec![subscribe(1, &[("t", QoS::AtLeastOnce)])]);
            drain(&mut r, &s);
            let pad = "x".repeat(100);
            let mut n = 0;
            for _ in 0..5 { send(&mut r, &p, vec![publish("t", &format!("{n:05}{pad}"), QoS::AtMostOnce, 0, false)]); n += 1; }
            let got = payloads(&drain(&mut r, &s));
            assert_eq!(got.len(), 5);
            // ack first two only
            send(&mut r, &s, vec![puback(1), puback(2)]);
            r.events(s.id, Event::Disconnect); run(&mut r);
            for _ in 0..100 { send(&mut r, &p, vec![publish("t", &format!("{n:05}{pad}"), QoS::AtMostOnce, 0, false)]); n += 1; }
            let s = connect(&mut r, "sub", false);
            let mut all = vec![];
            for _ in 0..50 {
                let ns = drain(&mut r, &s);
                if ns.is_empty() { break; }
                let f = forwards(&ns);
                all.extend(payloads(&ns).into_iter().map(|p| p[..5].parse::<usize>().unwrap()));
                send(&mut r, &s, f.iter().map(|f| puback(f.publish.pkid)).collect());
            }
            println!("count={count} got {} first {:?} last {:?}", all.len(), all.first(), all.last());
            assert!(all.windows(2).all(|w| w[0] + 1 == w[1]), "{all:?}");
            assert_eq!(*all.last().unwrap(), n - 1);
        }
    }

    // live subscriber, log wraps while inflight full
    #[test]
    fn log_wrap_live() {
        let mut r = Router::new(0, small_config(2));
        let s = connect(&mut r, "sub", true);
        let p = connect(&mut r, "pub", true);
        send(&mut r, &s, vec![subscribe(1, &[("t", QoS::AtLeastOnce)])]);
        drain(&mut r, &s);
        let pad = "x".repeat(100);
        for n in 0..400 { send(&mut r, &p, vec![publish("t", &format!("{n:05}{pad}"), QoS::AtMostOnce, 0, false)]); }
        let mut all = vec![];
        for _ in 0..50 {
            let ns = drain(&mut r, &s);
            if ns.is_empty() { break; }
            let f = forwards(&ns);
            assert!(f.len() <= 100);
            all.extend(payloads(&ns).into_iter().map(|p| p[..5].parse::<usize>().unwrap()));
            send(&mut r, &s, f.iter().map(|f| puback(f.publish.pkid)).collect());
        }
        println!("got {} first {:?} last {:?}", all.len(), all.first(), all.last());
        assert!(all.windows(2).all(|w| w[0] < w[1]), "{all:?}");
        assert_eq!(*all.last().unwrap(), 399);
    }

    #[test]
    fn unsub_resub_and_batch() {
        let mut r = Router::new(0, config());
        let s = connect(&mut r, "sub", true);
        let p = connect(&mut r, "pub", true);
        send(&mut r, &s, vec![subscribe(1, &[("t", QoS::AtMostOnce)]), unsubscribe(2, &["t"]), subscribe(3, &[("t", QoS::AtMostOnce)])]);
        println!("{:?}", acks(&drain(&mut r, &s)));
        send(&mut r, &p, vec![publish("t", "m0", QoS::AtMostOnce, 0, false)]);
        assert_eq!(payloads(&drain(&mut r, &s)), vec!["m0"]);
        send(&mut r, &s, vec![unsubscribe(4, &["t"])]);
        send(&mut r, &p, vec![publish("t", "m1", QoS::AtMostOnce, 0, false)]);
        assert_eq!(payloads(&drain(&mut r, &s)), Vec::<String>::new());
        send(&mut r, &s, vec![subscribe(5, &[("t", QoS::AtMostOnce)])]);
        send(&mut r, &p, vec![publish("t", "m2", QoS::AtMostOnce, 0, false)]);
        assert_eq!(payloads(&drain(&mut r, &s)), vec!["m2"]);
        send(&mut r, &s, vec![subscribe(6, &[("u", QoS::AtMostOnce)]), unsubscribe(7, &["u"])]);
        send(&mut r, &p, vec![publish("u", "m3", QoS::AtMostOnce, 0, false)]);
        assert_eq!(payloads(&drain(&mut r, &s)), Vec::<String>::new());
    }

    #[test]
    fn overlapping() {
        let mut r = Router::new(0, config());
        let s = connect(&mut r, "sub", true);
        let p = connect(&mut r, "pub", true);
        send(&mut r, &s, vec![subscribe(1, &[("a/+", QoS::AtMostOnce), ("a/b", QoS::AtLeastOnce), ("#", QoS::AtMostOnce), ("a/#", QoS::AtMostOnce)])]);
        drain(&mut r, &s);
        send(&mut r, &p, vec![publish("a/b", "m0", QoS::AtMostOnce, 0, false), publish("a", "m1", QoS::AtMostOnce, 0, false), publish("$SYS/x", "m2", QoS::AtMostOnce, 0, false)]);
        let mut got = payloads(&drain(&mut r, &s)); got.sort();
        assert_eq!(got, vec!["m0", "m0", "m0", "m0", "m1", "m1"]);
    }

    #[test]
    fn window_two_subs() {
        let mut r = Router::new(0, config());
        let s = connect(&mut r, "sub", true);
        let p = connect(&mut r, "pub", true);
        send(&mut r, &s, vec![subscribe(1, &[("a", QoS::AtLeastOnce), ("b", QoS::ExactlyOnce)])]);
        drain(&mut r, &s);
        for n in 0..150 { send(&mut r, &p, vec![publish("a", &format!("a{n}"), QoS::AtMostOnce, 0, false), publish("b", &format!("b{n}"), QoS::AtMostOnce, 0, false)]); }
        let mut all = vec![];
        for _ in 0..50 {
            let ns = drain(&mut r, &s);
            if ns.is_empty() { break; }
            let f = forwards(&ns);
            assert!(f.len() <= 100, "{}", f.len());
            all.extend(payloads(&ns));
            for f in f {
                if f.publish.qos == QoS::AtLeastOnce { send(&mut r, &s, vec![puback(f.publish.pkid)]); }
                else { send(&mut r, &s, vec![pubrec(f.publish.pkid)]); let a = acks(&drain(&mut r, &s)); assert!(matches!(a[0], Ack::PubRel(_))); send(&mut r, &s, vec![pubcomp(f.publish.pkid)]); }
            }
        }
        assert_eq!(all.len(), 300);
        let a: Vec<_> = all.iter().filter(|x| x.starts_with('a')).cloned().collect();
        assert_eq!(a, (0..150).map(|n| format!("a{n}")).collect::<Vec<_>>());
    }

    #[test]
    fn takeover_and_max() {
        let mut r = Router::new(0, RouterConfig { max_connections: 2, ..config() });
        let a = connect(&mut r, "A", false);
        send(&mut r, &a, vec![subscribe(1, &[("t", QoS::AtLeastOnce)])]);
        let p = connect(&mut r, "pub", true);
        send(&mut r, &p, vec![publish("t", "m0", QoS::AtMostOnce, 0, false)]);
        assert_eq!(payloads(&drain(&mut r, &a)), vec!["m0"]);
        // takeover without ack
        let a2 = connect(&mut r, "A", false);
        let n = drain(&mut r, &a2);
        println!("{:?}", acks(&n));
        assert_eq!(payloads(&n), vec!["m0"]);
    }

    // (12) plain + shared on same path, persistent
    #[test]
    fn plain_and_shared_same_path() {
        let mut r = Router::new(0, config());
        let a = connect(&mut r, "A", false);
        let p = connect(&mut r, "pub", true);
        send(&mut r, &a, vec![subscribe(1, &[("t", QoS::AtLeastOnce)])]);
        send(&mut r, &a, vec![subscribe(2, &[("$share/g/t", QoS::AtLeastOnce)])]);
        drain(&mut r, &a);
        send(&mut r, &p, vec![publish("t", "m0", QoS::AtMostOnce, 0, false)]);
        let f = forwards(&drain(&mut r, &a));
        println!("{:?}", f.iter().map(|f| f.publish.pkid).collect::<Vec<_>>());
        assert_eq!(f.len(), 2);
        send(&mut r, &a, vec![puback(f[0].publish.pkid)]);
        r.events(a.id, Event::Disconnect); run(&mut r);
        let a = connect(&mut r, "A", false);
        let f = forwards(&drain(&mut r, &a));
        assert_eq!(f.len(), 1);
    }

    // same batch plain + shared
    #[test]
    fn plain_and_shared_same_batch() {
        let mut r = Router::new(0, config());
        let a = connect(&mut r, "A", true);
        send(&mut r, &a, vec![subscribe(1, &[("t", QoS::AtLeastOnce), ("$share/g/t", QoS::AtLeastOnce)])]);
    }
