    struct Lcg(u64);
    impl Lcg {
        fn next(&mut self, n: u64) -> u64 {
            self.0 = self.0.wrapping_mul(6364136223846793005).wrapping_add(1442695040888963407);
            (self.0 >> 33) % n
        }
    }

    // model-based fuzz for one persistent QoS1/2 subscriber on filters a, b (+ c at qos0), with reconnects
    fn fuzz_once(seed: u64, cfg: RouterConfig, allow_gaps: bool) {
        let mut rng = Lcg(seed);
        let mut r = Router::new(0, cfg);
        let p = connect(&mut r, "pub", true);
        let mut s = connect(&mut r, "sub", false);
        let qa = if rng.next(2) == 0 { QoS::AtLeastOnce } else { QoS::ExactlyOnce };
        send(&mut r, &s, vec![subscribe(1, &[("a", qa), ("b", QoS::AtLeastOnce), ("c", QoS::AtMostOnce)])]);
        drain(&mut r, &s);
        let topics = ["a", "b", "c"];
        let mut published = [0usize; 3];
        let mut next = [0usize; 3]; // next expected index per topic
        // client side: received but not yet acked (pkid, topic idx, msg idx, qos)
        let mut unacked: VecDeque<(u16, usize, usize, QoS)> = VecDeque::new();
        let mut pending: VecDeque<Notification> = VecDeque::new();
        let mut pubrels: VecDeque<u16> = VecDeque::new();
        let mut connected = true;
        let steps = 400;
        for step in 0..steps + 1 {
            let last = step == steps;
            let op = if last { 99 } else { rng.next(10) };
            match op {
                0..=3 => {
                    let n = 1 + rng.next(40) as usize;
                    let mut batch = vec![];
                    for _ in 0..n {
                        let t = rng.next(3) as usize;
                        batch.push(publish(topics[t], &format!("{}", published[t]), QoS::AtMostOnce, 0, false));
                        published[t] += 1;
                    }
                    send(&mut r, &p, batch);
                }
                4..=5 if connected => { pending.extend(drain(&mut r, &s)); }
                6..=7 if connected => {
                    // process some pending notifications and ack some
                    pending.extend(drain(&mut r, &s));
                    let k = rng.next(60) as usize;
                    for _ in 0..k {
                        let Some(n) = pending.pop_front() else { break };
                        match n {
                            Notification::Forward(f) => {
                                let t = topics.iter().position(|t| t.as_bytes() == &f.publish.topic[..]).unwrap();
                                let i: usize = std::str::from_utf8(&f.publish.payload).unwrap().parse().unwrap();
                                if allow_gaps || t == 2 { assert!(i >= next[t], "seed {seed} dup/reorder topic {t}: got {i} expected >= {}", next[t]); }
                                else { assert_eq!(i, next[t], "seed {seed} step {step} topic {t}"); }
                                next[t] = i + 1;
                                if f.publish.qos != QoS::AtMostOnce {
                                    assert!(f.publish.pkid != 0);
                                    assert!(!unacked.iter().any(|u| u.0 == f.publish.pkid), "seed {seed} pkid reuse");
                                    unacked.push_back((f.publish.pkid, t, i, f.publish.qos));
                                    assert!(unacked.len() <= 100);
                                }
                            }
                            Notification::DeviceAck(Ack::PubRel(rel)) => { pubrels.push_back(rel.pkid); }
                            Notification::DeviceAck(_) => {}
                            other => panic!("{other:?}"),
                        }
                    }
                    let k = rng.next(unacked.len() as u64 + 1) as usize;
                    let mut acks_out = vec![];
                    for _ in 0..k {
                        let (pkid, _, _, q) = unacked.pop_front().unwrap();
                        acks_out.push(if q == QoS::AtLeastOnce { puback(pkid) } else { pubrec(pkid) });
                    }
                    while let Some(pk) = pubrels.pop_front() { acks_out.push(pubcomp(pk)); }
                    if !acks_out.is_empty() { send(&mut r, &s, acks_out); }
                    assert!(r.connection_map.contains_key("sub"), "seed {seed} step {step}: subscriber kicked");
                }
                8 if connected => {
                    // link failure: everything in flight on the wire / pending is lost for the client
                    r.events(s.id, Event::Disconnect); run(&mut r);
                    connected = false;
                    pending.clear();
                    pubrels.clear();
                    // rewind model: per topic, oldest unacked
                    for t in 0..2 {
                        if let Some(u) = unacked.iter().find(|u| u.1 == t) { next[t] = u.2; }
                    }
                    unacked.clear();
                }
                9 if !connected => {
                    s = connect(&mut r, "sub", false);
                    connected = true;
                }
                99 => {
                    if !connected { s = connect(&mut r, "sub", false); connected = true; }
                    // quiesce
                    if rng.next(2) == 0 { r.events(s.id, Event::Disconnect); run(&mut r); pending.clear(); pubrels.clear();
                        for t in 0..2 { if let Some(u) = unacked.iter().find(|u| u.1 == t) { next[t] = u.2; } }
                        unacked.clear(); s = connect(&mut r, "sub", false); }
                    let mut acks_out = vec![];
                    while let Some((pkid, _, _, q)) = unacked.pop_front() { acks_out.push(if q == QoS::AtLeastOnce { puback(pkid) } else { pubrec(pkid) }); }
                    while let Some(pk) = pubrels.pop_front() { acks_out.push(pubcomp(pk)); }
                    if !acks_out.is_empty() { send(&mut r, &s, acks_out); }
                    for _ in 0..100000 {
                        pending.extend(drain(&mut r, &s));
                        let Some(n) = pending.pop_front() else { break };
                        match n {
                            Notification::Forward(f) => {
                                let t = topics.iter().position(|t| t.as_bytes() == &f.publish.topic[..]).unwrap();
                                let i: usize = std::str::from_utf8(&f.publish.payload).unwrap().parse().unwrap();
                                if allow_gaps || t == 2 { assert!(i >= next[t], "seed {seed} dup/reorder"); }
                                else { assert_eq!(i, next[t], "seed {seed} final topic {t}"); }
                                next[t] = i + 1;
                                match f.publish.qos {
                                    QoS::AtMostOnce => {}
                                    QoS::AtLeastOnce => send(&mut r, &s, vec![puback(f.publish.pkid)]),
                                    QoS::ExactlyOnce => send(&mut r, &s, vec![pubrec(f.publish.pkid)]),
                                }
                            }
                            Notification::DeviceAck(Ack::PubRel(rel)) => send(&mut r, &s, vec![pubcomp(rel.pkid)]),
                            Notification::DeviceAck(_) => {}
                            other => panic!("{other:?}"),
                        }
                    }
                    assert!(r.connection_map.contains_key("sub"), "seed {seed} kicked");
                    for t in 0..2 { assert_eq!(next[t], published[t], "seed {seed}: undelivered on {}", topics[t]); }
                }
                _ => {}
            }
        }
    }

    #[test]
    fn fuzz_persistent_big_segments() {
        for seed in 0..300 { fuzz_once(seed, config(), false); }
    }

    #[test]
    fn fuzz_persistent_small_segments() {
        for seed in 0..300 {
            fuzz_once(seed, RouterConfig { max_segment_size: 1024, max_segment_count: 1 + (seed as usize % 4), ..config() }, true);
        }
    }
