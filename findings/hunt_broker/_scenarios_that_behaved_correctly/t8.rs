    struct Lcg(u64);
    impl Lcg {
        fn next(&mut self, n: u64) -> u64 {
            self.0 = self.0.wrapping_mul(6364136223846793005).wrapping_add(1442695040888963407);
            (self.0 >> 33) % n
        }
    }

    fn shared_fuzz(seed: u64, strategy: Strategy, qos: QoS) {
        let mut rng = Lcg(seed);
        let mut r = Router::new(0, RouterConfig { shared_subscriptions_strategy: strategy.clone(), ..config() });
        let p = connect(&mut r, "pub", true);
        let names = ["A", "B", "C"];
        let ms: Vec<Client> = names.iter().map(|n| connect(&mut r, n, true)).collect();
        let mut member = [false; 3];
        let mut got: Vec<Vec<usize>> = vec![vec![]; 3];
        let mut unacked: Vec<VecDeque<u16>> = vec![VecDeque::new(); 3];
        let mut published = 0usize;
        let mut first_counted = 0usize; // messages published while the group was empty are not expected
        let mut expected: Vec<usize> = vec![];
        let mut pk = 0u16;
        let mut take = |r: &mut Router, i: usize, got: &mut Vec<Vec<usize>>, unacked: &mut Vec<VecDeque<u16>>| {
            for f in forwards(&drain(r, &ms[i])) {
                got[i].push(std::str::from_utf8(&f.publish.payload).unwrap().parse().unwrap());
                if f.publish.qos != QoS::AtMostOnce { unacked[i].push_back(f.publish.pkid); }
            }
        };
        for step in 0..300 {
            match rng.next(10) {
                0..=3 => {
                    let n = 1 + rng.next(10) as usize;
                    let mut batch = vec![];
                    for _ in 0..n {
                        batch.push(publish("t", &format!("{published}"), QoS::AtMostOnce, 0, false));
                        if member.iter().any(|m| *m) { expected.push(published); }
                        published += 1;
                    }
                    send(&mut r, &p, batch);
                }
                4..=6 => {
                    let i = rng.next(3) as usize;
                    take(&mut r, i, &mut got, &mut unacked);
                    let k = rng.next(unacked[i].len() as u64 + 1);
                    let mut a = vec![];
                    for _ in 0..k { a.push(puback(unacked[i].pop_front().unwrap())); }
                    if !a.is_empty() { send(&mut r, &ms[i], a); }
                }
                7 => {
                    let i = rng.next(3) as usize;
                    if !member[i] { pk += 1; send(&mut r, &ms[i], vec![subscribe(pk, &[("$share/g/t", qos)])]); member[i] = true; }
                }
                8 => {
                    let i = rng.next(3) as usize;
                    // leave only when everything has been taken and acked and at least one other member stays
                    if member[i] && member.iter().filter(|m| **m).count() > 1 {
                        take(&mut r, i, &mut got, &mut unacked);
                        let a: Vec<Packet> = unacked[i].drain(..).map(puback).collect();
                        if !a.is_empty() { send(&mut r, &ms[i], a); }
                        take(&mut r, i, &mut got, &mut unacked);
                        if unacked[i].is_empty() {
                            pk += 1; send(&mut r, &ms[i], vec![unsubscribe(pk, &["$share/g/t"])]); member[i] = false;
                        }
                    }
                }
                _ => {}
            }
            let _ = step;
        }
        // quiesce
        for _ in 0..2000 {
            let mut progress = false;
            for i in 0..3 {
                let before = got[i].len();
                take(&mut r, i, &mut got, &mut unacked);
                let a: Vec<Packet> = unacked[i].drain(..).map(puback).collect();
                if !a.is_empty() { send(&mut r, &ms[i], a); progress = true; }
                if got[i].len() != before { progress = true; }
            }
            if !progress { break; }
        }
        let mut all: Vec<usize> = got.iter().flatten().cloned().collect();
        all.sort();
        for i in 0..3 { assert!(got[i].windows(2).all(|w| w[0] < w[1]), "seed {seed} {strategy:?} order/dup member {i}: {:?}", got[i]); }
        let mut d = all.clone(); d.dedup();
        assert_eq!(d.len(), all.len(), "seed {seed} {strategy:?}: duplicates");
        assert_eq!(all, expected, "seed {seed} {strategy:?} {qos:?}: missing/extra; idle={:?}", r.consume());
    }

    #[test]
    fn fuzz_shared_rr_qos1() { for seed in 0..200 { shared_fuzz(seed, Strategy::RoundRobin, QoS::AtLeastOnce); } }
    #[test]
    fn fuzz_shared_rr_qos0() { for seed in 0..200 { shared_fuzz(seed, Strategy::RoundRobin, QoS::AtMostOnce); } }
    #[test]
    fn fuzz_shared_random_qos1() { for seed in 0..200 { shared_fuzz(seed, Strategy::Random, QoS::AtLeastOnce); } }
    #[test]
    fn fuzz_shared_sticky_qos1() { for seed in 0..200 { shared_fuzz(seed, Strategy::Sticky, QoS::AtLeastOnce); } }
