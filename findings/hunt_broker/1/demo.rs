#[cfg(test)]
mod hunt_1 {
    #![allow(dead_code, unused_imports, unused_variables)]
    use super::*;
    use crate::protocol::{Filter as PFilter, RetainForwardRule, Subscribe, Unsubscribe, PingReq, SubscribeProperties};
    use bytes::Bytes;
    use crate::router::Ack;
    use parking_lot::Mutex;
    use std::sync::Arc;

    fn config() -> RouterConfig {
        RouterConfig {
            max_segment_size: 1024 * 1024,
            max_connections: 10,
            max_segment_count: 10,
            max_outgoing_packet_count: 1024,
            custom_segment: None,
            initialized_filters: None,
            shared_subscriptions_strategy: Default::default(),
        }
    }

    struct Client {
        id: ConnectionId,
        ibuf: Arc<Mutex<VecDeque<Packet>>>,
        obuf: Arc<Mutex<VecDeque<Notification>>>,
        _rx: Receiver<()>,
    }

    fn run(router: &mut Router) {
        for _ in 0..3000 {
            if router.consume().is_none() {
                break;
            }
        }
    }

    fn connect_with(router: &mut Router, name: &str, clean: bool, f: impl FnOnce(&mut Connection)) -> Client {
        let mut connection = Connection::new(None, name.to_owned(), clean, false);
        f(&mut connection);
        let incoming = Incoming::new(connection.client_id.to_owned());
        let (outgoing, rx) = Outgoing::new(connection.client_id.to_owned());
        let ibuf = incoming.buffer();
        let obuf = outgoing.buffer();
        router.events(0, Event::Connect { connection, incoming, outgoing });
        let id = *router.connection_map.get(name).unwrap();
        run(router);
        Client { id, ibuf, obuf, _rx: rx }
    }

    fn connect(router: &mut Router, name: &str, clean: bool) -> Client {
        connect_with(router, name, clean, |_| {})
    }

    fn send(router: &mut Router, c: &Client, packets: Vec<Packet>) {
        c.ibuf.lock().extend(packets);
        router.events(c.id, Event::DeviceData);
        run(router);
    }

    /// Everything the router handed to the link since the last call. Answers `Unschedule` with `Ready`.
    fn drain(router: &mut Router, c: &Client) -> Vec<Notification> {
        let mut out = Vec::new();
        loop {
            let batch: Vec<Notification> = c.obuf.lock().drain(..).collect();
            if batch.is_empty() {
                break;
            }
            let mut unscheduled = false;
            for n in batch {
                match n {
                    Notification::Unschedule => unscheduled = true,
                    n => out.push(n),
                }
            }
            if unscheduled {
                router.events(c.id, Event::Ready);
                run(router);
            }
        }
        out
    }

    fn forwards(ns: &[Notification]) -> Vec<Forward> {
        ns.iter()
            .filter_map(|n| match n {
                Notification::Forward(f) => Some(f.clone()),
                _ => None,
            })
            .collect()
    }

    fn acks(ns: &[Notification]) -> Vec<Ack> {
        ns.iter()
            .filter_map(|n| match n {
                Notification::DeviceAck(a) => Some(a.clone()),
                _ => None,
            })
            .collect()
    }

    fn payloads(ns: &[Notification]) -> Vec<String> {
        forwards(ns)
            .iter()
            .map(|f| String::from_utf8(f.publish.payload.to_vec()).unwrap())
            .collect()
    }

    fn filter(path: &str, qos: QoS) -> PFilter {
        PFilter {
            path: path.to_owned(),
            qos,
            nolocal: false,
            preserve_retain: false,
            retain_forward_rule: RetainForwardRule::OnEverySubscribe,
        }
    }

    fn subscribe(pkid: u16, filters: &[(&str, QoS)]) -> Packet {
        Packet::Subscribe(
            Subscribe { pkid, filters: filters.iter().map(|(p, q)| filter(p, *q)).collect() },
            None,
        )
    }

    fn unsubscribe(pkid: u16, filters: &[&str]) -> Packet {
        Packet::Unsubscribe(
            Unsubscribe { pkid, filters: filters.iter().map(|s| s.to_string()).collect() },
            None,
        )
    }

    fn publish(topic: &str, payload: &str, qos: QoS, pkid: u16, retain: bool) -> Packet {
        Packet::Publish(
            Publish {
                dup: false,
                qos,
                pkid,
                retain,
                topic: Bytes::copy_from_slice(topic.as_bytes()),
                payload: Bytes::copy_from_slice(payload.as_bytes()),
            },
            None,
        )
    }

    fn puback(pkid: u16) -> Packet {
        Packet::PubAck(PubAck { pkid, reason: PubAckReason::Success }, None)
    }
    fn pubrec(pkid: u16) -> Packet {
        Packet::PubRec(PubRec { pkid, reason: PubRecReason::Success }, None)
    }
    fn pubrel(pkid: u16) -> Packet {
        Packet::PubRel(PubRel { pkid, reason: PubRelReason::Success }, None)
    }
    fn pubcomp(pkid: u16) -> Packet {
        Packet::PubComp(PubComp { pkid, reason: PubCompReason::Success }, None)
    }

    // C01: a client that repeats a subscription with a different QoS gets a SUBACK granting the
    // new QoS, but the broker keeps delivering with the QoS of the first SUBSCRIBE.
    // Correct behaviour: after SUBACK [QoS1] for "t", messages on "t" are forwarded with QoS 1
    // (and, in the other direction, after SUBACK [QoS0] they are forwarded with QoS 0).
    #[test]
    fn resubscribe_with_other_qos_is_granted_but_not_applied() {
        let mut r = Router::new(0, config());
        let s = connect(&mut r, "sub", true);
        let p = connect(&mut r, "pub", true);

        send(&mut r, &s, vec![subscribe(1, &[("t", QoS::AtMostOnce)])]);
        drain(&mut r, &s);
        send(&mut r, &s, vec![subscribe(2, &[("t", QoS::AtLeastOnce)])]);
        let a = acks(&drain(&mut r, &s));
        assert!(
            matches!(&a[..], [Ack::SubAck(s)] if s.pkid == 2 && s.return_codes == vec![SubscribeReasonCode::QoS1]),
            "{a:?}"
        );

        send(&mut r, &p, vec![publish("t", "m1", QoS::AtLeastOnce, 1, false)]);
        let f = forwards(&drain(&mut r, &s));
        assert_eq!(f.len(), 1);
        assert_eq!(
            f[0].publish.qos,
            QoS::AtLeastOnce,
            "the last SUBACK granted QoS 1 for `t`, the message was forwarded with {:?}",
            f[0].publish.qos
        );
    }
}
