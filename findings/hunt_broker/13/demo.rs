#[cfg(test)]
mod hunt_13 {
    #![allow(dead_code, unused_imports, unused_variables)]
    use super::*;
    use crate::protocol::{Filter as PFilter, RetainForwardRule, Subscribe, Unsubscribe, PingReq, SubscribeProperties};
    use bytes::Bytes;
    use crate::router::Ack;
    use parking_lot::Mutex;
    use std::sync::Arc;

    fn config() -> RouterConfig {
        RouterConfig {
            max_segment_size: 1024 * 1024,
            max_connections: 10,
            max_segment_count: 10,
            max_outgoing_packet_count: 1024,
            custom_segment: None,
            initialized_filters: None,
            shared_subscriptions_strategy: Default::default(),
        }
    }

    struct Client {
        id: ConnectionId,
        ibuf: Arc<Mutex<VecDeque<Packet>>>,
        obuf: Arc<Mutex<VecDeque<Notification>>>,
        _rx: Receiver<()>,
    }

    fn run(router: &mut Router) {
        for _ in 0..3000 {
            if router.consume().is_none() {
                break;
            }
        }
    }

    fn connect_with(router: &mut Router, name: &str, clean: bool, f: impl FnOnce(&mut Connection)) -> Client {
        let mut connection = Connection::new(None, name.to_owned(), clean, false);
        f(&mut connection);
        let incoming = Incoming::new(connection.client_id.to_owned());
        let (outgoing, rx) = Outgoing::new(connection.client_id.to_owned());
        let ibuf = incoming.buffer();
        let obuf = outgoing.buffer();
        router.events(0, Event::Connect { connection, incoming, outgoing });
        let id = *router.connection_map.get(name).unwrap();
        run(router);
        Client { id, ibuf, obuf, _rx: rx }
    }

    fn connect(router: &mut Router, name: &str, clean: bool) -> Client {
        connect_with(router, name, clean, |_| {})
    }

    fn send(router: &mut Router, c: &Client, packets: Vec<Packet>) {
        c.ibuf.lock().extend(packets);
        router.events(c.id, Event::DeviceData);
        run(router);
    }

    /// Everything the router handed to the link since the last call. Answers `Unschedule` with `Ready`.
    fn drain(router: &mut Router, c: &Client) -> Vec<Notification> {
        let mut out = Vec::new();
        loop {
            let batch: Vec<Notification> = c.obuf.lock().drain(..).collect();
            if batch.is_empty() {
                break;
            }
            let mut unscheduled = false;
            for n in batch {
                match n {
                    Notification::Unschedule => unscheduled = true,
                    n => out.push(n),
                }
            }
            if unscheduled {
                router.events(c.id, Event::Ready);
                run(router);
            }
        }
        out
    }

    fn forwards(ns: &[Notification]) -> Vec<Forward> {
        ns.iter()
            .filter_map(|n| match n {
                Notification::Forward(f) => Some(f.clone()),
                _ => None,
            })
            .collect()
    }

    fn acks(ns: &[Notification]) -> Vec<Ack> {
        ns.iter()
            .filter_map(|n| match n {
                Notification::DeviceAck(a) => Some(a.clone()),
                _ => None,
            })
            .collect()
    }

    fn payloads(ns: &[Notification]) -> Vec<String> {
        forwards(ns)
            .iter()
            .map(|f| String::from_utf8(f.publish.payload.to_vec()).unwrap())
            .collect()
    }

    fn filter(path: &str, qos: QoS) -> PFilter {
        PFilter {
            path: path.to_owned(),
            qos,
            nolocal: false,
            preserve_retain: false,
            retain_forward_rule: RetainForwardRule::OnEverySubscribe,
        }
    }

    fn subscribe(pkid: u16, filters: &[(&str, QoS)]) -> Packet {
        Packet::Subscribe(
            Subscribe { pkid, filters: filters.iter().map(|(p, q)| filter(p, *q)).collect() },
            None,
        )
    }

    fn unsubscribe(pkid: u16, filters: &[&str]) -> Packet {
        Packet::Unsubscribe(
            Unsubscribe { pkid, filters: filters.iter().map(|s| s.to_string()).collect() },
            None,
        )
    }

    fn publish(topic: &str, payload: &str, qos: QoS, pkid: u16, retain: bool) -> Packet {
        Packet::Publish(
            Publish {
                dup: false,
                qos,
                pkid,
                retain,
                topic: Bytes::copy_from_slice(topic.as_bytes()),
                payload: Bytes::copy_from_slice(payload.as_bytes()),
            },
            None,
        )
    }

    fn puback(pkid: u16) -> Packet {
        Packet::PubAck(PubAck { pkid, reason: PubAckReason::Success }, None)
    }
    fn pubrec(pkid: u16) -> Packet {
        Packet::PubRec(PubRec { pkid, reason: PubRecReason::Success }, None)
    }
    fn pubrel(pkid: u16) -> Packet {
        Packet::PubRel(PubRel { pkid, reason: PubRelReason::Success }, None)
    }
    fn pubcomp(pkid: u16) -> Packet {
        Packet::PubComp(PubComp { pkid, reason: PubCompReason::Success }, None)
    }

    fn epublish(topic: &str, payload: &str, expiry: Option<u32>) -> Packet {
        let props = PublishProperties { message_expiry_interval: expiry, ..Default::default() };
        Packet::Publish(
            Publish {
                dup: false,
                qos: QoS::AtMostOnce,
                pkid: 0,
                retain: false,
                topic: Bytes::copy_from_slice(topic.as_bytes()),
                payload: Bytes::copy_from_slice(payload.as_bytes()),
            },
            Some(props),
        )
    }

    // C17: `forward_device_data` returns `FilterCaughtup` whenever a read produced no publishes,
    // even if the read was `Position::Next` (not caught up) and came back empty only because the
    // messages read had expired (v5 message expiry). For a shared subscription the group cursor is
    // not advanced on that path, so with round robin (one message per read) ONE expired message at
    // the group cursor blocks the group for good: every wake-up re-reads the same expired message.
    // Correct behaviour: the expired message is skipped, m100..m104 (and m105) are forwarded.
    #[test]
    fn expired_message_blocks_shared_group_forever() {
        let mut r = Router::new(0, config());
        let s = connect(&mut r, "sub", true);
        let p = connect(&mut r, "pub", true);
        send(&mut r, &s, vec![subscribe(1, &[("$share/g/t", QoS::AtLeastOnce)])]);
        drain(&mut r, &s);
        // fill the member's window, so that what follows has to wait in the log
        for n in 0..100 {
            send(&mut r, &p, vec![publish("t", &format!("m{n}"), QoS::AtMostOnce, 0, false)]);
        }
        let f = forwards(&drain(&mut r, &s));
        assert_eq!(f.len(), 100);
        send(&mut r, &p, vec![epublish("t", "short-lived", Some(1))]);
        for n in 100..105 {
            send(&mut r, &p, vec![publish("t", &format!("m{n}"), QoS::AtMostOnce, 0, false)]);
        }
        std::thread::sleep(std::time::Duration::from_millis(1100));
        // the member acknowledges everything
        send(&mut r, &s, f.iter().map(|f| puback(f.publish.pkid)).collect());
        let mut got = payloads(&drain(&mut r, &s));
        // ... and even fresh traffic does not get the group going again
        send(&mut r, &p, vec![publish("t", "m105", QoS::AtMostOnce, 0, false)]);
        got.extend(payloads(&drain(&mut r, &s)));
        assert_eq!(got, vec!["m100", "m101", "m102", "m103", "m104", "m105"]);
    }

    // C01: the same early return on a plain subscription: the request is parked although the log
    // has more (unexpired) messages; they stay undelivered while every client has acknowledged
    // everything and the broker is idle (until some later publish on the filter wakes the request).
    #[test]
    fn expired_message_parks_plain_subscription_with_backlog() {
        let mut r = Router::new(0, config());
        let s = connect(&mut r, "sub", true);
        let p = connect(&mut r, "pub", true);
        send(&mut r, &s, vec![subscribe(1, &[("t", QoS::AtLeastOnce)])]);
        drain(&mut r, &s);
        for n in 0..100 {
            send(&mut r, &p, vec![publish("t", &format!("m{n}"), QoS::AtMostOnce, 0, false)]);
        }
        let f = forwards(&drain(&mut r, &s));
        assert_eq!(f.len(), 100);
        send(&mut r, &p, vec![epublish("t", "short-lived", Some(1))]);
        for n in 100..105 {
            send(&mut r, &p, vec![publish("t", &format!("m{n}"), QoS::AtMostOnce, 0, false)]);
        }
        std::thread::sleep(std::time::Duration::from_millis(1100));
        // acknowledge one by one: the first ack frees one slot, the read returns only the expired one
        let mut got = vec![];
        for f in &f {
            send(&mut r, &s, vec![puback(f.publish.pkid)]);
            got.extend(payloads(&drain(&mut r, &s)));
        }
        let idle = r.consume().is_none();
        assert_eq!(got, vec!["m100", "m101", "m102", "m103", "m104"], "broker idle: {idle}");
    }
}
