#[cfg(test)]
mod hunt_5 {
    #![allow(dead_code, unused_imports, unused_variables)]
    use super::*;
    use crate::protocol::{Filter as PFilter, RetainForwardRule, Subscribe, Unsubscribe, PingReq, SubscribeProperties};
    use bytes::Bytes;
    use crate::router::Ack;
    use parking_lot::Mutex;
    use std::sync::Arc;

    fn config() -> RouterConfig {
        RouterConfig {
            max_segment_size: 1024 * 1024,
            max_connections: 10,
            max_segment_count: 10,
            max_outgoing_packet_count: 1024,
            custom_segment: None,
            initialized_filters: None,
            shared_subscriptions_strategy: Default::default(),
        }
    }

    struct Client {
        id: ConnectionId,
        ibuf: Arc<Mutex<VecDeque<Packet>>>,
        obuf: Arc<Mutex<VecDeque<Notification>>>,
        _rx: Receiver<()>,
    }

    fn run(router: &mut Router) {
        for _ in 0..3000 {
            if router.consume().is_none() {
                break;
            }
        }
    }

    fn connect_with(router: &mut Router, name: &str, clean: bool, f: impl FnOnce(&mut Connection)) -> Client {
        let mut connection = Connection::new(None, name.to_owned(), clean, false);
        f(&mut connection);
        let incoming = Incoming::new(connection.client_id.to_owned());
        let (outgoing, rx) = Outgoing::new(connection.client_id.to_owned());
        let ibuf = incoming.buffer();
        let obuf = outgoing.buffer();
        router.events(0, Event::Connect { connection, incoming, outgoing });
        let id = *router.connection_map.get(name).unwrap();
        run(router);
        Client { id, ibuf, obuf, _rx: rx }
    }

    fn connect(router: &mut Router, name: &str, clean: bool) -> Client {
        connect_with(router, name, clean, |_| {})
    }

    fn send(router: &mut Router, c: &Client, packets: Vec<Packet>) {
        c.ibuf.lock().extend(packets);
        router.events(c.id, Event::DeviceData);
        run(router);
    }

    /// Everything the router handed to the link since the last call. Answers `Unschedule` with `Ready`.
    fn drain(router: &mut Router, c: &Client) -> Vec<Notification> {
        let mut out = Vec::new();
        loop {
            let batch: Vec<Notification> = c.obuf.lock().drain(..).collect();
            if batch.is_empty() {
                break;
            }
            let mut unscheduled = false;
            for n in batch {
                match n {
                    Notification::Unschedule => unscheduled = true,
                    n => out.push(n),
                }
            }
            if unscheduled {
                router.events(c.id, Event::Ready);
                run(router);
            }
        }
        out
    }

    fn forwards(ns: &[Notification]) -> Vec<Forward> {
        ns.iter()
            .filter_map(|n| match n {
                Notification::Forward(f) => Some(f.clone()),
                _ => None,
            })
            .collect()
    }

    fn acks(ns: &[Notification]) -> Vec<Ack> {
        ns.iter()
            .filter_map(|n| match n {
                Notification::DeviceAck(a) => Some(a.clone()),
                _ => None,
            })
            .collect()
    }

    fn payloads(ns: &[Notification]) -> Vec<String> {
        forwards(ns)
            .iter()
            .map(|f| String::from_utf8(f.publish.payload.to_vec()).unwrap())
            .collect()
    }

    fn filter(path: &str, qos: QoS) -> PFilter {
        PFilter {
            path: path.to_owned(),
            qos,
            nolocal: false,
            preserve_retain: false,
            retain_forward_rule: RetainForwardRule::OnEverySubscribe,
        }
    }

    fn subscribe(pkid: u16, filters: &[(&str, QoS)]) -> Packet {
        Packet::Subscribe(
            Subscribe { pkid, filters: filters.iter().map(|(p, q)| filter(p, *q)).collect() },
            None,
        )
    }

    fn unsubscribe(pkid: u16, filters: &[&str]) -> Packet {
        Packet::Unsubscribe(
            Unsubscribe { pkid, filters: filters.iter().map(|s| s.to_string()).collect() },
            None,
        )
    }

    fn publish(topic: &str, payload: &str, qos: QoS, pkid: u16, retain: bool) -> Packet {
        Packet::Publish(
            Publish {
                dup: false,
                qos,
                pkid,
                retain,
                topic: Bytes::copy_from_slice(topic.as_bytes()),
                payload: Bytes::copy_from_slice(payload.as_bytes()),
            },
            None,
        )
    }

    fn puback(pkid: u16) -> Packet {
        Packet::PubAck(PubAck { pkid, reason: PubAckReason::Success }, None)
    }
    fn pubrec(pkid: u16) -> Packet {
        Packet::PubRec(PubRec { pkid, reason: PubRecReason::Success }, None)
    }
    fn pubrel(pkid: u16) -> Packet {
        Packet::PubRel(PubRel { pkid, reason: PubRelReason::Success }, None)
    }
    fn pubcomp(pkid: u16) -> Packet {
        Packet::PubComp(PubComp { pkid, reason: PubCompReason::Success }, None)
    }

    // C06: a PUBREL that carries v5 properties (reason string / user properties) matches no arm of
    // `handle_device_payload` (`Packet::PubRel(pubrel, None)` only) and is dropped as "unexpected":
    // no PUBCOMP, and the recorded QoS 2 publish is never forwarded.
    // Correct behaviour: PUBCOMP 7 is sent and the publish is forwarded once.
    #[test]
    fn pubrel_with_properties_is_ignored() {
        let mut r = Router::new(0, config());
        let s = connect(&mut r, "sub", true);
        send(&mut r, &s, vec![subscribe(1, &[("t", QoS::AtMostOnce)])]);
        drain(&mut r, &s);
        let p = connect(&mut r, "pub", true);
        drain(&mut r, &p);

        send(&mut r, &p, vec![publish("t", "x", QoS::ExactlyOnce, 7, false)]);
        let a = acks(&drain(&mut r, &p));
        assert!(matches!(&a[..], [Ack::PubRec(rec)] if rec.pkid == 7));

        let props = crate::protocol::PubRelProperties {
            reason_string: None,
            user_properties: vec![("k".to_owned(), "v".to_owned())],
        };
        send(
            &mut r,
            &p,
            vec![Packet::PubRel(PubRel { pkid: 7, reason: PubRelReason::Success }, Some(props))],
        );
        let a = acks(&drain(&mut r, &p));
        let got = payloads(&drain(&mut r, &s));
        assert!(
            a.iter().any(|a| matches!(a, Ack::PubComp(c) if c.pkid == 7)) && got == vec!["x"],
            "acks to publisher: {a:?}, forwarded to subscriber: {got:?}, publisher still connected: {}",
            r.connection_map.contains_key("pub")
        );
    }
}
