#[cfg(test)]
mod hunt_16 {
    #![allow(dead_code, unused_imports, unused_variables)]
    use super::*;
    use crate::protocol::{Filter as PFilter, RetainForwardRule, Subscribe, Unsubscribe, PingReq, SubscribeProperties};
    use bytes::Bytes;
    use crate::router::Ack;
    use parking_lot::Mutex;
    use std::sync::Arc;

    fn config() -> RouterConfig {
        RouterConfig {
            max_segment_size: 1024 * 1024,
            max_connections: 10,
            max_segment_count: 10,
            max_outgoing_packet_count: 1024,
            custom_segment: None,
            initialized_filters: None,
            shared_subscriptions_strategy: Default::default(),
        }
    }

    struct Client {
        id: ConnectionId,
        ibuf: Arc<Mutex<VecDeque<Packet>>>,
        obuf: Arc<Mutex<VecDeque<Notification>>>,
        _rx: Receiver<()>,
    }

    fn run(router: &mut Router) {
        for _ in 0..3000 {
            if router.consume().is_none() {
                break;
            }
        }
    }

    fn connect_with(router: &mut Router, name: &str, clean: bool, f: impl FnOnce(&mut Connection)) -> Client {
        let mut connection = Connection::new(None, name.to_owned(), clean, false);
        f(&mut connection);
        let incoming = Incoming::new(connection.client_id.to_owned());
        let (outgoing, rx) = Outgoing::new(connection.client_id.to_owned());
        let ibuf = incoming.buffer();
        let obuf = outgoing.buffer();
        router.events(0, Event::Connect { connection, incoming, outgoing });
        let id = *router.connection_map.get(name).unwrap();
        run(router);
        Client { id, ibuf, obuf, _rx: rx }
    }

    fn connect(router: &mut Router, name: &str, clean: bool) -> Client {
        connect_with(router, name, clean, |_| {})
    }

    fn send(router: &mut Router, c: &Client, packets: Vec<Packet>) {
        c.ibuf.lock().extend(packets);
        router.events(c.id, Event::DeviceData);
        run(router);
    }

    /// Everything the router handed to the link since the last call. Answers `Unschedule` with `Ready`.
    fn drain(router: &mut Router, c: &Client) -> Vec<Notification> {
        let mut out = Vec::new();
        loop {
            let batch: Vec<Notification> = c.obuf.lock().drain(..).collect();
            if batch.is_empty() {
                break;
            }
            let mut unscheduled = false;
            for n in batch {
                match n {
                    Notification::Unschedule => unscheduled = true,
                    n => out.push(n),
                }
            }
            if unscheduled {
                router.events(c.id, Event::Ready);
                run(router);
            }
        }
        out
    }

    fn forwards(ns: &[Notification]) -> Vec<Forward> {
        ns.iter()
            .filter_map(|n| match n {
                Notification::Forward(f) => Some(f.clone()),
                _ => None,
            })
            .collect()
    }

    fn acks(ns: &[Notification]) -> Vec<Ack> {
        ns.iter()
            .filter_map(|n| match n {
                Notification::DeviceAck(a) => Some(a.clone()),
                _ => None,
            })
            .collect()
    }

    fn payloads(ns: &[Notification]) -> Vec<String> {
        forwards(ns)
            .iter()
            .map(|f| String::from_utf8(f.publish.payload.to_vec()).unwrap())
            .collect()
    }

    fn filter(path: &str, qos: QoS) -> PFilter {
        PFilter {
            path: path.to_owned(),
            qos,
            nolocal: false,
            preserve_retain: false,
            retain_forward_rule: RetainForwardRule::OnEverySubscribe,
        }
    }

    fn subscribe(pkid: u16, filters: &[(&str, QoS)]) -> Packet {
        Packet::Subscribe(
            Subscribe { pkid, filters: filters.iter().map(|(p, q)| filter(p, *q)).collect() },
            None,
        )
    }

    fn unsubscribe(pkid: u16, filters: &[&str]) -> Packet {
        Packet::Unsubscribe(
            Unsubscribe { pkid, filters: filters.iter().map(|s| s.to_string()).collect() },
            None,
        )
    }

    fn publish(topic: &str, payload: &str, qos: QoS, pkid: u16, retain: bool) -> Packet {
        Packet::Publish(
            Publish {
                dup: false,
                qos,
                pkid,
                retain,
                topic: Bytes::copy_from_slice(topic.as_bytes()),
                payload: Bytes::copy_from_slice(payload.as_bytes()),
            },
            None,
        )
    }

    fn puback(pkid: u16) -> Packet {
        Packet::PubAck(PubAck { pkid, reason: PubAckReason::Success }, None)
    }
    fn pubrec(pkid: u16) -> Packet {
        Packet::PubRec(PubRec { pkid, reason: PubRecReason::Success }, None)
    }
    fn pubrel(pkid: u16) -> Packet {
        Packet::PubRel(PubRel { pkid, reason: PubRelReason::Success }, None)
    }
    fn pubcomp(pkid: u16) -> Packet {
        Packet::PubComp(PubComp { pkid, reason: PubCompReason::Success }, None)
    }

    /// `Router::run_inner` word for word, except that the blocking `router_rx.recv()` is replaced by
    /// "return": the function returns exactly when the router thread would go to sleep.
    fn router_thread_until_it_blocks(r: &mut Router) {
        loop {
            if r.consume().is_none() {
                match r.router_rx.try_recv() {
                    Ok((id, data)) => r.events(id, data),
                    Err(_) => return, // `self.router_rx.recv()?` would block here
                }
            }
            for _ in 0..500 {
                match r.router_rx.try_recv() {
                    Ok((id, data)) => r.events(id, data),
                    Err(_) => break,
                }
            }
            for _ in 0..100 {
                r.consume();
            }
        }
    }

    fn connect_via_channel(r: &mut Router, name: &str) -> Client {
        let connection = Connection::new(None, name.to_owned(), true, false);
        let incoming = Incoming::new(connection.client_id.to_owned());
        let (outgoing, rx) = Outgoing::new(connection.client_id.to_owned());
        let ibuf = incoming.buffer();
        let obuf = outgoing.buffer();
        r.link().send((0, Event::Connect { connection, incoming, outgoing })).unwrap();
        router_thread_until_it_blocks(r);
        let id = *r.connection_map.get(name).unwrap();
        Client { id, ibuf, obuf, _rx: rx }
    }

    fn push(r: &mut Router, c: &Client, packets: Vec<Packet>) {
        c.ibuf.lock().extend(packets);
        r.link().send((c.id, Event::DeviceData)).unwrap();
    }

    // C01: `Scheduler::poll` returns `None` both when the ready queue is empty and when the entry at
    // its front belongs to a connection that is gone (disconnected connections are deliberately
    // left in the queue). `run_inner` takes `consume() == None` as "nothing is ready" and blocks in
    // `router_rx.recv()`. If the stale entry is at the front when the 100 consume calls of one
    // `run_inner` round are used up, every connection queued behind it waits until some unrelated
    // event arrives, however long that takes.
    // Correct behaviour: when the router thread goes to sleep, everything deliverable has been
    // delivered (the ready queue is empty).
    #[test]
    fn stale_ready_queue_entry_puts_the_router_to_sleep_with_ready_connections() {
        let mut r = Router::new(0, RouterConfig { max_connections: 200, ..config() });
        let p1 = connect_via_channel(&mut r, "p1");
        let p2 = connect_via_channel(&mut r, "p2");
        let x = connect_via_channel(&mut r, "x");
        let subs: Vec<Client> = (0..150).map(|i| connect_via_channel(&mut r, &format!("s{i}"))).collect();
        for (i, s) in subs.iter().enumerate() {
            let f = if i < 100 { "t1" } else { "t2" };
            push(&mut r, s, vec![subscribe(1, &[(f, QoS::AtMostOnce)])]);
            router_thread_until_it_blocks(&mut r);
            s.obuf.lock().clear();
        }

        // four events that are in the channel when the router thread wakes up
        push(&mut r, &p1, vec![publish("t1", "m", QoS::AtMostOnce, 0, false)]); // readies s0..s99
        push(&mut r, &x, vec![Packet::PingReq(PingReq)]); // readies x
        push(&mut r, &p2, vec![publish("t2", "n", QoS::AtMostOnce, 0, false)]); // readies s100..s149
        r.link().send((x.id, Event::Disconnect)).unwrap(); // x goes away, its queue entry stays
        router_thread_until_it_blocks(&mut r);

        // the router thread is asleep now; who got what?
        let got_t1 = subs[..100].iter().filter(|s| !s.obuf.lock().is_empty()).count();
        let got_t2 = subs[100..].iter().filter(|s| !s.obuf.lock().is_empty()).count();
        let still_queued = r.scheduler.readyqueue.len();
        assert_eq!(
            (got_t1, got_t2),
            (100, 50),
            "subscribers served on (t1, t2) when the router went to sleep; ready queue still holds {still_queued} connections"
        );
    }
}
