
#[cfg(test)]
mod hunt_2 {
    // C17: a shared-group member that is not at its turn reads the log up to its end, throws
    // the messages away (not its turn) and is then parked as "caught up" although the GROUP
    // cursor is still behind. Nothing but a later publish on the topic wakes it again: not the
    // departure of the member whose turn it was, and not the hand-over of the turn.
    //
    // Correct behaviour: once the member that held the turn has left (disconnect, takeover,
    // UNSUBSCRIBE), the remaining members - connected, consuming, nothing to acknowledge -
    // are handed every message of the group that was not forwarded yet, without waiting for
    // another publish.
    use super::*;
    use crate::protocol::{RetainForwardRule, Subscribe};

    fn config(strategy: Strategy) -> RouterConfig {
        RouterConfig {
            max_segment_size: 1024 * 1024,
            max_connections: 10,
            max_segment_count: 10,
            max_outgoing_packet_count: 1024,
            custom_segment: None,
            initialized_filters: None,
            shared_subscriptions_strategy: strategy,
        }
    }

    type In = std::sync::Arc<parking_lot::Mutex<VecDeque<Packet>>>;
    type Out = std::sync::Arc<parking_lot::Mutex<VecDeque<Notification>>>;

    /// what the router thread does between two events (bounded: a member that skips its turn
    /// keeps its connection in the ready queue)
    fn settle(router: &mut Router) {
        for _ in 0..3000 {
            if router.consume().is_none() {
                break;
            }
        }
    }

    fn connect(router: &mut Router, name: &str) -> (ConnectionId, In, Out, Receiver<()>) {
        let connection = Connection::new(None, name.to_owned(), true, false);
        let incoming = Incoming::new(connection.client_id.to_owned());
        let (outgoing, rx) = Outgoing::new(connection.client_id.to_owned());
        let ibuf = incoming.buffer();
        let obuf = outgoing.buffer();
        router.events(
            0,
            Event::Connect {
                connection,
                incoming,
                outgoing,
            },
        );
        settle(router);
        let id = *router.connection_map.get(name).unwrap();
        (id, ibuf, obuf, rx)
    }

    fn send(router: &mut Router, id: ConnectionId, ibuf: &In, packets: Vec<Packet>) {
        ibuf.lock().extend(packets);
        router.events(id, Event::DeviceData);
        settle(router);
    }

    fn subscribe(path: &str, qos: QoS) -> Packet {
        Packet::Subscribe(
            Subscribe {
                pkid: 1,
                filters: vec![protocol::Filter {
                    path: path.to_owned(),
                    qos,
                    nolocal: false,
                    preserve_retain: false,
                    retain_forward_rule: RetainForwardRule::OnEverySubscribe,
                }],
            },
            None,
        )
    }

    fn publishes(range: std::ops::RangeInclusive<u32>) -> Vec<Packet> {
        range
            .map(|n| {
                Packet::Publish(
                    Publish {
                        dup: false,
                        qos: QoS::AtMostOnce,
                        pkid: 0,
                        retain: false,
                        topic: "t".into(),
                        payload: n.to_be_bytes().to_vec().into(),
                    },
                    None,
                )
            })
            .collect()
    }

    /// numbers of the messages handed to the link; a link that is told to pause answers Ready
    fn drain(router: &mut Router, id: ConnectionId, obuf: &Out) -> Vec<u32> {
        let mut got = vec![];
        loop {
            let notifications: Vec<Notification> = obuf.lock().drain(..).collect();
            if notifications.is_empty() {
                return got;
            }
            for notification in notifications {
                match notification {
                    Notification::Forward(f) => {
                        got.push(u32::from_be_bytes(f.publish.payload[..4].try_into().unwrap()))
                    }
                    Notification::Unschedule => {
                        router.events(id, Event::Ready);
                        settle(router);
                    }
                    _ => {}
                }
            }
        }
    }

    /// default strategy: the member at its turn has a full window, ONE message is waiting
    #[test]
    fn round_robin_turn_holder_leaves_and_the_waiting_message_is_never_forwarded() {
        let mut router = Router::new(0, config(Strategy::RoundRobin));
        let (a, a_in, a_out, _rxa) = connect(&mut router, "a");
        let (b, b_in, b_out, _rxb) = connect(&mut router, "b");
        let (p, p_in, _p_out, _rxp) = connect(&mut router, "publisher");
        send(&mut router, a, &a_in, vec![subscribe("$share/g/t", QoS::AtLeastOnce)]);
        send(&mut router, b, &b_in, vec![subscribe("$share/g/t", QoS::AtMostOnce)]);

        // 200 messages, alternately to a (QoS 1, never acknowledges) and b (QoS 0)
        let mut got_a = vec![];
        let mut got_b = vec![];
        for n in 1..=200 {
            send(&mut router, p, &p_in, publishes(n..=n));
            got_a.extend(drain(&mut router, a, &a_out));
            got_b.extend(drain(&mut router, b, &b_out));
        }
        assert_eq!(got_a.len(), 100, "a holds 100 unacknowledged publishes");
        assert_eq!(got_b.len(), 100);

        // message 201 is a's, but its window is full
        send(&mut router, p, &p_in, publishes(201..=201));
        assert!(drain(&mut router, a, &a_out).is_empty());
        assert!(drain(&mut router, b, &b_out).is_empty());

        // a goes away: the group is { b }, b is connected, consuming, owes no acknowledgement
        router.events(a, Event::Disconnect);
        settle(&mut router);
        let late = drain(&mut router, b, &b_out);
        println!("after a left, b got {late:?}");

        // (only another publish makes the router look at the group again)
        send(&mut router, p, &p_in, publishes(202..=202));
        println!("after one more publish, b got {:?}", drain(&mut router, b, &b_out));

        assert_eq!(late, vec![201], "the only member left must be handed message 201");
    }

    /// sticky strategy: everything behind the turn holder's window is stuck
    #[test]
    fn sticky_turn_holder_leaves_and_the_backlog_is_never_forwarded() {
        let mut router = Router::new(0, config(Strategy::Sticky));
        let (a, a_in, a_out, _rxa) = connect(&mut router, "a");
        let (b, b_in, b_out, _rxb) = connect(&mut router, "b");
        let (p, p_in, _p_out, _rxp) = connect(&mut router, "publisher");
        send(&mut router, a, &a_in, vec![subscribe("$share/g/t", QoS::AtLeastOnce)]);
        send(&mut router, b, &b_in, vec![subscribe("$share/g/t", QoS::AtMostOnce)]);

        send(&mut router, p, &p_in, publishes(1..=150));
        let got_a = drain(&mut router, a, &a_out);
        assert_eq!(got_a, (1..=100).collect::<Vec<u32>>());
        assert!(drain(&mut router, b, &b_out).is_empty());

        // the sticky member leaves with an UNSUBSCRIBE this time
        send(
            &mut router,
            a,
            &a_in,
            vec![Packet::Unsubscribe(
                crate::protocol::Unsubscribe {
                    pkid: 2,
                    filters: vec!["$share/g/t".to_owned()],
                },
                None,
            )],
        );
        let late = drain(&mut router, b, &b_out);
        println!("after a left, b got {} messages", late.len());

        assert_eq!(
            late,
            (101..=150).collect::<Vec<u32>>(),
            "the only member left must be handed messages 101..=150"
        );
    }

    /// random strategy: nobody leaves at all. a acknowledges whatever it gets, b is QoS 0; the
    /// hand-over of the turn to a member that was parked while it waited is enough to stall
    #[test]
    fn random_turn_handed_to_a_parked_member_stalls_the_group() {
        let mut stalled = vec![];
        for trial in 0..40 {
            let mut router = Router::new(0, config(Strategy::Random));
            let (a, a_in, a_out, _rxa) = connect(&mut router, "a");
            let (b, b_in, b_out, _rxb) = connect(&mut router, "b");
            let (p, p_in, _p_out, _rxp) = connect(&mut router, "publisher");
            send(&mut router, a, &a_in, vec![subscribe("$share/g/t", QoS::AtLeastOnce)]);
            send(&mut router, b, &b_in, vec![subscribe("$share/g/t", QoS::AtMostOnce)]);
            send(&mut router, p, &p_in, publishes(1..=150));
            send(&mut router, p, &p_in, publishes(151..=300));

            // both members take what they are given, a acknowledges all of it, until nothing
            // moves any more
            let mut got = vec![];
            let mut next_pkid = [1u16, 1u16];
            loop {
                let mut progress = false;
                for (k, (id, ibuf, obuf)) in [(a, &a_in, &a_out), (b, &b_in, &b_out)]
                    .into_iter()
                    .enumerate()
                {
                    let batch = drain(&mut router, id, obuf);
                    if batch.is_empty() {
                        continue;
                    }
                    progress = true;
                    if k == 1 {
                        // b is a QoS 0 member: nothing to acknowledge
                        got.extend(batch);
                        continue;
                    }
                    let acks = batch
                        .iter()
                        .map(|_| {
                            let pkid = next_pkid[k];
                            next_pkid[k] = if pkid == 100 { 1 } else { pkid + 1 };
                            Packet::PubAck(
                                PubAck {
                                    pkid,
                                    reason: PubAckReason::Success,
                                },
                                None,
                            )
                        })
                        .collect();
                    got.extend(batch);
                    send(&mut router, id, ibuf, acks);
                    assert!(router.connection_map.contains_key(if k == 0 { "a" } else { "b" }));
                }
                if !progress {
                    break;
                }
            }
            got.sort();
            if got != (1..=300).collect::<Vec<u32>>() {
                stalled.push((trial, got.len()));
            }
        }
        println!("(trial, messages forwarded out of 300) of the stalled trials: {stalled:?}");
        assert!(
            stalled.is_empty(),
            "members connected, everything acknowledged, router idle: all 300 must be forwarded"
        );
    }
}
