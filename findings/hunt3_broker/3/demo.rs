
#[cfg(test)]
mod hunt_3 {
    // C17 / C08: the position of a shared group lives in the group only. When the last
    // connected member leaves, the group (and its position) is dropped; a persistent member
    // that comes back re-creates the group at the position its OWN saved request last saw,
    // which is older: messages that were forwarded to (and acknowledged by) another member
    // in the meantime are forwarded a second time.
    //
    // Correct behaviour: a message of the group is forwarded to at most one member, never
    // twice. The returning member gets what the group has not handed to anybody yet (here:
    // message 7, accepted while nobody was connected), and nothing else.
    use super::*;
    use crate::protocol::{RetainForwardRule, Subscribe};

    fn config() -> RouterConfig {
        RouterConfig {
            max_segment_size: 1024 * 1024,
            max_connections: 10,
            max_segment_count: 10,
            max_outgoing_packet_count: 1024,
            custom_segment: None,
            initialized_filters: None,
            shared_subscriptions_strategy: Default::default(),
        }
    }

    type In = std::sync::Arc<parking_lot::Mutex<VecDeque<Packet>>>;
    type Out = std::sync::Arc<parking_lot::Mutex<VecDeque<Notification>>>;

    fn settle(router: &mut Router) {
        for _ in 0..3000 {
            if router.consume().is_none() {
                break;
            }
        }
    }

    fn connect(router: &mut Router, name: &str, clean: bool) -> (ConnectionId, In, Out, Receiver<()>) {
        let connection = Connection::new(None, name.to_owned(), clean, false);
        let incoming = Incoming::new(connection.client_id.to_owned());
        let (outgoing, rx) = Outgoing::new(connection.client_id.to_owned());
        let ibuf = incoming.buffer();
        let obuf = outgoing.buffer();
        router.events(
            0,
            Event::Connect {
                connection,
                incoming,
                outgoing,
            },
        );
        settle(router);
        let id = *router.connection_map.get(name).unwrap();
        (id, ibuf, obuf, rx)
    }

    fn send(router: &mut Router, id: ConnectionId, ibuf: &In, packets: Vec<Packet>) {
        ibuf.lock().extend(packets);
        router.events(id, Event::DeviceData);
        settle(router);
    }

    fn subscribe(path: &str) -> Packet {
        Packet::Subscribe(
            Subscribe {
                pkid: 1,
                filters: vec![protocol::Filter {
                    path: path.to_owned(),
                    qos: QoS::AtLeastOnce,
                    nolocal: false,
                    preserve_retain: false,
                    retain_forward_rule: RetainForwardRule::OnEverySubscribe,
                }],
            },
            None,
        )
    }

    fn publish(n: u8) -> Packet {
        Packet::Publish(
            Publish {
                dup: false,
                qos: QoS::AtMostOnce,
                pkid: 0,
                retain: false,
                topic: "t".into(),
                payload: vec![n].into(),
            },
            None,
        )
    }

    /// take what the link was handed and acknowledge every publish, in order
    fn receive_and_ack(router: &mut Router, id: ConnectionId, ibuf: &In, obuf: &Out) -> Vec<u8> {
        let mut got = vec![];
        loop {
            let notifications: Vec<Notification> = obuf.lock().drain(..).collect();
            let mut acks = vec![];
            for notification in notifications {
                if let Notification::Forward(f) = notification {
                    got.push(f.publish.payload[0]);
                    acks.push(Packet::PubAck(
                        PubAck {
                            pkid: f.publish.pkid,
                            reason: PubAckReason::Success,
                        },
                        None,
                    ));
                }
            }
            if acks.is_empty() {
                return got;
            }
            send(router, id, ibuf, acks);
        }
    }

    #[test]
    fn returning_persistent_member_is_sent_what_another_member_already_got() {
        let mut router = Router::new(0, config());
        let (a, a_in, a_out, _rxa) = connect(&mut router, "a", false); // persistent
        let (b, b_in, b_out, _rxb) = connect(&mut router, "b", true);
        let (p, p_in, _p_out, _rxp) = connect(&mut router, "publisher", true);
        send(&mut router, a, &a_in, vec![subscribe("$share/g/t")]);
        send(&mut router, b, &b_in, vec![subscribe("$share/g/t")]);

        let mut got_a = vec![];
        let mut got_b = vec![];
        for n in 1..=4 {
            send(&mut router, p, &p_in, vec![publish(n)]);
            got_a.extend(receive_and_ack(&mut router, a, &a_in, &a_out));
            got_b.extend(receive_and_ack(&mut router, b, &b_in, &b_out));
        }
        println!("both connected: a got {got_a:?}, b got {got_b:?}");

        // a goes away with nothing unacknowledged; b serves the group alone
        router.events(a, Event::Disconnect);
        settle(&mut router);
        for n in 5..=6 {
            send(&mut router, p, &p_in, vec![publish(n)]);
            got_b.extend(receive_and_ack(&mut router, b, &b_in, &b_out));
        }
        println!("a away: b got {got_b:?}");
        let mut all: Vec<u8> = got_a.iter().chain(got_b.iter()).copied().collect();
        all.sort();
        assert_eq!(all, vec![1, 2, 3, 4, 5, 6], "each of 1..=6 went to exactly one member");

        // b leaves too, one more message is accepted while nobody is connected
        router.events(b, Event::Disconnect);
        settle(&mut router);
        send(&mut router, p, &p_in, vec![publish(7)]);

        // a resumes its session
        let (a, a_in, a_out, _rxa2) = connect(&mut router, "a", false);
        let resumed = receive_and_ack(&mut router, a, &a_in, &a_out);
        println!("a resumed and got {resumed:?}");

        let twice: Vec<u8> = resumed.iter().filter(|n| got_b.contains(n)).copied().collect();
        assert!(
            twice.is_empty(),
            "messages {twice:?} were forwarded to b (and acknowledged) and now to a as well"
        );
        assert_eq!(resumed, vec![7]);
    }
}
