
#[cfg(test)]
mod hunt_4 {
    // C08 (and C09 "closes that connection only"): an acknowledgement the broker did not
    // solicit (unknown packet id, or out of order) closes the connection - but before that,
    // `Outgoing::register_ack` has already popped the OLDEST unacknowledged publish from the
    // in-flight list. The saved session then restarts after it: a QoS 1 message the client
    // never acknowledged is not sent again.
    //
    // Correct behaviour: the bad acknowledgement costs the client its connection and nothing
    // else; after the reconnect with clean-session off delivery restarts from the oldest
    // publish that was not acknowledged, i.e. messages 1 and 2 are both sent again.
    use super::*;
    use crate::protocol::{RetainForwardRule, Subscribe};

    fn config() -> RouterConfig {
        RouterConfig {
            max_segment_size: 1024 * 1024,
            max_connections: 10,
            max_segment_count: 10,
            max_outgoing_packet_count: 1024,
            custom_segment: None,
            initialized_filters: None,
            shared_subscriptions_strategy: Default::default(),
        }
    }

    type In = std::sync::Arc<parking_lot::Mutex<VecDeque<Packet>>>;
    type Out = std::sync::Arc<parking_lot::Mutex<VecDeque<Notification>>>;

    fn settle(router: &mut Router) {
        for _ in 0..3000 {
            if router.consume().is_none() {
                break;
            }
        }
    }

    fn connect(router: &mut Router, name: &str, clean: bool) -> (ConnectionId, In, Out, Receiver<()>) {
        let connection = Connection::new(None, name.to_owned(), clean, false);
        let incoming = Incoming::new(connection.client_id.to_owned());
        let (outgoing, rx) = Outgoing::new(connection.client_id.to_owned());
        let ibuf = incoming.buffer();
        let obuf = outgoing.buffer();
        router.events(
            0,
            Event::Connect {
                connection,
                incoming,
                outgoing,
            },
        );
        settle(router);
        let id = *router.connection_map.get(name).unwrap();
        (id, ibuf, obuf, rx)
    }

    fn send(router: &mut Router, id: ConnectionId, ibuf: &In, packets: Vec<Packet>) {
        ibuf.lock().extend(packets);
        router.events(id, Event::DeviceData);
        settle(router);
    }

    fn publish(n: u8) -> Packet {
        Packet::Publish(
            Publish {
                dup: false,
                qos: QoS::AtLeastOnce,
                pkid: n as u16,
                retain: false,
                topic: "t".into(),
                payload: vec![n].into(),
            },
            None,
        )
    }

    /// (payload, packet id) of the publishes handed to the link
    fn forwards(obuf: &Out) -> Vec<(u8, u16)> {
        obuf.lock()
            .drain(..)
            .filter_map(|n| match n {
                Notification::Forward(f) => Some((f.publish.payload[0], f.publish.pkid)),
                _ => None,
            })
            .collect()
    }

    fn scenario(bad_pkid: u16) -> Vec<(u8, u16)> {
        let mut router = Router::new(0, config());
        let (s, s_in, s_out, _rxs) = connect(&mut router, "subscriber", false);
        let (p, p_in, _p_out, _rxp) = connect(&mut router, "publisher", true);
        let subscribe = Packet::Subscribe(
            Subscribe {
                pkid: 1,
                filters: vec![protocol::Filter {
                    path: "t".to_owned(),
                    qos: QoS::AtLeastOnce,
                    nolocal: false,
                    preserve_retain: false,
                    retain_forward_rule: RetainForwardRule::OnEverySubscribe,
                }],
            },
            None,
        );
        send(&mut router, s, &s_in, vec![subscribe]);
        send(&mut router, p, &p_in, vec![publish(1), publish(2)]);
        assert_eq!(forwards(&s_out), vec![(1, 1), (2, 2)]);

        // the subscriber acknowledges something it should not: nothing valid is acknowledged
        let puback = PubAck {
            pkid: bad_pkid,
            reason: PubAckReason::Success,
        };
        send(&mut router, s, &s_in, vec![Packet::PubAck(puback, None)]);
        assert!(
            !router.connection_map.contains_key("subscriber"),
            "the connection is closed: that much is expected"
        );

        // ... and comes back to its session
        let (_s, _s_in, s_out, _rxs2) = connect(&mut router, "subscriber", false);
        let connack = s_out.lock().pop_front();
        assert!(
            matches!(
                connack,
                Some(Notification::DeviceAck(crate::router::Ack::ConnAck(_, ConnAck { session_present: true, .. }, _)))
            ),
            "{connack:?}"
        );
        forwards(&s_out)
    }

    #[test]
    fn unsolicited_ack_loses_the_oldest_unacknowledged_publish() {
        let resent = scenario(50);
        println!("after PUBACK(50) and resume the broker sent {resent:?}");
        assert_eq!(
            resent.iter().map(|(n, _)| *n).collect::<Vec<_>>(),
            vec![1, 2],
            "neither message was acknowledged: both are sent again"
        );
    }

    #[test]
    fn out_of_order_ack_loses_the_oldest_unacknowledged_publish() {
        let resent = scenario(2);
        println!("after PUBACK(2) before PUBACK(1) and resume the broker sent {resent:?}");
        assert!(
            resent.iter().any(|(n, _)| *n == 1),
            "message 1 was never acknowledged: it is sent again"
        );
    }
}
