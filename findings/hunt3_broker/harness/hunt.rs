// Randomised model-based test of the routing core (scratch, not committed)
use super::*;
use crate::router::Ack;
use bytes::Bytes;
use crate::protocol::{PingReq, RetainForwardRule, Subscribe, SubscribeProperties, Unsubscribe};
use parking_lot::Mutex;
use rand::{rngs::StdRng, Rng, SeedableRng};
use std::collections::BTreeMap;
use std::sync::Arc;

fn mt(topic: &str, filter: &str) -> bool {
    if topic.starts_with('$') {
        return false;
    }
    let t: Vec<&str> = topic.split('/').collect();
    let f: Vec<&str> = filter.split('/').collect();
    let mut i = 0;
    for (k, fl) in f.iter().enumerate() {
        if *fl == "#" {
            return k == f.len() - 1;
        }
        if i >= t.len() {
            return false;
        }
        if *fl != "+" && *fl != t[i] {
            return false;
        }
        i += 1;
    }
    i == t.len()
}

#[derive(Clone, Debug)]
pub enum P {
    Sub(Vec<(String, u8)>, Option<usize>),
    Unsub(Vec<String>),
    Pub(String, u8, bool, bool), // topic, qos, retain, empty payload
    Release,
    Ping,
}

#[derive(Clone, Debug)]
pub enum A {
    Connect(usize, bool),
    Disconnect(usize, u8),
    Batch(usize, Vec<P>),
    Drain(usize, usize),
    Ack(usize, usize),
    Ready(usize, bool),
    Quiesce,
}

#[derive(Clone, Debug, PartialEq)]
enum Rep {
    PubAck(u16),
    PubRec(u16),
    PubComp(u16),
    PubRel(u16),
    SubAck(u16, Vec<u8>),
    UnsubAck(u16, usize),
    Ping,
}

struct SubM {
    qos: u8,
    /// every message accepted for this subscription since it took effect, append only
    queue: Vec<u64>,
    inc: u64,
    retained: HashSet<u64>,
    subid: Option<usize>,
}

struct Infl {
    pkid: u16,
    qos: u8,
    msgs: Vec<u64>,
    retained: bool,
    maybe_stale: bool,
}

/// One consistent attribution of everything received so far to subscriptions
#[derive(Clone, PartialEq, Eq, PartialOrd, Ord, Debug, Default)]
struct World {
    /// per subscription incarnation: (acknowledged prefix, next index to be sent)
    ptr: BTreeMap<u64, (usize, usize)>,
}

struct Conn {
    id: usize,
    ibuf: Arc<Mutex<VecDeque<Packet>>>,
    obuf: Arc<Mutex<VecDeque<Notification>>>,
    _rx: Receiver<()>,
    inflight: VecDeque<Infl>,
    expected: VecDeque<Rep>,
    need_ready: bool,
    pend_comp: VecDeque<u16>,
    unreleased: VecDeque<(u16, String, bool, bool)>,
    got_connack: bool,
    expect_present: bool,
    aliases: HashMap<u16, String>,
}

struct Cl {
    name: String,
    conn: Option<Conn>,
    clean: bool,
    session: bool,
    subs: BTreeMap<String, SubM>,
    worlds: Vec<World>,
    pubrels: VecDeque<u16>,
    next_pkid: u16,
}

#[derive(Clone)]
pub struct Cfg {
    pub seg_size: usize,
    pub seg_count: usize,
    pub out_count: u64,
    pub strict: bool,
    pub retained: bool,
    pub alias: bool,
    pub ack_before_unsub: bool,
    pub pad: usize,
    pub subids: bool,
    pub nclients: usize,
    pub init_filters: Option<Vec<String>>,
}

pub struct H {
    router: Router,
    cls: Vec<Cl>,
    next_msg: u64,
    next_inc: u64,
    topics: HashMap<u64, String>,
    retained: HashMap<String, u64>,
    cfg: Cfg,
    q2ids: HashMap<(usize, u16), u64>,
    empties: HashMap<String, Vec<u64>>,
    pub trace: Vec<String>,
}

type R = Result<(), String>;

impl H {
    pub fn new(cfg: Cfg) -> H {
        let router = Router::new(
            0,
            RouterConfig {
                max_segment_size: cfg.seg_size,
                max_connections: 10,
                max_segment_count: cfg.seg_count,
                max_outgoing_packet_count: cfg.out_count,
                custom_segment: std::env::var("CUSTOM").ok().map(|_| {
                    let mut m = HashMap::new();
                    m.insert(
                        "a/#".to_string(),
                        SegmentConfig {
                            max_segment_size: 1024,
                            max_segment_count: 2,
                        },
                    );
                    m.insert(
                        "+/b".to_string(),
                        SegmentConfig {
                            max_segment_size: 2048,
                            max_segment_count: 1000,
                        },
                    );
                    m
                }),
                initialized_filters: cfg.init_filters.clone(),
                shared_subscriptions_strategy: Default::default(),
            },
        );
        let cls = (0..cfg.nclients)
            .map(|i| Cl {
                name: format!("c{i}"),
                conn: None,
                clean: true,
                session: false,
                subs: BTreeMap::new(),
                worlds: vec![World::default()],
                pubrels: VecDeque::new(),
                next_pkid: 1,
            })
            .collect();
        H {
            router,
            cls,
            next_msg: 1,
            next_inc: 1,
            topics: HashMap::new(),
            retained: HashMap::new(),
            cfg,
            q2ids: HashMap::new(),
            empties: HashMap::new(),
            trace: vec![],
        }
    }

    fn settle(&mut self) -> R {
        for _ in 0..3000 {
            if self.router.consume().is_none() {
                return Ok(());
            }
        }
        Err("router never went idle (3000 consume calls)".into())
    }

    fn alive(&self, c: usize) -> bool {
        match &self.cls[c].conn {
            Some(conn) => self.router.connection_map.get(&self.cls[c].name) == Some(&conn.id),
            None => false,
        }
    }

    fn model_disconnect(&mut self, c: usize) {
        let cl = &mut self.cls[c];
        cl.conn = None;
        if cl.clean {
            cl.subs.clear();
            cl.worlds = vec![World::default()];
            cl.pubrels.clear();
            cl.session = false;
        } else {
            cl.session = true;
            for s in cl.subs.values_mut() {
                // a retained replay that was not acknowledged is a one-off: not replayed
                s.retained.clear();
            }
            for w in cl.worlds.iter_mut() {
                for p in w.ptr.values_mut() {
                    p.1 = p.0;
                }
            }
            cl.worlds.sort();
            cl.worlds.dedup();
        }
    }

    fn connect(&mut self, c: usize, clean: bool) -> R {
        if self.cls[c].conn.is_some() {
            // takeover: link delivers what it has first
            self.drain(c, usize::MAX)?;
            self.model_disconnect(c);
        }
        let name = self.cls[c].name.clone();
        let mut connection = Connection::new(None, name.clone(), clean, false);
        if self.cfg.alias {
            connection.topic_alias_max(3);
        }
        let incoming = Incoming::new(connection.client_id.to_owned());
        let (outgoing, rx) = Outgoing::new(connection.client_id.to_owned());
        let ibuf = incoming.buffer();
        let obuf = outgoing.buffer();
        self.router.events(
            0,
            Event::Connect {
                connection,
                incoming,
                outgoing,
            },
        );
        let id = *self
            .router
            .connection_map
            .get(&name)
            .ok_or("connect: not registered")?;
        let cl = &mut self.cls[c];
        let expect_present = !clean && cl.session;
        if clean {
            cl.subs.clear();
            cl.worlds = vec![World::default()];
            cl.pubrels.clear();
            cl.session = false;
        } else {
            cl.session = true;
        }
        cl.clean = clean;
        let expected: VecDeque<Rep> = cl.pubrels.iter().map(|p| Rep::PubRel(*p)).collect();
        cl.conn = Some(Conn {
            id,
            ibuf,
            obuf,
            _rx: rx,
            inflight: VecDeque::new(),
            expected,
            need_ready: false,
            pend_comp: VecDeque::new(),
            unreleased: VecDeque::new(),
            got_connack: false,
            expect_present,
            aliases: HashMap::new(),
        });
        self.settle()
    }

    fn disconnect(&mut self, c: usize, kind: u8) -> R {
        if self.cls[c].conn.is_none() {
            return Ok(());
        }
        self.drain(c, usize::MAX)?;
        let conn = self.cls[c].conn.as_ref().unwrap();
        let id = conn.id;
        if kind == 0 {
            conn.ibuf.lock().push_back(Packet::Disconnect(
                Disconnect {
                    reason_code: DisconnectReasonCode::NormalDisconnection,
                },
                None,
            ));
            self.router.events(id, Event::DeviceData);
        } else {
            self.router.events(id, Event::Disconnect);
        }
        if self.router.connection_map.contains_key(&self.cls[c].name) {
            return Err(format!("c{c} still registered after disconnect"));
        }
        self.model_disconnect(c);
        self.settle()
    }

    fn accept(&mut self, topic: &str, retain: bool, empty: bool) -> u64 {
        let id = self.next_msg;
        self.next_msg += 1;
        self.accept_with_id(id, topic, retain, empty);
        id
    }

    fn accept_with_id(&mut self, id: u64, topic: &str, retain: bool, empty: bool) -> u64 {
        self.topics.insert(id, topic.to_owned());
        if empty {
            self.empties.entry(topic.to_owned()).or_default().push(id);
        }
        if retain {
            if empty {
                self.retained.remove(topic);
            } else {
                self.retained.insert(topic.to_owned(), id);
            }
        }
        for cl in self.cls.iter_mut() {
            for (f, s) in cl.subs.iter_mut() {
                if mt(topic, f) {
                    s.queue.push(id);
                }
            }
        }
        id
    }

    fn payload(&self, id: u64, empty: bool) -> Bytes {
        if empty {
            return Bytes::new();
        }
        let mut v = id.to_be_bytes().to_vec();
        v.resize(8 + self.cfg.pad, 7);
        v.into()
    }

    fn batch(&mut self, c: usize, items: &[P]) -> R {
        if self.cls[c].conn.is_none() {
            return Ok(());
        }
        // retained mode: a SUBSCRIBE travels alone and reaches a quiet connection (known
        // defects: retained publish between SUBSCRIBE and first read; window too small)
        let only_sub: Vec<P>;
        let mut items = items;
        let mut quiet_first = false;
        if self.cfg.retained {
            if let Some(sub) = items.iter().find(|p| matches!(p, P::Sub(..))) {
                only_sub = vec![sub.clone()];
                items = &only_sub;
                quiet_first = true;
            }
        }
        self.drain(c, usize::MAX)?;
        let resub = items.iter().any(|p| match p {
            P::Sub(fs, _) => fs.iter().any(|(f, _)| self.cls[c].subs.contains_key(f)) || fs.len() > 1,
            _ => false,
        });
        if resub
            || quiet_first
            || (self.cfg.ack_before_unsub
                && items
                    .iter()
                    .any(|p| matches!(p, P::Unsub(_))))
        {
            for _ in 0..200 {
                let a = self.ack(c, usize::MAX)?;
                let mut d = self.drain(c, usize::MAX)?;
                if self.conn(c).need_ready {
                    self.ready(c, false)?;
                    d += 1;
                }
                if a + d == 0 {
                    break;
                }
            }
        }
        let mut packets = vec![];
        for item in items {
            match item {
                P::Sub(filters, subid) => {
                    let pkid = self.pkid(c);
                    let mut fs = vec![];
                    let mut codes = vec![];
                    for (f, q) in filters {
                        fs.push(protocol::Filter {
                            path: f.clone(),
                            qos: protocol::qos(*q).unwrap(),
                            nolocal: false,
                            preserve_retain: false,
                            retain_forward_rule: RetainForwardRule::OnEverySubscribe,
                        });
                        codes.push(*q);
                        let inc = self.next_inc;
                        self.next_inc += 1;
                        let retained: HashSet<u64> = self
                            .retained
                            .iter()
                            .filter(|(t, _)| mt(t, f))
                            .map(|(_, id)| *id)
                            .collect();
                        let cl = &mut self.cls[c];
                        match cl.subs.get_mut(f) {
                            Some(s) => {
                                s.qos = *q;
                                if subid.is_some() {
                                    s.subid = *subid;
                                }
                            }
                            None => {
                                cl.subs.insert(
                                    f.clone(),
                                    SubM {
                                        qos: *q,
                                        queue: Vec::new(),
                                        inc,
                                        retained,
                                        subid: *subid,
                                    },
                                );
                                for w in cl.worlds.iter_mut() {
                                    w.ptr.insert(inc, (0, 0));
                                }
                            }
                        }
                    }
                    let props = subid.map(|id| SubscribeProperties {
                        id: Some(id),
                        user_properties: vec![],
                    });
                    packets.push(Packet::Subscribe(Subscribe { pkid, filters: fs }, props));
                    self.conn(c).expected.push_back(Rep::SubAck(pkid, codes));
                }
                P::Unsub(filters) => {
                    let pkid = self.pkid(c);
                    for f in filters {
                        let cl = &mut self.cls[c];
                        if let Some(s) = cl.subs.remove(f) {
                            if let Some(conn) = cl.conn.as_mut() {
                                for i in conn.inflight.iter_mut() {
                                    i.maybe_stale = true;
                                }
                            }
                            for w in cl.worlds.iter_mut() {
                                w.ptr.remove(&s.inc);
                            }
                            cl.worlds.sort();
                            cl.worlds.dedup();
                        }
                    }
                    packets.push(Packet::Unsubscribe(
                        Unsubscribe {
                            pkid,
                            filters: filters.clone(),
                        },
                        None,
                    ));
                    self.conn(c)
                        .expected
                        .push_back(Rep::UnsubAck(pkid, filters.len()));
                }
                P::Pub(topic, qos, retain, empty) => {
                    let retain = *retain && self.cfg.retained;
                    let empty = *empty && retain;
                    let pkid = if *qos == 0 { 0 } else { self.pkid(c) };
                    let id = if *qos < 2 {
                        self.accept(topic, retain, empty)
                    } else {
                        0
                    };
                    // a QoS 2 publish gets its message id at release; payload is filled then
                    let payload = if *qos < 2 {
                        self.payload(id, empty)
                    } else {
                        // reserve id now so that payload is fixed, but model-accept at release
                        let id = self.next_msg;
                        self.next_msg += 1;
                        self.topics.insert(id, topic.clone());
                        self.conn(c)
                            .unreleased
                            .push_back((pkid, topic.clone(), retain, empty));
                        // remember the id via the trace of unreleased: store in topics map under pkid key
                        self.q2ids.insert((c, pkid), id);
                        self.payload(id, empty)
                    };
                    packets.push(Packet::Publish(
                        Publish {
                            dup: false,
                            qos: protocol::qos(*qos).unwrap(),
                            pkid,
                            retain,
                            topic: Bytes::from(topic.clone()),
                            payload,
                        },
                        None,
                    ));
                    match qos {
                        1 => self.conn(c).expected.push_back(Rep::PubAck(pkid)),
                        2 => self.conn(c).expected.push_back(Rep::PubRec(pkid)),
                        _ => {}
                    }
                }
                P::Release => {
                    if let Some((pkid, topic, retain, empty)) = self.conn(c).unreleased.pop_front()
                    {
                        let id = self.q2ids.remove(&(c, pkid)).unwrap();
                        self.accept_with_id(id, &topic, retain, empty);
                        packets.push(Packet::PubRel(
                            PubRel {
                                pkid,
                                reason: PubRelReason::Success,
                            },
                            None,
                        ));
                        self.conn(c).expected.push_back(Rep::PubComp(pkid));
                    }
                }
                P::Ping => {
                    packets.push(Packet::PingReq(PingReq));
                    self.conn(c).expected.push_back(Rep::Ping);
                }
            }
        }
        if packets.is_empty() {
            return Ok(());
        }
        let id = self.conn(c).id;
        self.conn(c).ibuf.lock().extend(packets);
        self.router.events(id, Event::DeviceData);
        if !self.alive(c) {
            return Err(format!("c{c} was closed by the router after a valid batch"));
        }
        self.settle()
    }

    fn conn(&mut self, c: usize) -> &mut Conn {
        self.cls[c].conn.as_mut().unwrap()
    }

    fn pkid(&mut self, c: usize) -> u16 {
        let cl = &mut self.cls[c];
        let p = cl.next_pkid;
        cl.next_pkid = if p >= 60000 { 1 } else { p + 1 };
        p
    }

    fn drain(&mut self, c: usize, n: usize) -> Result<usize, String> {
        if self.cls[c].conn.is_none() {
            return Ok(0);
        }
        let notifs: Vec<Notification> = {
            let conn = self.conn(c);
            let mut b = conn.obuf.lock();
            let k = n.min(b.len());
            b.drain(..k).collect()
        };
        let count = notifs.len();
        for n in notifs {
            self.process(c, n)?;
        }
        Ok(count)
    }

    fn process(&mut self, c: usize, n: Notification) -> R {
        match n {
            Notification::Unschedule => {
                self.conn(c).need_ready = true;
            }
            Notification::DeviceAck(ack) => {
                let conn = self.cls[c].conn.as_mut().unwrap();
                if let Ack::ConnAck(_, connack, _) = &ack {
                    if conn.got_connack {
                        return Err(format!("c{c}: second CONNACK"));
                    }
                    conn.got_connack = true;
                    if connack.session_present != conn.expect_present {
                        return Err(format!(
                            "c{c}: session_present = {} expected {}",
                            connack.session_present, conn.expect_present
                        ));
                    }
                    return Ok(());
                }
                if !conn.got_connack {
                    return Err(format!("c{c}: reply before CONNACK: {ack:?}"));
                }
                let got = match &ack {
                    Ack::PubAck(a) => Rep::PubAck(a.pkid),
                    Ack::PubRec(a) => Rep::PubRec(a.pkid),
                    Ack::PubComp(a) => Rep::PubComp(a.pkid),
                    Ack::PubRel(a) => Rep::PubRel(a.pkid),
                    Ack::SubAck(a) => Rep::SubAck(
                        a.pkid,
                        a.return_codes
                            .iter()
                            .map(|c| match c {
                                SubscribeReasonCode::QoS0 => 0,
                                SubscribeReasonCode::QoS1 => 1,
                                SubscribeReasonCode::QoS2 => 2,
                                _ => 99,
                            })
                            .collect(),
                    ),
                    Ack::UnsubAck(a) => Rep::UnsubAck(a.pkid, a.reasons.len()),
                    Ack::PingResp(_) => Rep::Ping,
                    other => return Err(format!("c{c}: unexpected ack {other:?}")),
                };
                let want = conn.expected.pop_front();
                if want.as_ref() != Some(&got) {
                    return Err(format!("c{c}: reply {got:?} but expected {want:?}"));
                }
                if let Rep::PubRel(p) = got {
                    conn.pend_comp.push_back(p);
                }
            }
            Notification::Forward(f) => {
                let strict = self.cfg.strict;
                let cl = &mut self.cls[c];
                let conn = cl.conn.as_mut().unwrap();
                if !conn.got_connack {
                    return Err(format!("c{c}: publish before CONNACK"));
                }
                let p = &f.publish;
                let alias = f.properties.as_ref().and_then(|p| p.topic_alias);
                let topic = if p.topic.is_empty() {
                    match alias.and_then(|a| conn.aliases.get(&a)) {
                        Some(t) => t.clone(),
                        None => {
                            return Err(format!("c{c}: empty topic with unknown alias {alias:?}"))
                        }
                    }
                } else {
                    let t = String::from_utf8(p.topic.to_vec()).unwrap();
                    if let Some(a) = alias {
                        conn.aliases.insert(a, t.clone());
                    }
                    t
                };
                let ids: Vec<u64> = if p.payload.is_empty() {
                    self.empties.get(&topic).cloned().unwrap_or_default()
                } else {
                    vec![u64::from_be_bytes(p.payload[..8].try_into().unwrap())]
                };
                if ids.is_empty() {
                    return Err(format!("c{c}: forwarded empty payload on {topic}, never published"));
                }
                let id = ids[0];
                if self.topics.get(&id) != Some(&topic) {
                    return Err(format!(
                        "c{c}: message {id} arrived with topic {topic}, published on {:?}",
                        self.topics.get(&id)
                    ));
                }
                let qos = p.qos as u8;
                let subids = f
                    .properties
                    .as_ref()
                    .map(|p| p.subscription_identifiers.clone())
                    .unwrap_or_default();
                let strict = self.cfg.strict;
                let check_ids = self.cfg.subids;
                if std::env::var("TRACE").is_ok() {
                    println!("      c{c} <- msg {id} {topic} q{qos} pkid {} retain {} worlds {}", p.pkid, p.retain, cl.worlds.len());
                }
                if p.retain {
                    let mut found = false;
                    for (_flt, s) in cl.subs.iter_mut() {
                        if s.retained.contains(&id) && s.qos == qos {
                            s.retained.remove(&id);
                            found = true;
                            break;
                        }
                    }
                    if !found {
                        return Err(format!(
                            "c{c}: unexpected retained-flagged message {id} on {topic} qos {qos}"
                        ));
                    }
                } else {
                    let mut next: Vec<World> = vec![];
                    for w in cl.worlds.iter() {
                        for (id, (flt, s)) in ids.iter().flat_map(|id| cl.subs.iter().map(move |x| (*id, x))) {
                            if !mt(&topic, flt) || s.qos != qos {
                                continue;
                            }
                            if check_ids {
                                let want: Vec<usize> = s.subid.into_iter().collect();
                                if subids != want {
                                    continue;
                                }
                            }
                            let (acked, sent) = w.ptr[&s.inc];
                            let pos = if strict {
                                (s.queue.get(sent) == Some(&id)).then_some(sent)
                            } else {
                                s.queue.iter().skip(sent).position(|m| *m == id).map(|k| k + sent)
                            };
                            let Some(pos) = pos else { continue };
                            let mut nw = w.clone();
                            if qos == 0 {
                                if acked != sent {
                                    // QoS changed while in flight: harness avoids this
                                    continue;
                                }
                                nw.ptr.insert(s.inc, (pos + 1, pos + 1));
                            } else {
                                let acked = if acked == sent { pos } else { acked };
                                nw.ptr.insert(s.inc, (acked, pos + 1));
                            }
                            next.push(nw);
                        }
                    }
                    next.sort();
                    next.dedup();
                    if next.is_empty() {
                        let state: Vec<String> = cl
                            .subs
                            .iter()
                            .map(|(f, s)| {
                                format!(
                                    "{f}(inc {} q{} subid {:?}) queue len {} tail {:?}",
                                    s.inc, s.qos, s.subid, s.queue.len(), &s.queue[s.queue.len().saturating_sub(6)..]
                                )
                            })
                            .collect();
                        return Err(format!(
                            "c{c}: unexpected message {id} on {topic} qos {qos} pkid {} subids {subids:?}; subs = {state:?}; worlds = {:?}",
                            p.pkid,
                            cl.worlds.iter().take(3).map(|w| &w.ptr).collect::<Vec<_>>()
                        ));
                    }
                    if next.len() > 5000 {
                        return Err(format!("model: {} worlds", next.len()));
                    }
                    cl.worlds = next;
                }
                if qos > 0 {
                    if p.pkid == 0 {
                        return Err(format!("c{c}: QoS {qos} publish with pkid 0"));
                    }
                    if conn.inflight.iter().any(|i| i.pkid == p.pkid) {
                        return Err(format!("c{c}: pkid {} reused while unacknowledged", p.pkid));
                    }
                    conn.inflight.push_back(Infl {
                        pkid: p.pkid,
                        qos,
                        msgs: ids.clone(),
                        retained: p.retain,
                        maybe_stale: false,
                    });
                    if conn.inflight.len() > 100 {
                        return Err(format!("c{c}: {} unacknowledged publishes", conn.inflight.len()));
                    }
                }
            }
            Notification::Disconnect(d, _) => {
                return Err(format!("c{c}: router sent DISCONNECT {d:?}"));
            }
            other => return Err(format!("c{c}: unexpected notification {other:?}")),
        }
        Ok(())
    }

    fn ack(&mut self, c: usize, n: usize) -> Result<usize, String> {
        if self.cls[c].conn.is_none() {
            return Ok(0);
        }
        let mut packets = vec![];
        let cl = &mut self.cls[c];
        let conn = cl.conn.as_mut().unwrap();
        while let Some(p) = conn.pend_comp.pop_front() {
            packets.push(Packet::PubComp(
                PubComp {
                    pkid: p,
                    reason: PubCompReason::Success,
                },
                None,
            ));
            let front = cl.pubrels.pop_front();
            if front != Some(p) {
                return Err(format!("model: pubrels front {front:?} vs {p}"));
            }
        }
        for _ in 0..n {
            let Some(i) = conn.inflight.pop_front() else {
                break;
            };
            if i.qos == 1 {
                packets.push(Packet::PubAck(
                    PubAck {
                        pkid: i.pkid,
                        reason: PubAckReason::Success,
                    },
                    None,
                ));
            } else {
                packets.push(Packet::PubRec(
                    PubRec {
                        pkid: i.pkid,
                        reason: PubRecReason::Success,
                    },
                    None,
                ));
                conn.expected.push_back(Rep::PubRel(i.pkid));
                cl.pubrels.push_back(i.pkid);
            }
            if i.retained {
                continue;
            }
            let mut next: Vec<World> = vec![];
            for w in cl.worlds.iter() {
                let mut any = false;
                for s in cl.subs.values() {
                    let (acked, sent) = w.ptr[&s.inc];
                    if s.qos == 0 && !i.maybe_stale {
                        continue;
                    }
                    let pos = s.queue[acked..sent].iter().position(|m| i.msgs.contains(m));
                    let Some(pos) = pos else { continue };
                    if self.cfg.strict && pos != 0 {
                        continue;
                    }
                    let mut nw = w.clone();
                    nw.ptr.insert(s.inc, (acked + pos + 1, sent));
                    next.push(nw);
                    any = true;
                }
                let _ = any;
                if i.maybe_stale {
                    next.push(w.clone());
                }
            }
            next.sort();
            next.dedup();
            if next.is_empty() {
                return Err(format!(
                    "model: ack of message {:?} (pkid {}) fits no subscription in any world",
                    i.msgs, i.pkid
                ));
            }
            cl.worlds = next;
        }
        cl.worlds.sort();
        cl.worlds.dedup();
        let k = packets.len();
        if k == 0 {
            return Ok(0);
        }
        let id = conn.id;
        conn.ibuf.lock().extend(packets);
        self.router.events(id, Event::DeviceData);
        if !self.alive(c) {
            return Err(format!("c{c} was closed by the router after in-order acks"));
        }
        self.settle()?;
        Ok(k)
    }

    fn ready(&mut self, c: usize, force: bool) -> R {
        if self.cls[c].conn.is_none() {
            return Ok(());
        }
        let conn = self.conn(c);
        if conn.need_ready || force {
            conn.need_ready = false;
            let id = conn.id;
            self.router.events(id, Event::Ready);
            self.settle()?;
        }
        Ok(())
    }

    fn quiesce(&mut self) -> R {
        for _round in 0..2000 {
            let mut progress = 0;
            for c in 0..self.cls.len() {
                progress += self.drain(c, usize::MAX)?;
                progress += self.ack(c, usize::MAX)?;
                if self.cls[c].conn.as_ref().is_some_and(|c| c.need_ready) {
                    self.ready(c, false)?;
                    progress += 1;
                }
            }
            if progress == 0 {
                break;
            }
        }
        for (c, cl) in self.cls.iter().enumerate() {
            let Some(conn) = &cl.conn else { continue };
            if !conn.expected.is_empty() {
                return Err(format!("c{c}: replies never sent: {:?}", conn.expected));
            }
            let strict = self.cfg.strict;
            let ok = cl.worlds.iter().any(|w| {
                cl.subs.values().all(|s| {
                    let (acked, _sent) = w.ptr[&s.inc];
                    acked == s.queue.len() || (!strict && s.queue.is_empty())
                })
            });
            if !ok {
                let state: Vec<String> = cl
                    .subs
                    .iter()
                    .map(|(f, s)| format!("{f}(inc {} q{}) queue len {} tail {:?}", s.inc, s.qos, s.queue.len(), &s.queue[s.queue.len().saturating_sub(6)..]))
                    .collect();
                return Err(format!(
                    "c{c}: idle but undelivered: subs = {state:?}; worlds = {:?}",
                    cl.worlds.iter().take(3).map(|w| &w.ptr).collect::<Vec<_>>()
                ));
            }
            for (f, s) in cl.subs.iter() {
                if !s.retained.is_empty() {
                    return Err(format!(
                        "c{c}: idle but filter {f} never got retained {:?}",
                        s.retained
                    ));
                }
            }
        }
        Ok(())
    }

    pub fn step(&mut self, a: &A) -> R {
        if std::env::var("TRACE").is_ok() {
            println!("   step {}", show(a));
        }
        match a {
            A::Connect(c, clean) => self.connect(*c, *clean),
            A::Disconnect(c, k) => self.disconnect(*c, *k),
            A::Batch(c, items) => self.batch(*c, items),
            A::Drain(c, n) => self.drain(*c, *n).map(|_| ()),
            A::Ack(c, n) => self.ack(*c, *n).map(|_| ()),
            A::Ready(c, f) => self.ready(*c, *f),
            A::Quiesce => self.quiesce(),
        }
    }
}

pub fn show(a: &A) -> String {
    match a {
        A::Batch(c, items) => {
            let mut out: Vec<String> = vec![];
            let mut i = 0;
            while i < items.len() {
                let cur = format!("{:?}", items[i]);
                let mut k = 1;
                while i + k < items.len() && format!("{:?}", items[i + k]) == cur {
                    k += 1;
                }
                out.push(if k > 1 { format!("{cur} x{k}") } else { cur });
                i += k;
            }
            format!("Batch({c}, [{}])", out.join(", "))
        }
        other => format!("{other:?}"),
    }
}

pub fn run(cfg: &Cfg, actions: &[A]) -> R {
    let reps: usize = std::env::var("REPS").ok().and_then(|v| v.parse().ok()).unwrap_or(1);
    for _ in 0..reps {
        run1(cfg, actions)?;
    }
    Ok(())
}

pub fn run1(cfg: &Cfg, actions: &[A]) -> R {
    let cfg = cfg.clone();
    let actions = actions.to_vec();
    let r = std::panic::catch_unwind(std::panic::AssertUnwindSafe(move || {
        let mut h = H::new(cfg);
        for (i, a) in actions.iter().enumerate() {
            h.step(a).map_err(|e| format!("at step {i} {a:?}: {e}"))?;
        }
        h.quiesce().map_err(|e| format!("at final quiesce: {e}"))
    }));
    match r {
        Ok(r) => r,
        Err(p) => {
            let msg = p
                .downcast_ref::<String>()
                .cloned()
                .or_else(|| p.downcast_ref::<&str>().map(|s| s.to_string()))
                .unwrap_or_default();
            Err(format!("PANIC: {msg}"))
        }
    }
}

/// delta-debugging style shrink: drop chunks of actions while it still fails
pub fn shrink(cfg: &Cfg, mut actions: Vec<A>) -> Vec<A> {
    let mut chunk = actions.len() / 2;
    while chunk >= 1 {
        let mut i = 0;
        while i + chunk <= actions.len() {
            let mut cand = actions.clone();
            cand.drain(i..i + chunk);
            if run(cfg, &cand).is_err() {
                actions = cand;
            } else {
                i += chunk;
            }
        }
        chunk /= 2;
    }
    // shrink inside batches
    let mut changed = true;
    while changed {
        changed = false;
        for i in 0..actions.len() {
            if let A::Batch(c, items) = &actions[i] {
                for k in 0..items.len() {
                    let mut it = items.clone();
                    it.remove(k);
                    let mut cand = actions.clone();
                    cand[i] = A::Batch(*c, it);
                    if run(cfg, &cand).is_err() {
                        actions = cand;
                        changed = true;
                        break;
                    }
                }
            }
            if changed {
                break;
            }
        }
    }
    actions
}

pub struct Gen {
    pub topics: Vec<&'static str>,
    pub filters: Vec<&'static str>,
    pub len: usize,
    pub qos_max: u8,
    pub flood: bool,
    pub persist: bool,
}

pub fn gen(rng: &mut StdRng, cfg: &Cfg, g: &Gen) -> Vec<A> {
    let mut v = vec![];
    let n = cfg.nclients;
    for c in 0..n {
        v.push(A::Connect(c, !(g.persist && rng.gen_bool(0.6))));
    }
    for _ in 0..g.len {
        let c = rng.gen_range(0..n);
        let r = rng.gen_range(0..100);
        let a = if r < 45 {
            let k = if rng.gen_bool(0.7) { 1 } else { rng.gen_range(1..5) };
            let mut items = vec![];
            for _ in 0..k {
                let x = rng.gen_range(0..100);
                let item = if x < 22 {
                    let m = if rng.gen_bool(0.8) { 1 } else { rng.gen_range(1..4) };
                    let fs = (0..m)
                        .map(|_| {
                            (
                                g.filters[rng.gen_range(0..g.filters.len())].to_string(),
                                rng.gen_range(0..=g.qos_max),
                            )
                        })
                        .collect();
                    let subid = if cfg.subids && rng.gen_bool(0.7) {
                        Some(rng.gen_range(1..50))
                    } else {
                        None
                    };
                    P::Sub(fs, subid)
                } else if x < 30 {
                    let m = if rng.gen_bool(0.8) { 1 } else { 2 };
                    P::Unsub(
                        (0..m)
                            .map(|_| g.filters[rng.gen_range(0..g.filters.len())].to_string())
                            .collect(),
                    )
                } else if x < 88 {
                    P::Pub(
                        g.topics[rng.gen_range(0..g.topics.len())].to_string(),
                        rng.gen_range(0..=g.qos_max),
                        rng.gen_bool(0.3),
                        rng.gen_bool(0.2),
                    )
                } else if x < 96 {
                    P::Release
                } else {
                    P::Ping
                };
                items.push(item);
            }
            if g.flood && rng.gen_bool(0.15) {
                let t = g.topics[rng.gen_range(0..g.topics.len())].to_string();
                let q = rng.gen_range(0..=g.qos_max.min(1));
                let cnt = rng.gen_range(20..260);
                for _ in 0..cnt {
                    items.push(P::Pub(t.clone(), q, false, false));
                }
            }
            A::Batch(c, items)
        } else if r < 60 {
            A::Drain(c, rng.gen_range(1..300))
        } else if r < 75 {
            A::Ack(c, rng.gen_range(1..120))
        } else if r < 80 {
            A::Ready(c, rng.gen_bool(0.2))
        } else if r < 86 {
            A::Disconnect(c, rng.gen_range(0..2))
        } else if r < 94 {
            A::Connect(c, !(g.persist && rng.gen_bool(0.6)))
        } else {
            A::Quiesce
        };
        v.push(a);
    }
    v
}

pub fn campaign(name: &str, cfg: Cfg, g: Gen, seeds: std::ops::Range<u64>) -> usize {
    let mut fails = 0;
    let mut shown = 0;
    for seed in seeds {
        let mut rng = StdRng::seed_from_u64(seed);
        let actions = gen(&mut rng, &cfg, &g);
        if let Err(e) = run(&cfg, &actions) {
            fails += 1;
            if shown < 3 {
                shown += 1;
                println!("==== [{name}] seed {seed} failing: {}", &e[..e.len().min(600)]);
                let small = shrink(&cfg, actions);
                let e2 = run(&cfg, &small).err().unwrap_or_default();
                println!("==== [{name}] seed {seed} FAILED: {e}\n  shrunk to {} actions: {e2}", small.len());
                for a in &small {
                    println!("    {}", show(a));
                }
            }
        }
    }
    println!("==== [{name}] failures: {fails}");
    fails
}

fn base_cfg() -> Cfg {
    Cfg {
        seg_size: 1024 * 1024,
        seg_count: 10,
        out_count: 1024,
        strict: true,
        retained: false,
        alias: false,
        ack_before_unsub: false,
        pad: 0,
        subids: false,
        nclients: 3,
        init_filters: None,
    }
}

fn base_gen() -> Gen {
    Gen {
        topics: vec!["a", "a/b", "a/c", "a/b/c", "d", "$x/y"],
        filters: vec!["a", "a/b", "a/+", "a/#", "#", "+/b", "+", "a/b/c", "a/+/c", "d"],
        len: 60,
        qos_max: 2,
        flood: false,
        persist: false,
    }
}

fn quiet() {
    std::panic::set_hook(Box::new(|_| {}));
}

#[test]
fn fz_clean_basic() {
    quiet();
    let f = campaign("clean_basic", base_cfg(), base_gen(), 0..3000);
    assert_eq!(f, 0);
}

#[test]
fn fz_one() {
    quiet();
    let seed: u64 = std::env::var("SEED").unwrap().parse().unwrap();
    let cfg = base_cfg();
    let g = base_gen();
    for k in 0..5 {
        let mut rng = StdRng::seed_from_u64(seed);
        let actions = gen(&mut rng, &cfg, &g);
        println!("run {k}: {:?}", run(&cfg, &actions));
    }
    let mut rng = StdRng::seed_from_u64(seed);
    let actions = gen(&mut rng, &cfg, &g);
    let small = shrink(&cfg, actions);
    println!("shrunk: {:?}", run(&cfg, &small));
    for a in &small {
        println!("    {}", show(a));
    }
}

fn env<T: std::str::FromStr>(k: &str, d: T) -> T {
    std::env::var(k).ok().and_then(|v| v.parse().ok()).unwrap_or(d)
}

/// campaign configured from the environment
#[test]
fn fz_env() {
    quiet();
    let mut cfg = base_cfg();
    let mut g = base_gen();
    cfg.seg_size = env("SEG_SIZE", cfg.seg_size);
    cfg.seg_count = env("SEG_COUNT", cfg.seg_count);
    cfg.out_count = env("OUT_COUNT", cfg.out_count);
    cfg.strict = env("STRICT", 1) == 1;
    cfg.retained = env("RETAINED", 0) == 1;
    cfg.alias = env("ALIAS", 0) == 1;
    cfg.ack_before_unsub = env("ACK_BEFORE_UNSUB", 0) == 1;
    cfg.pad = env("PAD", 0);
    cfg.subids = env("SUBIDS", 0) == 1;
    cfg.nclients = env("NCLIENTS", 3);
    g.len = env("LEN", 60);
    g.qos_max = env("QOS_MAX", 2);
    g.flood = env("FLOOD", 0) == 1;
    g.persist = env("PERSIST", 0) == 1;
    if env("INIT", 0) == 1 {
        cfg.init_filters = Some(vec!["a/+".to_string(), "#".to_string(), "a/b".to_string()]);
    }
    if env("DISJOINT", 0) == 1 {
        g.topics = vec!["a/b", "a/c", "d", "a/b/c"];
        g.filters = vec!["a/b", "a/c", "d", "a/b/c"];
    }
    if env("FEWTOPICS", 0) == 1 {
        g.topics = vec!["a/b", "a/c"];
        g.filters = vec!["a/+", "a/#", "a/b", "#"];
    }
    let from: u64 = env("FROM", 0);
    let n: u64 = env("N", 2000);
    let name = std::env::var("NAME").unwrap_or("env".into());
    if let Ok(seed) = std::env::var("ONE") {
        let seed: u64 = seed.parse().unwrap();
        let mut rng = StdRng::seed_from_u64(seed);
        let actions = gen(&mut rng, &cfg, &g);
        let mut fails = 0;
        for _ in 0..20 {
            if run(&cfg, &actions).is_err() {
                fails += 1;
            }
        }
        println!("seed {seed}: {fails}/20 runs fail");
        let small = shrink(&cfg, actions);
        println!("shrunk: {:?}", run(&cfg, &small));
        for a in &small {
            println!("    {}", show(a));
        }
        return;
    }
    let f = campaign(&name, cfg, g, from..from + n);
    assert_eq!(f, 0);
}

fn sub1(f: &str, q: u8) -> P {
    P::Sub(vec![(f.to_string(), q)], None)
}
fn pb(t: &str, q: u8) -> P {
    P::Pub(t.to_string(), q, false, false)
}

#[test]
fn hand_resub_rewind() {
    let cfg = base_cfg();
    let acts = vec![
        A::Connect(0, false),
        A::Connect(1, true),
        A::Batch(0, vec![sub1("a/b", 1)]),
        A::Batch(1, vec![pb("a/b", 1), pb("a/b", 1)]),
        A::Drain(0, 100),
        A::Batch(0, vec![P::Unsub(vec!["a/b".into()])]),
        A::Batch(1, vec![pb("a/b", 1)]),
        A::Batch(0, vec![sub1("a/b", 1)]),
        A::Disconnect(0, 1),
        A::Connect(0, false),
    ];
    println!("{:?}", run(&cfg, &acts));
}

#[test]
fn hand_513() {
    let mut cfg = base_cfg();
    cfg.nclients = 2;
    let acts = vec![
        A::Connect(0, true),
        A::Batch(0, vec![P::Sub(vec![("a/b".into(), 1), ("#".into(), 0)], None)]),
        A::Batch(0, vec![sub1("a/#", 1)]),
        A::Batch(0, vec![sub1("#", 1)]),
        A::Connect(1, true),
        A::Batch(0, vec![pb("a/b", 0)]),
        A::Batch(0, vec![pb("a/b", 0)]),
        A::Batch(1, vec![pb("a/b", 1)]),
        A::Batch(1, vec![pb("a/b", 0)]),
        A::Batch(0, vec![pb("a/b", 1), pb("a/c", 1), pb("a/b", 0)]),
    ];
    println!("{:?}", run(&cfg, &acts));
}
