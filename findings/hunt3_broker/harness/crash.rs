// C03 fuzz: arbitrary packets / events must not panic or wedge the router (scratch)
use super::*;
use crate::protocol::{
    LastWill, PingReq, RetainForwardRule, Subscribe, SubscribeProperties, Unsubscribe,
};
use bytes::Bytes;
use parking_lot::Mutex;
use rand::{rngs::StdRng, Rng, SeedableRng};
use std::sync::Arc;

const STRS: &[&str] = &[
    "a", "a/b", "a/+", "a/#", "#", "+", "", "/", "//", "a//b", "$SYS/x", "$share/g/a/+",
    "$share/g/#", "$share//a", "$share/g", "$share/g/", "$sharex/y", "a/\u{0}b", "ü/ö/+",
    "\u{10FFFF}/#", "+/+/+/+", "a/b/c/d/e/f/g/h", "#/a", "a/#/b", "a+", "$share/g/$SYS/#",
    "a/b/", "/a",
];

struct C {
    id: usize,
    ibuf: Arc<Mutex<VecDeque<Packet>>>,
    obuf: Arc<Mutex<VecDeque<Notification>>>,
    _rx: Receiver<()>,
}

fn connect(router: &mut Router, name: &str, clean: bool, rng: &mut StdRng) -> Option<C> {
    let mut connection = Connection::new(None, name.to_owned(), clean, rng.gen_bool(0.2));
    if rng.gen_bool(0.3) {
        connection.topic_alias_max(rng.gen_range(0..4));
    }
    if rng.gen_bool(0.3) {
        connection.last_will(
            Some(LastWill {
                topic: Bytes::from(STRS[rng.gen_range(0..STRS.len())]),
                message: Bytes::from_static(b"will"),
                qos: protocol::qos(rng.gen_range(0..3)).unwrap(),
                retain: rng.gen_bool(0.5),
            }),
            None,
        );
    }
    let incoming = Incoming::new(connection.client_id.to_owned());
    let (outgoing, rx) = Outgoing::new(connection.client_id.to_owned());
    let ibuf = incoming.buffer();
    let obuf = outgoing.buffer();
    router.events(
        0,
        Event::Connect {
            connection,
            incoming,
            outgoing,
        },
    );
    let id = *router.connection_map.get(name)?;
    Some(C {
        id,
        ibuf,
        obuf,
        _rx: rx,
    })
}

fn settle(router: &mut Router) {
    for _ in 0..300 {
        if router.consume().is_none() {
            break;
        }
    }
}

fn rand_packet(rng: &mut StdRng) -> Packet {
    let s = |rng: &mut StdRng| STRS[rng.gen_range(0..STRS.len())].to_string();
    let pkid = |rng: &mut StdRng| match rng.gen_range(0..4) {
        0 => 0,
        1 => rng.gen_range(0..5),
        2 => rng.gen_range(95..105),
        _ => rng.gen(),
    };
    match rng.gen_range(0..12) {
        0 | 1 | 2 => {
            let props = if rng.gen_bool(0.4) {
                Some(PublishProperties {
                    topic_alias: rng.gen_bool(0.6).then(|| match rng.gen_range(0..4) {
                        0 => 0,
                        1 => rng.gen_range(1..4),
                        2 => 4096,
                        _ => rng.gen(),
                    }),
                    message_expiry_interval: rng.gen_bool(0.3).then(|| rng.gen_range(0..3)),
                    subscription_identifiers: if rng.gen_bool(0.1) { vec![1] } else { vec![] },
                    ..Default::default()
                })
            } else {
                None
            };
            let topic = if rng.gen_bool(0.1) {
                Bytes::from_static(&[0xff, 0xfe, b'/', 0xc0])
            } else {
                Bytes::from(s(rng))
            };
            Packet::Publish(
                Publish {
                    dup: rng.gen_bool(0.2),
                    qos: protocol::qos(rng.gen_range(0..3)).unwrap(),
                    pkid: pkid(rng),
                    retain: rng.gen_bool(0.3),
                    topic,
                    payload: if rng.gen_bool(0.3) {
                        Bytes::new()
                    } else {
                        Bytes::from_static(b"x")
                    },
                },
                props,
            )
        }
        3 | 4 => {
            let n = rng.gen_range(0..4);
            let filters = (0..n)
                .map(|_| protocol::Filter {
                    path: s(rng),
                    qos: protocol::qos(rng.gen_range(0..3)).unwrap(),
                    nolocal: rng.gen(),
                    preserve_retain: rng.gen(),
                    retain_forward_rule: RetainForwardRule::Never,
                })
                .collect();
            let props = rng.gen_bool(0.4).then(|| SubscribeProperties {
                id: rng.gen_bool(0.8).then(|| rng.gen_range(0..3)),
                user_properties: vec![],
            });
            Packet::Subscribe(
                Subscribe {
                    pkid: pkid(rng),
                    filters,
                },
                props,
            )
        }
        5 => {
            let n = rng.gen_range(0..3);
            Packet::Unsubscribe(
                Unsubscribe {
                    pkid: pkid(rng),
                    filters: (0..n).map(|_| s(rng)).collect(),
                },
                None,
            )
        }
        6 => Packet::PubAck(
            PubAck {
                pkid: pkid(rng),
                reason: PubAckReason::Success,
            },
            None,
        ),
        7 => Packet::PubRec(
            PubRec {
                pkid: pkid(rng),
                reason: PubRecReason::Success,
            },
            None,
        ),
        8 => Packet::PubRel(
            PubRel {
                pkid: pkid(rng),
                reason: PubRelReason::Success,
            },
            None,
        ),
        9 => Packet::PubComp(
            PubComp {
                pkid: pkid(rng),
                reason: PubCompReason::Success,
            },
            None,
        ),
        10 => Packet::PingReq(PingReq),
        _ => match rng.gen_range(0..4) {
            0 => Packet::Disconnect(
                Disconnect {
                    reason_code: DisconnectReasonCode::NormalDisconnection,
                },
                None,
            ),
            1 => Packet::PingResp(PingResp),
            2 => Packet::SubAck(
                SubAck {
                    pkid: 1,
                    return_codes: vec![],
                },
                None,
            ),
            _ => Packet::ConnAck(
                ConnAck {
                    session_present: false,
                    code: ConnectReturnCode::Success,
                },
                None,
            ),
        },
    }
}

fn one(seed: u64, strategy: Strategy, steps: usize) -> Result<(), String> {
    let mut rng = StdRng::seed_from_u64(seed);
    let mut router = Router::new(
        0,
        RouterConfig {
            max_segment_size: 1024,
            max_connections: 6,
            max_segment_count: rng.gen_range(1..4),
            max_outgoing_packet_count: [1, 2, 50, 1024][rng.gen_range(0..4)],
            custom_segment: None,
            initialized_filters: rng
                .gen_bool(0.3)
                .then(|| vec!["a/+".to_string(), "#".to_string()]),
            shared_subscriptions_strategy: strategy,
        },
    );
    let names = ["c0", "c1", "c2", "c3", "bad/name", "c4", "c5", "c6"];
    let mut conns: Vec<Option<C>> = names.iter().map(|_| None).collect();
    for _ in 0..steps {
        let k = rng.gen_range(0..names.len());
        match rng.gen_range(0..100) {
            0..=11 => {
                let clean = rng.gen_bool(0.5);
                conns[k] = connect(&mut router, names[k], clean, &mut rng);
            }
            12..=59 => {
                if let Some(c) = &conns[k] {
                    let n = rng.gen_range(1..6);
                    let mut b = c.ibuf.lock();
                    for _ in 0..n {
                        b.push_back(rand_packet(&mut rng));
                    }
                    if rng.gen_bool(0.05) {
                        let p = rand_packet(&mut rng);
                        for _ in 0..250 {
                            b.push_back(p.clone());
                        }
                    }
                    drop(b);
                    router.events(c.id, Event::DeviceData);
                }
            }
            60..=69 => {
                if let Some(c) = &conns[k] {
                    // a sane client: acknowledge in order what it was sent
                    let notifs: Vec<Notification> = c.obuf.lock().drain(..).collect();
                    let mut acks = vec![];
                    let mut ready = false;
                    for n in notifs {
                        match n {
                            Notification::Forward(f) if f.publish.qos == QoS::AtLeastOnce => acks
                                .push(Packet::PubAck(
                                    PubAck {
                                        pkid: f.publish.pkid,
                                        reason: PubAckReason::Success,
                                    },
                                    None,
                                )),
                            Notification::Forward(f) if f.publish.qos == QoS::ExactlyOnce => acks
                                .push(Packet::PubRec(
                                    PubRec {
                                        pkid: f.publish.pkid,
                                        reason: PubRecReason::Success,
                                    },
                                    None,
                                )),
                            Notification::Unschedule => ready = true,
                            _ => {}
                        }
                    }
                    if !acks.is_empty() {
                        c.ibuf.lock().extend(acks);
                        router.events(c.id, Event::DeviceData);
                    }
                    if ready {
                        router.events(c.id, Event::Ready);
                    }
                }
            }
            70..=76 => router.events(rng.gen_range(0..8), Event::Ready),
            77..=83 => {
                let id = rng.gen_range(0..8);
                router.events(id, Event::Disconnect);
            }
            84..=86 => router.events(rng.gen_range(0..8), Event::DeviceData),
            87..=91 => router.events(
                0,
                Event::PublishWill((names[rng.gen_range(0..names.len())].to_string(), None)),
            ),
            92..=94 => router.events(
                rng.gen_range(0..8),
                Event::Shadow(ShadowRequest {
                    filter: STRS[rng.gen_range(0..STRS.len())].to_string(),
                }),
            ),
            95..=96 => {
                router.events(0, Event::SendMeters);
                router.events(0, Event::SendAlerts);
            }
            _ => {}
        }
        settle(&mut router);
        // bookkeeping: forget connections the router dropped
        for (i, c) in conns.iter_mut().enumerate() {
            if let Some(cc) = c {
                if router.connection_map.get(names[i]) != Some(&cc.id) {
                    *c = None;
                }
            }
        }
    }
    // still serving? drop everybody, then a fresh subscriber and publisher must work
    let ids: Vec<usize> = router.connection_map.values().copied().collect();
    for id in ids {
        router.events(id, Event::Disconnect);
    }
    settle(&mut router);
    let s = connect(&mut router, "fresh-sub", true, &mut StdRng::seed_from_u64(1_000_000))
        .ok_or("fresh subscriber refused")?;
    settle(&mut router);
    let p = connect(&mut router, "fresh-pub", true, &mut StdRng::seed_from_u64(1_000_000))
        .ok_or("fresh publisher refused")?;
    settle(&mut router);
    s.ibuf.lock().push_back(Packet::Subscribe(
        Subscribe {
            pkid: 1,
            filters: vec![protocol::Filter {
                path: "fresh/topic".into(),
                qos: QoS::AtMostOnce,
                nolocal: false,
                preserve_retain: false,
                retain_forward_rule: RetainForwardRule::Never,
            }],
        },
        None,
    ));
    router.events(s.id, Event::DeviceData);
    settle(&mut router);
    p.ibuf.lock().push_back(Packet::Publish(
        Publish {
            dup: false,
            qos: QoS::AtMostOnce,
            pkid: 0,
            retain: false,
            topic: "fresh/topic".into(),
            payload: "hello".into(),
        },
        None,
    ));
    router.events(p.id, Event::DeviceData);
    settle(&mut router);
    let got = s
        .obuf
        .lock()
        .iter()
        .filter(|n| matches!(n, Notification::Forward(f) if &f.publish.payload[..] == b"hello"))
        .count();
    if got != 1 {
        return Err(format!("fresh subscriber got {got} copies"));
    }
    Ok(())
}

fn env<T: std::str::FromStr>(k: &str, d: T) -> T {
    std::env::var(k).ok().and_then(|v| v.parse().ok()).unwrap_or(d)
}

#[test]
fn crash_env() {
    let from = env("FROM", 0u64);
    let n = env("N", 2000u64);
    let steps = env("STEPS", 150usize);
    std::panic::set_hook(Box::new(|info| {
        println!("PANIC at {:?}: {}", info.location().map(|l| (l.file().to_string(), l.line())), info);
    }));
    let mut fails = 0;
    for seed in from..from + n {
        let strategy = match seed % 3 {
            0 => Strategy::RoundRobin,
            1 => Strategy::Random,
            _ => Strategy::Sticky,
        };
        let r = std::panic::catch_unwind(std::panic::AssertUnwindSafe(|| one(seed, strategy, steps)));
        match r {
            Ok(Ok(())) => {}
            Ok(Err(e)) => {
                fails += 1;
                if fails < 10 {
                    println!("==== seed {seed}: {e}");
                }
            }
            Err(_) => {
                fails += 1;
                if fails < 10 {
                    println!("==== seed {seed}: panicked");
                }
            }
        }
    }
    println!("==== crash fuzz failures: {fails}");
    assert_eq!(fails, 0);
}
