// Randomised model-based test of shared subscriptions (scratch)
use super::*;
use crate::protocol::{RetainForwardRule, Subscribe, SubscribeProperties, Unsubscribe};
use crate::router::Ack;
use bytes::Bytes;
use parking_lot::Mutex;
use rand::{rngs::StdRng, Rng, SeedableRng};
use std::collections::{BTreeMap, BTreeSet};
use std::sync::Arc;

fn mt(topic: &str, filter: &str) -> bool {
    if topic.starts_with('$') {
        return false;
    }
    let t: Vec<&str> = topic.split('/').collect();
    let f: Vec<&str> = filter.split('/').collect();
    let mut i = 0;
    for (k, fl) in f.iter().enumerate() {
        if *fl == "#" {
            return k == f.len() - 1;
        }
        if i >= t.len() {
            return false;
        }
        if *fl != "+" && *fl != t[i] {
            return false;
        }
        i += 1;
    }
    i == t.len()
}

const FILTERS: &[&str] = &[
    "$share/g1/a/+",
    "$share/g2/a/+",
    "$share/g1/a/b",
    "$share/g1/#",
    "a/+",
    "a/b",
];
const TOPICS: &[&str] = &["a/b", "a/c", "d"];

fn log_filter(f: &str) -> &str {
    match f.strip_prefix("$share/") {
        Some(rest) => rest.split_once('/').unwrap().1,
        None => f,
    }
}

#[derive(Clone, Debug)]
pub enum A {
    Connect(usize),
    Disconnect(usize, u8),
    Sub(usize, usize, u8),
    Unsub(usize, usize),
    Pub(usize, usize, u8, usize),
    Drain(usize, usize),
    Ack(usize, usize),
    Ready(usize),
    Quiesce,
}

struct Conn {
    id: usize,
    ibuf: Arc<Mutex<VecDeque<Packet>>>,
    obuf: Arc<Mutex<VecDeque<Notification>>>,
    _rx: Receiver<()>,
    inflight: VecDeque<(u16, u8)>,
    pend_comp: VecDeque<u16>,
    need_ready: bool,
    /// filter index -> (qos, plain queue, next plain index)
    subs: BTreeMap<usize, (u8, Vec<u64>, usize)>,
}

#[derive(Default)]
struct Group {
    members: BTreeSet<usize>,
    gq: Vec<u64>,
    delivered: HashMap<u64, usize>,
    last_idx: HashMap<usize, usize>,
}

pub struct H {
    router: Router,
    conns: Vec<Option<Conn>>,
    groups: HashMap<usize, Group>,
    next_msg: u64,
    topics: HashMap<u64, String>,
    pkid: u16,
    allow_dup_plain: bool,
}

type R = Result<(), String>;

impl H {
    pub fn new(strategy: Strategy, n: usize, out_count: u64) -> H {
        let router = Router::new(
            0,
            RouterConfig {
                max_segment_size: 1024 * 1024,
                max_connections: 10,
                max_segment_count: 10,
                max_outgoing_packet_count: out_count,
                custom_segment: None,
                initialized_filters: None,
                shared_subscriptions_strategy: strategy,
            },
        );
        H {
            router,
            conns: (0..n).map(|_| None).collect(),
            groups: HashMap::new(),
            next_msg: 1,
            topics: HashMap::new(),
            pkid: 0,
            allow_dup_plain: false,
        }
    }

    fn settle(&mut self) -> R {
        for _ in 0..3000 {
            if self.router.consume().is_none() {
                return Ok(());
            }
        }
        // with shared subscriptions a connection that skips its turn stays ready (known)
        Ok(())
    }

    fn leave_all(&mut self, c: usize) {
        let mut empty = vec![];
        for (g, grp) in self.groups.iter_mut() {
            grp.members.remove(&c);
            grp.last_idx.remove(&c);
            if grp.members.is_empty() {
                empty.push(*g);
            }
        }
        for g in empty {
            self.groups.remove(&g);
        }
    }

    fn connect(&mut self, c: usize) -> R {
        if self.conns[c].is_some() {
            self.drain(c, usize::MAX)?;
            self.leave_all(c);
            self.conns[c] = None;
        }
        let name = format!("c{c}");
        let connection = Connection::new(None, name.clone(), true, false);
        let incoming = Incoming::new(connection.client_id.to_owned());
        let (outgoing, rx) = Outgoing::new(connection.client_id.to_owned());
        let ibuf = incoming.buffer();
        let obuf = outgoing.buffer();
        self.router.events(
            0,
            Event::Connect {
                connection,
                incoming,
                outgoing,
            },
        );
        let id = *self.router.connection_map.get(&name).ok_or("not registered")?;
        self.conns[c] = Some(Conn {
            id,
            ibuf,
            obuf,
            _rx: rx,
            inflight: VecDeque::new(),
            pend_comp: VecDeque::new(),
            need_ready: false,
            subs: BTreeMap::new(),
        });
        self.settle()
    }

    fn disconnect(&mut self, c: usize, kind: u8) -> R {
        if self.conns[c].is_none() {
            return Ok(());
        }
        self.drain(c, usize::MAX)?;
        let conn = self.conns[c].as_ref().unwrap();
        let id = conn.id;
        if kind == 0 {
            conn.ibuf.lock().push_back(Packet::Disconnect(
                Disconnect {
                    reason_code: DisconnectReasonCode::NormalDisconnection,
                },
                None,
            ));
            self.router.events(id, Event::DeviceData);
        } else {
            self.router.events(id, Event::Disconnect);
        }
        self.leave_all(c);
        self.conns[c] = None;
        self.settle()
    }

    fn send(&mut self, c: usize, packets: Vec<Packet>) -> R {
        let conn = self.conns[c].as_ref().unwrap();
        let id = conn.id;
        conn.ibuf.lock().extend(packets);
        self.router.events(id, Event::DeviceData);
        if self.router.connection_map.get(&format!("c{c}")) != Some(&id) {
            return Err(format!("c{c} closed by the router"));
        }
        self.settle()
    }

    fn next_pkid(&mut self) -> u16 {
        self.pkid = if self.pkid >= 60000 { 1 } else { self.pkid + 1 };
        self.pkid
    }

    fn sub(&mut self, c: usize, f: usize, qos: u8) -> R {
        if self.conns[c].is_none() {
            return Ok(());
        }
        if self.conns[c].as_ref().unwrap().subs.contains_key(&f) {
            return Ok(()); // no re-subscription here (known double count)
        }
        // `t` and `$share/g/t` of one client share a filter_idx (known): keep them apart
        let lf = log_filter(FILTERS[f]);
        if self.conns[c]
            .as_ref()
            .unwrap()
            .subs
            .keys()
            .any(|o| log_filter(FILTERS[*o]) == lf && !self.allow_dup_plain)
        {
            return Ok(());
        }
        self.drain(c, usize::MAX)?;
        let pkid = self.next_pkid();
        let path = FILTERS[f].to_string();
        if path.starts_with("$share/") {
            let grp = self.groups.entry(f).or_default();
            grp.members.insert(c);
        }
        self.conns[c]
            .as_mut()
            .unwrap()
            .subs
            .insert(f, (qos, vec![], 0));
        self.send(
            c,
            vec![Packet::Subscribe(
                Subscribe {
                    pkid,
                    filters: vec![protocol::Filter {
                        path,
                        qos: protocol::qos(qos).unwrap(),
                        nolocal: false,
                        preserve_retain: false,
                        retain_forward_rule: RetainForwardRule::OnEverySubscribe,
                    }],
                },
                Some(SubscribeProperties {
                    id: Some(f + 1),
                    user_properties: vec![],
                }),
            )],
        )
    }

    fn unsub(&mut self, c: usize, f: usize) -> R {
        if self.conns[c].is_none() || !self.conns[c].as_ref().unwrap().subs.contains_key(&f) {
            return Ok(());
        }
        self.drain(c, usize::MAX)?;
        let pkid = self.next_pkid();
        self.conns[c].as_mut().unwrap().subs.remove(&f);
        if let Some(grp) = self.groups.get_mut(&f) {
            grp.members.remove(&c);
            grp.last_idx.remove(&c);
            if grp.members.is_empty() {
                self.groups.remove(&f);
            }
        }
        self.send(
            c,
            vec![Packet::Unsubscribe(
                Unsubscribe {
                    pkid,
                    filters: vec![FILTERS[f].to_string()],
                },
                None,
            )],
        )
    }

    fn publish(&mut self, c: usize, t: usize, qos: u8, count: usize) -> R {
        if self.conns[c].is_none() {
            return Ok(());
        }
        let topic = TOPICS[t];
        let mut packets = vec![];
        for _ in 0..count {
            let id = self.next_msg;
            self.next_msg += 1;
            self.topics.insert(id, topic.to_string());
            for (g, grp) in self.groups.iter_mut() {
                if mt(topic, log_filter(FILTERS[*g])) {
                    grp.gq.push(id);
                }
            }
            for conn in self.conns.iter_mut().flatten() {
                for (f, (_, q, _)) in conn.subs.iter_mut() {
                    if !FILTERS[*f].starts_with("$share/") && mt(topic, FILTERS[*f]) {
                        q.push(id);
                    }
                }
            }
            let pkid = if qos == 0 { 0 } else { self.next_pkid() };
            packets.push(Packet::Publish(
                Publish {
                    dup: false,
                    qos: protocol::qos(qos).unwrap(),
                    pkid,
                    retain: false,
                    topic: Bytes::from(topic),
                    payload: Bytes::from(id.to_be_bytes().to_vec()),
                },
                None,
            ));
        }
        self.drain(c, usize::MAX)?;
        self.send(c, packets)
    }

    fn drain(&mut self, c: usize, n: usize) -> Result<usize, String> {
        let Some(conn) = self.conns[c].as_mut() else {
            return Ok(0);
        };
        let notifs: Vec<Notification> = {
            let mut b = conn.obuf.lock();
            let k = n.min(b.len());
            b.drain(..k).collect()
        };
        let count = notifs.len();
        for n in notifs {
            match n {
                Notification::Unschedule => conn.need_ready = true,
                Notification::DeviceAck(Ack::PubRel(p)) => conn.pend_comp.push_back(p.pkid),
                Notification::DeviceAck(_) => {}
                Notification::Forward(f) => {
                    let id = u64::from_be_bytes(f.publish.payload[..8].try_into().unwrap());
                    let topic = String::from_utf8(f.publish.topic.to_vec()).unwrap();
                    if self.topics.get(&id) != Some(&topic) {
                        return Err(format!("c{c}: message {id} with topic {topic}"));
                    }
                    let subids = f
                        .properties
                        .as_ref()
                        .map(|p| p.subscription_identifiers.clone())
                        .unwrap_or_default();
                    if subids.len() != 1 {
                        return Err(format!("c{c}: message {id} with sub ids {subids:?}"));
                    }
                    let fi = subids[0] - 1;
                    let qos = f.publish.qos as u8;
                    let Some((sq, queue, next)) = conn.subs.get_mut(&fi) else {
                        return Err(format!(
                            "c{c}: message {id} through {} which it has not subscribed",
                            FILTERS[fi]
                        ));
                    };
                    if *sq != qos {
                        return Err(format!("c{c}: message {id} qos {qos}, granted {sq}"));
                    }
                    if !mt(&topic, log_filter(FILTERS[fi])) {
                        return Err(format!("c{c}: message {id} on {topic} via {}", FILTERS[fi]));
                    }
                    if FILTERS[fi].starts_with("$share/") {
                        let grp = self.groups.get_mut(&fi).ok_or("model: no group")?;
                        if !grp.members.contains(&c) {
                            return Err(format!("c{c}: not a member of {}", FILTERS[fi]));
                        }
                        let Some(idx) = grp.gq.iter().position(|m| *m == id) else {
                            return Err(format!(
                                "c{c}: message {id} via {} was accepted before the group existed",
                                FILTERS[fi]
                            ));
                        };
                        if let Some(other) = grp.delivered.get(&id) {
                            return Err(format!(
                                "c{c}: message {id} via {} was already forwarded to c{other}",
                                FILTERS[fi]
                            ));
                        }
                        if let Some(last) = grp.last_idx.get(&c) {
                            if *last >= idx {
                                return Err(format!(
                                    "c{c}: message {id} via {} out of order",
                                    FILTERS[fi]
                                ));
                            }
                        }
                        grp.delivered.insert(id, c);
                        grp.last_idx.insert(c, idx);
                    } else {
                        if queue.get(*next) != Some(&id) {
                            return Err(format!(
                                "c{c}: message {id} via {} but expected {:?}",
                                FILTERS[fi],
                                queue.get(*next)
                            ));
                        }
                        *next += 1;
                    }
                    if qos > 0 {
                        if f.publish.pkid == 0
                            || conn.inflight.iter().any(|(p, _)| *p == f.publish.pkid)
                        {
                            return Err(format!("c{c}: bad pkid {}", f.publish.pkid));
                        }
                        conn.inflight.push_back((f.publish.pkid, qos));
                        if conn.inflight.len() > 100 {
                            return Err(format!("c{c}: window overrun"));
                        }
                    }
                }
                other => return Err(format!("c{c}: unexpected {other:?}")),
            }
        }
        Ok(count)
    }

    fn ack(&mut self, c: usize, n: usize) -> Result<usize, String> {
        let Some(conn) = self.conns[c].as_mut() else {
            return Ok(0);
        };
        let mut packets = vec![];
        while let Some(p) = conn.pend_comp.pop_front() {
            packets.push(Packet::PubComp(
                PubComp {
                    pkid: p,
                    reason: PubCompReason::Success,
                },
                None,
            ));
        }
        for _ in 0..n {
            let Some((pkid, qos)) = conn.inflight.pop_front() else {
                break;
            };
            if qos == 1 {
                packets.push(Packet::PubAck(
                    PubAck {
                        pkid,
                        reason: PubAckReason::Success,
                    },
                    None,
                ));
            } else {
                packets.push(Packet::PubRec(
                    PubRec {
                        pkid,
                        reason: PubRecReason::Success,
                    },
                    None,
                ));
            }
        }
        let k = packets.len();
        if k > 0 {
            self.send(c, packets)?;
        }
        Ok(k)
    }

    fn ready(&mut self, c: usize) -> R {
        let Some(conn) = self.conns[c].as_mut() else {
            return Ok(());
        };
        if conn.need_ready {
            conn.need_ready = false;
            let id = conn.id;
            self.router.events(id, Event::Ready);
            self.settle()?;
        }
        Ok(())
    }

    fn quiesce(&mut self) -> R {
        for _ in 0..3000 {
            let mut progress = 0;
            for c in 0..self.conns.len() {
                progress += self.drain(c, usize::MAX)?;
                progress += self.ack(c, usize::MAX)?;
                if self.conns[c].as_ref().is_some_and(|c| c.need_ready) {
                    self.ready(c)?;
                    progress += 1;
                }
            }
            self.settle()?;
            if progress == 0 {
                break;
            }
        }
        for (g, grp) in self.groups.iter() {
            let missing: Vec<u64> = grp
                .gq
                .iter()
                .filter(|m| !grp.delivered.contains_key(m))
                .copied()
                .collect();
            if !missing.is_empty() {
                return Err(format!(
                    "group {} (members {:?}) idle but never forwarded {:?}",
                    FILTERS[*g], grp.members, missing
                ));
            }
        }
        for (c, conn) in self.conns.iter().enumerate() {
            let Some(conn) = conn else { continue };
            for (f, (_, q, next)) in conn.subs.iter() {
                if !FILTERS[*f].starts_with("$share/") && *next != q.len() {
                    return Err(format!(
                        "c{c}: idle but {} undelivered {:?}",
                        FILTERS[*f],
                        &q[*next..]
                    ));
                }
            }
        }
        Ok(())
    }

    fn step(&mut self, a: &A) -> R {
        match a {
            A::Connect(c) => self.connect(*c),
            A::Disconnect(c, k) => self.disconnect(*c, *k),
            A::Sub(c, f, q) => self.sub(*c, *f, *q),
            A::Unsub(c, f) => self.unsub(*c, *f),
            A::Pub(c, t, q, n) => self.publish(*c, *t, *q, *n),
            A::Drain(c, n) => self.drain(*c, *n).map(|_| ()),
            A::Ack(c, n) => self.ack(*c, *n).map(|_| ()),
            A::Ready(c) => self.ready(*c),
            A::Quiesce => self.quiesce(),
        }
    }
}

pub fn run(strategy: &Strategy, n: usize, out: u64, actions: &[A]) -> R {
    let reps: usize = std::env::var("REPS")
        .ok()
        .and_then(|v| v.parse().ok())
        .unwrap_or(1);
    for _ in 0..reps {
        let strategy = strategy.clone();
        let actions = actions.to_vec();
        let r = std::panic::catch_unwind(std::panic::AssertUnwindSafe(move || {
            let mut h = H::new(strategy, n, out);
            h.allow_dup_plain = std::env::var("DUP_PLAIN").is_ok();
            for (i, a) in actions.iter().enumerate() {
                h.step(a).map_err(|e| format!("at step {i} {a:?}: {e}"))?;
            }
            h.quiesce().map_err(|e| format!("at final quiesce: {e}"))
        }));
        match r {
            Ok(r) => r?,
            Err(p) => {
                let msg = p
                    .downcast_ref::<String>()
                    .cloned()
                    .or_else(|| p.downcast_ref::<&str>().map(|s| s.to_string()))
                    .unwrap_or_default();
                return Err(format!("PANIC: {msg}"));
            }
        }
    }
    Ok(())
}

fn shrink(strategy: &Strategy, n: usize, out: u64, mut actions: Vec<A>) -> Vec<A> {
    let mut chunk = actions.len() / 2;
    while chunk >= 1 {
        let mut i = 0;
        while i + chunk <= actions.len() {
            let mut cand = actions.clone();
            cand.drain(i..i + chunk);
            if run(strategy, n, out, &cand).is_err() {
                actions = cand;
            } else {
                i += chunk;
            }
        }
        chunk /= 2;
    }
    actions
}

fn gen(rng: &mut StdRng, n: usize, len: usize, qmax: u8) -> Vec<A> {
    let mut v: Vec<A> = (0..n).map(A::Connect).collect();
    for _ in 0..len {
        let c = rng.gen_range(0..n);
        let r = rng.gen_range(0..100);
        v.push(if r < 22 {
            A::Sub(c, rng.gen_range(0..FILTERS.len()), rng.gen_range(0..=qmax))
        } else if r < 30 {
            A::Unsub(c, rng.gen_range(0..FILTERS.len()))
        } else if r < 60 {
            let cnt = if rng.gen_bool(0.6) {
                rng.gen_range(1..4)
            } else {
                rng.gen_range(4..250)
            };
            A::Pub(c, rng.gen_range(0..TOPICS.len()), rng.gen_range(0..=qmax.min(1)), cnt)
        } else if r < 72 {
            A::Drain(c, rng.gen_range(1..300))
        } else if r < 84 {
            A::Ack(c, rng.gen_range(1..120))
        } else if r < 87 {
            A::Ready(c)
        } else if r < 92 {
            A::Disconnect(c, rng.gen_range(0..2))
        } else if r < 96 {
            A::Connect(c)
        } else {
            A::Quiesce
        });
    }
    v
}

fn env<T: std::str::FromStr>(k: &str, d: T) -> T {
    std::env::var(k).ok().and_then(|v| v.parse().ok()).unwrap_or(d)
}

#[test]
fn sh_env() {
    std::panic::set_hook(Box::new(|_| {}));
    let strategy = match env("STRATEGY", 0) {
        0 => Strategy::RoundRobin,
        1 => Strategy::Random,
        _ => Strategy::Sticky,
    };
    let n = env("NCLIENTS", 3);
    let out = env("OUT_COUNT", 1024u64);
    let len = env("LEN", 50);
    let qmax = env("QOS_MAX", 2u8);
    let from = env("FROM", 0u64);
    let cnt = env("N", 1000u64);
    let mut fails = 0;
    for seed in from..from + cnt {
        let mut rng = StdRng::seed_from_u64(seed);
        let actions = gen(&mut rng, n, len, qmax);
        if let Err(e) = run(&strategy, n, out, &actions) {
            fails += 1;
            if fails <= 3 {
                println!("==== seed {seed} failing: {}", &e[..e.len().min(500)]);
                let small = shrink(&strategy, n, out, actions);
                println!("  shrunk: {:?}", run(&strategy, n, out, &small));
                for a in &small {
                    println!("    {a:?}");
                }
            }
        }
    }
    println!("==== shared {strategy:?} failures: {fails}");
    assert_eq!(fails, 0);
}
