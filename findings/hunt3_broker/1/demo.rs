
#[cfg(test)]
mod hunt_1 {
    // C15: a retained message with a message expiry interval is thrown away long before it
    // expires, because every look at the retained store (ANY new subscription of ANY client,
    // whatever its filter) subtracts the message's age from the STORED interval again.
    //
    // Correct behaviour: a retained message published with `message_expiry_interval = 4` is
    // handed to every new matching subscription made during the 4 seconds after it was
    // accepted (with the remaining lifetime, i.e. 4 - age), and only later ones miss it.
    use super::*;
    use crate::protocol::{RetainForwardRule, Subscribe};
    use std::time::Duration;

    fn config() -> RouterConfig {
        RouterConfig {
            max_segment_size: 1024 * 1024,
            max_connections: 10,
            max_segment_count: 10,
            max_outgoing_packet_count: 1024,
            custom_segment: None,
            initialized_filters: None,
            shared_subscriptions_strategy: Default::default(),
        }
    }

    type In = std::sync::Arc<parking_lot::Mutex<VecDeque<Packet>>>;
    type Out = std::sync::Arc<parking_lot::Mutex<VecDeque<Notification>>>;

    fn settle(router: &mut Router) {
        for _ in 0..3000 {
            if router.consume().is_none() {
                break;
            }
        }
    }

    fn connect(router: &mut Router, name: &str) -> (ConnectionId, In, Out, Receiver<()>) {
        let connection = Connection::new(None, name.to_owned(), true, false);
        let incoming = Incoming::new(connection.client_id.to_owned());
        let (outgoing, rx) = Outgoing::new(connection.client_id.to_owned());
        let ibuf = incoming.buffer();
        let obuf = outgoing.buffer();
        router.events(
            0,
            Event::Connect {
                connection,
                incoming,
                outgoing,
            },
        );
        settle(router);
        let id = *router.connection_map.get(name).unwrap();
        (id, ibuf, obuf, rx)
    }

    fn send(router: &mut Router, id: ConnectionId, ibuf: &In, packet: Packet) {
        ibuf.lock().push_back(packet);
        router.events(id, Event::DeviceData);
        settle(router);
    }

    fn subscribe(path: &str) -> Packet {
        Packet::Subscribe(
            Subscribe {
                pkid: 1,
                filters: vec![protocol::Filter {
                    path: path.to_owned(),
                    qos: QoS::AtMostOnce,
                    nolocal: false,
                    preserve_retain: false,
                    retain_forward_rule: RetainForwardRule::OnEverySubscribe,
                }],
            },
            None,
        )
    }

    /// (payload, retain flag, remaining expiry) of everything forwarded
    fn forwards(obuf: &Out) -> Vec<(Vec<u8>, bool, Option<u32>)> {
        obuf.lock()
            .drain(..)
            .filter_map(|n| match n {
                Notification::Forward(f) => Some((
                    f.publish.payload.to_vec(),
                    f.publish.retain,
                    f.properties.and_then(|p| p.message_expiry_interval),
                )),
                _ => None,
            })
            .collect()
    }

    #[test]
    fn retained_message_is_dropped_before_its_expiry() {
        let mut router = Router::new(0, config());
        let (publisher, pub_in, _pub_out, _rx0) = connect(&mut router, "publisher");

        // t = 0: retained message that lives for 4 seconds
        let publish = Publish {
            dup: false,
            qos: QoS::AtMostOnce,
            pkid: 0,
            retain: true,
            topic: "status/door".into(),
            payload: "open".into(),
        };
        let properties = PublishProperties {
            message_expiry_interval: Some(4),
            ..Default::default()
        };
        send(
            &mut router,
            publisher,
            &pub_in,
            Packet::Publish(publish, Some(properties)),
        );

        // t = 1.1s: somebody subscribes to something completely unrelated
        std::thread::sleep(Duration::from_millis(1100));
        let (a, a_in, a_out, _rx1) = connect(&mut router, "a");
        send(&mut router, a, &a_in, subscribe("unrelated/topic"));
        assert!(forwards(&a_out).is_empty());

        // t = 2.2s: the message is 2 seconds old and has 2 more seconds to live
        std::thread::sleep(Duration::from_millis(1100));
        let (b, b_in, b_out, _rx2) = connect(&mut router, "b");
        send(&mut router, b, &b_in, subscribe("status/door"));
        let got_b = forwards(&b_out);

        // t = 3.3s: 3 seconds old, still 1 second to live
        std::thread::sleep(Duration::from_millis(1100));
        let (c, c_in, c_out, _rx3) = connect(&mut router, "c");
        send(&mut router, c, &c_in, subscribe("status/+"));
        let got_c = forwards(&c_out);

        println!("subscriber b (message age 2s of 4s) got {got_b:?}");
        println!("subscriber c (message age 3s of 4s) got {got_c:?}");

        // C15: both are new subscriptions matching the topic of a retained message that has
        // not expired yet
        let seen = |got: &Vec<(Vec<u8>, bool, Option<u32>)>| {
            got.iter().map(|(p, r, _)| (p.clone(), *r)).collect::<Vec<_>>()
        };
        assert_eq!(
            seen(&got_b),
            vec![(b"open".to_vec(), true)],
            "new subscription 2s after a retained publish that lives 4s"
        );
        assert_eq!(
            seen(&got_c),
            vec![(b"open".to_vec(), true)],
            "new subscription 3s after a retained publish that lives 4s"
        );
        // and the lifetime that is left is the original one minus the age
        assert_eq!(got_b[0].2, Some(2));
        assert_eq!(got_c[0].2, Some(1));
    }
}
