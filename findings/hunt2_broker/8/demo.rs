
#[cfg(test)]
mod hunt_8 {
    use super::*;

    #[derive(Clone)]
    struct E(u64);
    impl Storage for E {
        fn size(&self) -> usize {
            300
        }
    }

    // C13. Read "everything from this entry on" (count = u64::MAX) from an offset the log issued
    // that is not the first entry of its segment.
    // Correct: returns the retained entries from there, no panic.
    #[test]
    fn read_with_very_large_count_does_not_panic() {
        let mut log: CommitLog<E> = CommitLog::new(1024, 2).unwrap();
        for i in 0..3 {
            log.append(E(i));
        }
        let mut first = vec![];
        log.readv((0, 0), 2, &mut first).unwrap();
        let cursor = first[1].1; // offset of the second entry, issued by the log
        let mut out = vec![];
        let position = log.readv(cursor, u64::MAX, &mut out).unwrap();
        assert_eq!(out.iter().map(|(e, _)| e.0).collect::<Vec<_>>(), vec![1, 2]);
        assert!(matches!(position, Position::Done { .. }));
    }
}
