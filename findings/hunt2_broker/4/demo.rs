
#[cfg(test)]
#[allow(dead_code, unused_imports, unused_variables, unused_mut)]
mod hunt_4 {
    use super::*;
    use crate::protocol::{RetainForwardRule, Subscribe, Unsubscribe};
    use parking_lot::Mutex;
    use bytes::Bytes;
    use std::sync::Arc;

    pub struct Client {
        pub name: String,
        pub id: ConnectionId,
        pub ibuf: Arc<Mutex<VecDeque<Packet>>>,
        pub obuf: Arc<Mutex<VecDeque<Notification>>>,
        pub rx: Receiver<()>,
    }

    pub fn router() -> Router {
        Router::new(
            0,
            RouterConfig {
                max_segment_size: 1024 * 1024,
                max_connections: 10,
                max_segment_count: 10,
                max_outgoing_packet_count: 1024,
                custom_segment: None,
                initialized_filters: None,
                shared_subscriptions_strategy: Default::default(),
            },
        )
    }

    pub fn run(r: &mut Router) {
        for _ in 0..3000 {
            if r.consume().is_none() {
                break;
            }
        }
    }

    pub fn connect_full(
        r: &mut Router,
        tenant: Option<String>,
        name: &str,
        clean: bool,
        will: Option<LastWill>,
    ) -> Option<Client> {
        let mut connection = Connection::new(tenant, name.to_owned(), clean, false);
        connection.last_will(will, None);
        let cid = connection.client_id.clone();
        let incoming = Incoming::new(connection.client_id.to_owned());
        let (outgoing, rx) = Outgoing::new(connection.client_id.to_owned());
        let ibuf = incoming.buffer();
        let obuf = outgoing.buffer();
        r.events(
            0,
            Event::Connect {
                connection,
                incoming,
                outgoing,
            },
        );
        run(r);
        // the link learns its id from the CONNACK
        let id = obuf.lock().iter().find_map(|n| match n {
            Notification::DeviceAck(crate::router::Ack::ConnAck(id, ..)) => Some(*id),
            _ => None,
        })?;
        Some(Client {
            name: cid,
            id,
            ibuf,
            obuf,
            rx,
        })
    }

    pub fn connect(r: &mut Router, name: &str, clean: bool) -> Client {
        connect_full(r, None, name, clean, None).unwrap()
    }

    pub fn send(r: &mut Router, c: &Client, packets: Vec<Packet>) {
        c.ibuf.lock().extend(packets);
        r.events(c.id, Event::DeviceData);
        run(r);
    }

    pub fn drain(c: &Client) -> Vec<Notification> {
        c.obuf.lock().drain(..).collect()
    }

    pub fn forwards(c: &Client) -> Vec<Forward> {
        drain(c)
            .into_iter()
            .filter_map(|n| match n {
                Notification::Forward(f) => Some(f),
                _ => None,
            })
            .collect()
    }

    pub fn sub(path: &str, qos: QoS, pkid: u16) -> Packet {
        Packet::Subscribe(
            Subscribe {
                pkid,
                filters: vec![protocol::Filter {
                    path: path.to_owned(),
                    qos,
                    nolocal: false,
                    preserve_retain: false,
                    retain_forward_rule: RetainForwardRule::OnEverySubscribe,
                }],
            },
            None,
        )
    }

    pub fn unsub(path: &str, pkid: u16) -> Packet {
        Packet::Unsubscribe(
            Unsubscribe {
                pkid,
                filters: vec![path.to_owned()],
            },
            None,
        )
    }

    pub fn publish(topic: &str, payload: &str, qos: QoS, pkid: u16, retain: bool) -> Packet {
        Packet::Publish(
            Publish {
                dup: false,
                qos,
                retain,
                topic: topic.to_owned().into(),
                pkid,
                payload: payload.to_owned().into(),
            },
            None,
        )
    }

    pub fn puback(pkid: u16) -> Packet {
        Packet::PubAck(
            PubAck {
                pkid,
                reason: PubAckReason::Success,
            },
            None,
        )
    }
    pub fn pubrec(pkid: u16) -> Packet {
        Packet::PubRec(
            PubRec {
                pkid,
                reason: PubRecReason::Success,
            },
            None,
        )
    }
    pub fn pubrel(pkid: u16) -> Packet {
        Packet::PubRel(
            PubRel {
                pkid,
                reason: PubRelReason::Success,
            },
            None,
        )
    }
    pub fn pubcomp(pkid: u16) -> Packet {
        Packet::PubComp(
            PubComp {
                pkid,
                reason: PubCompReason::Success,
            },
            None,
        )
    }

    pub fn payloads(fs: &[Forward]) -> Vec<String> {
        fs.iter()
            .map(|f| String::from_utf8_lossy(&f.publish.payload).to_string())
            .collect()
    }

    pub fn session_present(ns: &[Notification]) -> Option<bool> {
        ns.iter().find_map(|n| match n {
            Notification::DeviceAck(crate::router::Ack::ConnAck(_, ack, _)) => Some(ack.session_present),
            _ => None,
        })
    }

    // C08 / C14. QoS 1 subscription on "t", one delivery left unacknowledged, UNSUBSCRIBE,
    // a message is published while the client has no subscription, SUBSCRIBE again, one more
    // delivery, link failure, resume.
    // Correct: the resumed session must not deliver the message that was published while the
    // client was not subscribed.
    #[test]
    fn resume_does_not_deliver_what_was_published_while_unsubscribed() {
        let mut r = router();
        let s = connect(&mut r, "s", false);
        let p = connect(&mut r, "pub", true);
        send(&mut r, &s, vec![sub("t", QoS::AtLeastOnce, 1)]);
        send(&mut r, &p, vec![publish("t", "m1", QoS::AtMostOnce, 0, false)]);
        assert_eq!(payloads(&forwards(&s)), vec!["m1"]); // m1 stays unacknowledged

        send(&mut r, &s, vec![unsub("t", 2)]);
        send(&mut r, &p, vec![publish("t", "m2-while-unsubscribed", QoS::AtMostOnce, 0, false)]);
        assert!(forwards(&s).is_empty());

        send(&mut r, &s, vec![sub("t", QoS::AtLeastOnce, 3)]);
        send(&mut r, &p, vec![publish("t", "m3", QoS::AtMostOnce, 0, false)]);
        assert_eq!(payloads(&forwards(&s)), vec!["m3"]);

        r.events(s.id, Event::Disconnect);
        run(&mut r);
        let s2 = connect(&mut r, "s", false);
        let got = payloads(&forwards(&s2));
        println!("delivered after resume: {got:?}");
        assert!(got.contains(&"m3".to_owned()), "unacknowledged m3 is sent again");
        assert!(
            !got.contains(&"m2-while-unsubscribed".to_owned()),
            "a message published while the client had no subscription was delivered"
        );
    }

}
