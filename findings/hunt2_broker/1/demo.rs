
#[cfg(test)]
mod hunt_1 {
    use super::*;
    use crate::protocol::Connect;
    use crate::RouterConfig;
    use bytes::BytesMut;
    use tokio::io::{AsyncReadExt, AsyncWriteExt, DuplexStream};

    type Handlers = Arc<Mutex<HashMap<String, Sender<AwaitingWill>>>>;

    fn start_router(max_connections: usize) -> Sender<(ConnectionId, Event)> {
        Router::new(
            0,
            RouterConfig {
                max_segment_size: 1024 * 1024,
                max_connections,
                max_segment_count: 10,
                max_outgoing_packet_count: 1024,
                custom_segment: None,
                initialized_filters: None,
                shared_subscriptions_strategy: Default::default(),
            },
        )
        .spawn()
    }

    fn settings() -> Arc<ConnectionSettings> {
        Arc::new(ConnectionSettings {
            connection_timeout_ms: 500,
            max_payload_size: 10240,
            max_inflight_count: 100,
            auth: None,
            external_auth: None,
            dynamic_filters: false,
        })
    }

    /// One network connection that sends CONNECT; returns the client end, the server task and
    /// whether a successful CONNACK came back
    async fn dial(
        client_id: &str,
        router_tx: &Sender<(ConnectionId, Event)>,
        handlers: &Handlers,
    ) -> (DuplexStream, tokio::task::JoinHandle<()>, bool) {
        let (mut client, server) = tokio::io::duplex(64 * 1024);
        let mut bytes = BytesMut::new();
        let connect = Connect { keep_alive: 30, client_id: client_id.to_owned(), clean_session: true };
        V4.write(Packet::Connect(connect, None, None, None, None), &mut bytes).unwrap();
        client.write_all(&bytes).await.unwrap();
        let task = tokio::spawn(remote(settings(), None, router_tx.clone(), Box::new(server), V4, handlers.clone()));
        let mut connack = [0u8; 4];
        let ok = match time::timeout(Duration::from_millis(1500), client.read_exact(&mut connack)).await {
            Ok(Ok(_)) => connack == [0x20, 2, 0, 0],
            _ => false,
        };
        (client, task, ok)
    }

    // C03 (and C19, C16). History 1: a client sends CONNECT with a client id the router refuses
    // ("bad/id") twice. History 2: the broker is full (max_connections), a client is turned away
    // and tries again; later there is room. In both, a well-behaved client with another client id
    // connects afterwards.
    // Correct: the refused client is the only one affected; the other client gets its CONNACK.

    // A client whose CONNECT the router refuses (here: client id with a topic metacharacter; the
    // same happens when max_connections is reached) and that simply tries again must not be able
    // to stop the listener from admitting other clients.
    #[tokio::test]
    async fn refused_client_retrying_must_not_stop_admission() {
        let router_tx = start_router(10);
        let handlers: Handlers = Arc::new(Mutex::new(HashMap::default()));

        let (_c0, _t0, ok) = dial("good-before", &router_tx, &handlers).await;
        assert!(ok, "a valid client is admitted");

        let (_c1, t1, ok) = dial("bad/id", &router_tx, &handlers).await;
        assert!(!ok, "invalid client id gets no successful CONNACK");
        let r1 = t1.await;
        println!("first refused attempt: task result {r1:?}");

        let (_c2, t2, ok) = dial("bad/id", &router_tx, &handlers).await;
        assert!(!ok);
        let r2 = t2.await;
        println!("second refused attempt: task result {r2:?}");

        let (_c3, _t3, ok) = dial("good-after", &router_tx, &handlers).await;
        println!("will_handlers poisoned: {}", handlers.is_poisoned());
        assert!(ok, "a well-behaved client with another client id is no longer admitted");
    }

    // Same with the connection limit: a client turned away because the broker is full retries,
    // later there is room again.
    #[tokio::test]
    async fn full_broker_then_retry_must_not_stop_admission() {
        let router_tx = start_router(1);
        let handlers: Handlers = Arc::new(Mutex::new(HashMap::default()));
        let (c0, t0, ok) = dial("first", &router_tx, &handlers).await;
        assert!(ok);
        for attempt in 0..2 {
            let (_c, t, ok) = dial("second", &router_tx, &handlers).await;
            assert!(!ok);
            println!("attempt {attempt} while full: {:?}", t.await);
        }
        drop(c0);
        println!("first connection task on exit: {:?}", t0.await);
        time::sleep(Duration::from_millis(100)).await;
        let (_c, _t, ok) = dial("third", &router_tx, &handlers).await;
        println!("will_handlers poisoned: {}", handlers.is_poisoned());
        assert!(ok, "room again, but nobody is admitted any more");
    }
}
