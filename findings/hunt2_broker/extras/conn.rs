
#[cfg(test)]
mod hunt_conn {
    use super::*;
    use crate::protocol::v4::V4;
    use crate::protocol::v5::V5;
    use crate::protocol::{Login, PingReq};
    use bytes::BytesMut;
    use std::collections::HashMap;
    use tokio::io::{AsyncReadExt, AsyncWriteExt};

    fn settings(auth: Option<HashMap<String, String>>) -> Arc<ConnectionSettings> {
        Arc::new(ConnectionSettings {
            connection_timeout_ms: 200,
            max_payload_size: 10240,
            max_inflight_count: 100,
            auth,
            external_auth: None,
            dynamic_filters: false,
        })
    }

    fn connect_pkt(id: &str, clean: bool, ka: u16, login: Option<Login>) -> Packet {
        Packet::Connect(Connect { keep_alive: ka, client_id: id.to_owned(), clean_session: clean }, None, None, None, login)
    }

    async fn try_v4(bytes: BytesMut, cfg: Arc<ConnectionSettings>) -> (Result<Packet, Error>, Vec<u8>) {
        let (mut client, server) = tokio::io::duplex(4096);
        client.write_all(&bytes).await.unwrap();
        let mut network = Network::new(Box::new(server), 10240, 100, V4);
        let r = mqtt_connect(cfg, &mut network).await;
        drop(network);
        let mut out = vec![];
        client.read_to_end(&mut out).await.unwrap();
        (r, out)
    }

    fn enc4(p: Packet) -> BytesMut { let mut b = BytesMut::new(); Protocol::write(&V4, p, &mut b).unwrap(); b }
    fn enc5(p: Packet) -> BytesMut { let mut b = BytesMut::new(); Protocol::write(&V5, p, &mut b).unwrap(); b }

    #[tokio::test]
    async fn admission() {
        // ok
        let (r, out) = try_v4(enc4(connect_pkt("a", true, 10, None)), settings(None)).await;
        assert!(r.is_ok()); assert!(out.is_empty());
        // zero keep alive
        let (r, out) = try_v4(enc4(connect_pkt("a", true, 0, None)), settings(None)).await;
        assert!(matches!(r, Err(Error::ZeroKeepAlive))); assert!(out.is_empty());
        // empty id persistent
        let (r, out) = try_v4(enc4(connect_pkt("", false, 10, None)), settings(None)).await;
        assert!(matches!(r, Err(Error::InvalidClientId)));
        assert_eq!(out, vec![0x20, 2, 0, 2]);
        // empty id clean
        let (r, _) = try_v4(enc4(connect_pkt("", true, 10, None)), settings(None)).await;
        assert!(r.is_ok());
        // not connect
        let (r, out) = try_v4(enc4(Packet::PingReq(PingReq)), settings(None)).await;
        assert!(matches!(r, Err(Error::NotConnectPacket(_)))); assert!(out.is_empty());
        // v5 connect at a v4 listener
        let (r, out) = try_v4(enc5(connect_pkt("a", true, 10, None)), settings(None)).await;
        println!("{r:?}");
        assert!(r.is_err()); assert!(out.is_empty());
        // v4 connect at a v5 listener
        {
            let (mut client, server) = tokio::io::duplex(4096);
            client.write_all(&enc4(connect_pkt("a", true, 10, None))).await.unwrap();
            let mut network = Network::new(Box::new(server), 10240, 100, V5);
            let r = mqtt_connect(settings(None), &mut network).await;
            println!("{r:?}");
            assert!(r.is_err());
        }
        // auth
        let mut m = HashMap::new(); m.insert("u".to_owned(), "p".to_owned());
        let (r, out) = try_v4(enc4(connect_pkt("a", true, 10, None)), settings(Some(m.clone()))).await;
        assert!(matches!(r, Err(Error::InvalidAuth))); assert!(out.is_empty());
        for (u, p, ok) in [("u", "p", true), ("u", "", false), ("u", "pp", false), ("", "p", false), ("x", "p", false), ("u", "P", false)] {
            let (r, out) = try_v4(enc4(connect_pkt("a", true, 10, Some(Login { username: u.to_owned(), password: p.to_owned() }))), settings(Some(m.clone()))).await;
            assert_eq!(r.is_ok(), ok, "{u} {p}"); assert!(out.is_empty());
        }
        // auth configured with empty table
        let (r, _) = try_v4(enc4(connect_pkt("a", true, 10, Some(Login { username: "".to_owned(), password: "".to_owned() }))), settings(Some(HashMap::new()))).await;
        assert!(r.is_err());
        // two packets: garbage first
        let (r, _) = try_v4(BytesMut::from(&[0u8, 0][..]), settings(None)).await;
        assert!(r.is_err());
    }
}
