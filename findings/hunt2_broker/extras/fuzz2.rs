    struct Rng(u64);
    impl Rng {
        fn next(&mut self) -> u64 { self.0 ^= self.0 << 13; self.0 ^= self.0 >> 7; self.0 ^= self.0 << 17; self.0 }
        fn below(&mut self, n: u64) -> u64 { self.next() % n }
    }

    // one well-behaved persistent subscriber with several filters, random pacing, random reconnects
    #[test]
    fn fuzz_delivery() {
        let subs: [(&str, QoS); 4] = [("a", QoS::AtLeastOnce), ("b", QoS::ExactlyOnce), ("c/+", QoS::AtLeastOnce), ("d", QoS::AtMostOnce)];
        let topics = ["a", "b", "c/1", "c/2", "d"];
        for seed in 1..=1500u64 {
            let mut rng = Rng(seed.wrapping_mul(0x9E3779B97F4A7C15) | 1);
            let mut r = router();
            let p = connect(&mut r, "pub", true);
            let mut s = connect(&mut r, "s", false);
            drain(&s);
            let mut ps = vec![];
            for (i, (f, q)) in subs.iter().enumerate() { ps.push(sub(f, *q, 1 + i as u16)); }
            send(&mut r, &s, ps);
            let mut published: HashMap<&str, u64> = HashMap::new(); // next number per topic
            let mut unacked: VecDeque<(u16, u8, String)> = VecDeque::new();
            let mut rels: VecDeque<u16> = VecDeque::new();
            let mut acked: HashSet<String> = HashSet::new();
            let mut seen: HashMap<String, Vec<u64>> = HashMap::new(); // topic -> numbers in order of first delivery
            let mut need_ready = false;
            let mut connected = true;
            let steps = 300;
            for step in 0..steps + 900 {
                let finishing = step >= steps;
                let op = if finishing { [2, 3, 5][(step % 3) as usize] } else { rng.below(10) };
                match op {
                    0 | 1 | 6 | 7 => {
                        let big = rng.below(4) == 0; let n = 1 + rng.below(if big { 250 } else { 6 });
                        let mut ps = vec![];
                        for _ in 0..n {
                            let t = topics[rng.below(5) as usize];
                            let k = published.entry(t).or_insert(0);
                            ps.push(publish(t, &format!("{t}#{k}"), QoS::AtMostOnce, 0, false));
                            *k += 1;
                        }
                        send(&mut r, &p, ps);
                    }
                    2 => if connected {
                        // read what the broker handed over
                        for n in drain(&s) {
                            match n {
                                Notification::Forward(f) => {
                                    let pl = String::from_utf8_lossy(&f.publish.payload).to_string();
                                    let topic = String::from_utf8_lossy(&f.publish.topic).to_string();
                                    assert!(!acked.contains(&pl), "seed {seed} step {step}: acknowledged {pl} sent again");
                                    let num: u64 = pl.split('#').nth(1).unwrap().parse().unwrap();
                                    let v = seen.entry(topic.clone()).or_default();
                                    if topic != "d" {
                                        if !v.contains(&num) {
                                            assert_eq!(num, v.len() as u64, "seed {seed} step {step}: gap/out of order on {topic}: {v:?} then {num}");
                                            v.push(num);
                                        }
                                        assert!(f.publish.pkid != 0);
                                        assert!(!unacked.iter().any(|u| u.0 == f.publish.pkid), "seed {seed} step {step} pkid reuse");
                                        unacked.push_back((f.publish.pkid, f.publish.qos as u8, pl));
                                        assert!(unacked.len() <= 100, "seed {seed} window");
                                    }
                                }
                                Notification::DeviceAck(crate::router::Ack::PubRel(pr)) => rels.push_back(pr.pkid),
                                Notification::Unschedule => need_ready = true,
                                _ => {}
                            }
                        }
                    },
                    3 => if connected {
                        let n = if finishing { 1000 } else { 1 + rng.below(130) };
                        let mut ps = vec![];
                        for _ in 0..n {
                            if let Some((pkid, q, pl)) = unacked.pop_front() {
                                acked.insert(pl);
                                ps.push(if q == 1 { puback(pkid) } else { pubrec(pkid) });
                            }
                        }
                        if rng.below(2) == 0 || finishing { while let Some(k) = rels.pop_front() { ps.push(pubcomp(k)); } }
                        send(&mut r, &s, ps);
                        assert_eq!(r.connection_map.get("s"), Some(&s.id), "seed {seed} step {step}: well behaved subscriber was closed");
                    },
                    4 => if connected && need_ready { need_ready = false; r.events(s.id, Event::Ready); run(&mut r); },
                    5 => if finishing || rng.below(3) == 0 {
                        if connected && !finishing {
                            // link failure: everything not yet read is lost, unacked stay unacked at the broker
                            r.events(s.id, Event::Disconnect);
                            run(&mut r);
                            connected = false;
                            unacked.clear();
                            need_ready = false;
                            // PUBRELs already received keep their meaning; those not yet read are replayed
                            rels.clear();
                        } else if !connected {
                            s = connect(&mut r, "s", false);
                            connected = true;
                            let ns: Vec<Notification> = s.obuf.lock().iter().cloned().collect();
                            assert_eq!(session_present(&ns), Some(true));
                        } else if need_ready { need_ready = false; r.events(s.id, Event::Ready); run(&mut r); }
                    },
                    _ => {}
                }
            }
            // everything published on QoS>0 filters must have been delivered and acknowledged
            for t in ["a", "b", "c/1", "c/2"] {
                let want = *published.get(t).unwrap_or(&0);
                let got = seen.get(t).map(|v| v.len() as u64).unwrap_or(0);
                assert_eq!(got, want, "seed {seed}: topic {t} delivered {got} of {want}; unacked {} connected {connected}", unacked.len());
            }
            assert!(unacked.is_empty(), "seed {seed}");
        }
    }
