    fn will(topic: &str, qos: QoS, retain: bool) -> Option<LastWill> {
        Some(LastWill { topic: topic.to_owned().into(), message: "gone".into(), qos, retain })
    }

    #[test]
    fn w1_will_cases() {
        for end in 0..5 {
            for subq in [QoS::AtMostOnce, QoS::AtLeastOnce, QoS::ExactlyOnce] {
                for wq in [QoS::AtMostOnce, QoS::AtLeastOnce, QoS::ExactlyOnce] {
                    let mut r = router();
                    let s = connect(&mut r, "s", true);
                    send(&mut r, &s, vec![sub("w/+", subq, 1)]);
                    drain(&s);
                    let a = connect_full(&mut r, None, "a", true, will("w/a", wq, false)).unwrap();
                    let nowill = connect(&mut r, "n", true);
                    send(&mut r, &a, vec![sub("x", QoS::AtLeastOnce, 1), publish("x", "1", QoS::AtLeastOnce, 1, false)]);
                    let expect = match end {
                        0 => { r.events(a.id, Event::Disconnect); true }
                        1 => { send(&mut r, &a, vec![puback(55)]); assert!(r.connection_map.get("a").is_none()); true }
                        2 => { send(&mut r, &a, vec![Packet::Disconnect(Disconnect { reason_code: DisconnectReasonCode::NormalDisconnection }, None)]); false }
                        3 => { send(&mut r, &a, vec![publish("x", "2", QoS::AtMostOnce, 0, false), Packet::Disconnect(Disconnect { reason_code: DisconnectReasonCode::NormalDisconnection }, None)]); r.events(a.id, Event::Disconnect); false }
                        _ => { send(&mut r, &a, vec![sub("$SYS/#", QoS::AtMostOnce, 3)]); assert!(r.connection_map.get("a").is_none()); true }
                    };
                    run(&mut r);
                    r.events(a.id, Event::PublishWill(("a".to_owned(), None)));
                    run(&mut r);
                    r.events(a.id, Event::PublishWill(("a".to_owned(), None)));
                    run(&mut r);
                    r.events(nowill.id, Event::Disconnect);
                    r.events(nowill.id, Event::PublishWill(("n".to_owned(), None)));
                    run(&mut r);
                    let f = forwards(&s);
                    assert_eq!(f.len(), if expect { 1 } else { 0 }, "end {end} subq {subq:?} wq {wq:?}: {:?}", f);
                    if expect {
                        assert_eq!(&f[0].publish.topic[..], b"w/a");
                        assert_eq!(&f[0].publish.payload[..], b"gone");
                        if subq != QoS::AtMostOnce { assert!(f[0].publish.pkid != 0); }
                        println!("end {end} subq {subq:?} wq {wq:?} -> fwd qos {:?} pkid {}", f[0].publish.qos, f[0].publish.pkid);
                    }
                }
            }
        }
    }

    #[test]
    fn w2_retained_will() {
        let mut r = router();
        let a = connect_full(&mut r, None, "a", true, will("w/a", QoS::AtLeastOnce, true)).unwrap();
        r.events(a.id, Event::Disconnect);
        r.events(a.id, Event::PublishWill(("a".to_owned(), None)));
        run(&mut r);
        let s = connect(&mut r, "s", true);
        send(&mut r, &s, vec![sub("w/+", QoS::AtLeastOnce, 1)]);
        let f = forwards(&s);
        assert_eq!(f.len(), 1);
        assert!(f[0].publish.retain);
        // non-utf8 will topic, empty will topic: no panic
        let b = connect_full(&mut r, None, "b", true, Some(LastWill { topic: Bytes::from_static(&[0xff]), message: "x".into(), qos: QoS::AtMostOnce, retain: true })).unwrap();
        r.events(b.id, Event::Disconnect);
        r.events(b.id, Event::PublishWill(("b".to_owned(), None)));
        run(&mut r);
    }

    // refused connect (capacity) with a will; then its PublishWill
    #[test]
    fn w3_refused_connect_will() {
        let mut r = router();
        let s = connect(&mut r, "s", true);
        send(&mut r, &s, vec![sub("w/+", QoS::AtMostOnce, 1)]);
        drain(&s);
        let mut cs = vec![];
        for i in 0..9 { cs.push(connect(&mut r, &format!("c{i}"), true)); }
        assert!(connect_full(&mut r, None, "late", true, will("w/late", QoS::AtMostOnce, false)).is_none());
        r.events(0, Event::PublishWill(("late".to_owned(), None)));
        run(&mut r);
        assert_eq!(forwards(&s).len(), 0);
        // takeover at capacity works
        let c0 = connect_full(&mut r, None, "c0", true, None);
        assert!(c0.is_some());
        assert_eq!(r.connections.len(), 10);
        // invalid ids
        for bad in ["a+b", "a#", "a/b", "$x"] {
            assert!(connect_full(&mut r, None, bad, true, None).is_none());
        }
    }

    #[test]
    fn s1_clean_alternation() {
        let mut r = router();
        let p = connect(&mut r, "p", false);
        send(&mut r, &p, vec![sub("t", QoS::AtLeastOnce, 1)]);
        r.events(p.id, Event::Disconnect);
        let p = connect(&mut r, "p", true);
        assert_eq!(session_present(&drain(&p)), Some(false));
        let q = connect(&mut r, "q", true);
        send(&mut r, &q, vec![publish("t", "m1", QoS::AtMostOnce, 0, false)]);
        assert_eq!(forwards(&p).len(), 0);
        r.events(p.id, Event::Disconnect);
        let p = connect(&mut r, "p", false);
        let ns = drain(&p);
        assert_eq!(session_present(&ns), Some(false));
        send(&mut r, &q, vec![publish("t", "m2", QoS::AtMostOnce, 0, false)]);
        assert_eq!(forwards(&p).len(), 0);
        // takeover of live persistent by persistent
        send(&mut r, &p, vec![sub("t", QoS::AtLeastOnce, 1)]);
        send(&mut r, &q, vec![publish("t", "m3", QoS::AtMostOnce, 0, false)]);
        assert_eq!(payloads(&forwards(&p)), vec!["m3"]);
        let p2 = connect(&mut r, "p", false);
        let ns = drain(&p2);
        assert_eq!(session_present(&ns), Some(true));
        let f: Vec<String> = ns.iter().filter_map(|n| match n { Notification::Forward(f) => Some(String::from_utf8_lossy(&f.publish.payload).to_string()), _ => None }).collect();
        assert_eq!(f, vec!["m3"]);
        // takeover by clean
        let p3 = connect(&mut r, "p", true);
        let ns = drain(&p3);
        assert_eq!(session_present(&ns), Some(false));
        assert!(ns.iter().all(|n| !matches!(n, Notification::Forward(_))));
        send(&mut r, &q, vec![publish("t", "m4", QoS::AtMostOnce, 0, false)]);
        assert_eq!(forwards(&p3).len(), 0);
    }
