    struct Rng(u64);
    impl Rng {
        fn next(&mut self) -> u64 { self.0 ^= self.0 << 13; self.0 ^= self.0 >> 7; self.0 ^= self.0 << 17; self.0 }
        fn below(&mut self, n: u64) -> u64 { self.next() % n }
        fn pick<T: Copy>(&mut self, v: &[T]) -> T { v[self.below(v.len() as u64) as usize] }
    }

    struct Model { c: Client, unacked: VecDeque<(u16, u8)>, rel: VecDeque<u16>, unsched: bool }

    #[test]
    fn fuzz_router() {
        let names = ["a", "b", "c", "d", "e"];
        let filters = ["t", "u", "+", "#", "a/b", "a/+", "$share/g/t", "$share/h/t", "$share/g/u", "a/#", "", "$share/g/", "$SYS/x", "/", "é/ü", "a/#/b"];
        let topics = ["t", "u", "a/b", "a/c", "", "/", "é/ü", "#", "a/+", "$SYS/x", "$share/g/t"];
        let qoss = [QoS::AtMostOnce, QoS::AtLeastOnce, QoS::ExactlyOnce];
        let seeds: Vec<u64> = (1..=3000).collect();
        for seed in seeds {
            let mut rng = Rng(seed.wrapping_mul(0x9E3779B97F4A7C15) | 1);
            let mut r = Router::new(0, RouterConfig {
                max_segment_size: 1024, max_connections: 4, max_segment_count: 2, max_outgoing_packet_count: 1024,
                custom_segment: None, initialized_filters: None,
                shared_subscriptions_strategy: match seed % 3 { 0 => Strategy::RoundRobin, 1 => Strategy::Sticky, _ => Strategy::Random },
            });
            let mut live: HashMap<String, Model> = HashMap::new();
            let mut keep = vec![];
            for step in 0..400 {
                let name = rng.pick(&names);
                let op = rng.below(37);
                match op {
                    0 | 1 => {
                        let clean = rng.below(2) == 0;
                        let will = if rng.below(2) == 0 { Some(LastWill { topic: rng.pick(&topics).to_owned().into(), message: "will".into(), qos: rng.pick(&qoss), retain: rng.below(2) == 0 }) } else { None };
                        live.remove(name);
                        if let Some(c) = connect_full(&mut r, None, name, clean, will) {
                            live.insert(name.to_owned(), Model { c, unacked: VecDeque::new(), rel: VecDeque::new(), unsched: false });
                        }
                    }
                    2 => {
                        if let Some(m) = live.remove(name) {
                            r.events(m.c.id, Event::Disconnect);
                            if rng.below(2) == 0 { r.events(m.c.id, Event::PublishWill((name.to_owned(), None))); }
                        }
                    }
                    3..=6 => if let Some(m) = live.get(name) {
                        let p = sub(rng.pick(&filters), rng.pick(&qoss), 1 + rng.below(10) as u16);
                        send(&mut r, &m.c, vec![p]);
                    },
                    7 => if let Some(m) = live.get(name) {
                        send(&mut r, &m.c, vec![unsub(rng.pick(&filters), 1 + rng.below(10) as u16)]);
                    },
                    8..=15 => if let Some(m) = live.get(name) {
                        let big = rng.below(5) == 0; let n = 1 + rng.below(if big { 150 } else { 5 });
                        let mut ps = vec![];
                        for i in 0..n {
                            let q = rng.pick(&qoss);
                            ps.push(publish(rng.pick(&topics), &format!("{seed}-{step}-{i}"), q, if q == QoS::AtMostOnce { 0 } else { 1 + rng.below(20) as u16 }, rng.below(8) == 0));
                        }
                        send(&mut r, &m.c, ps);
                    },
                    16..=19 => if let Some(m) = live.get_mut(name) {
                        // well behaved acks
                        let n = 1 + rng.below(120);
                        let mut ps = vec![];
                        for _ in 0..n {
                            if let Some((pkid, q)) = m.unacked.pop_front() {
                                if q == 1 { ps.push(puback(pkid)); } else { ps.push(pubrec(pkid)); }
                            }
                        }
                        while let Some(pkid) = m.rel.pop_front() { ps.push(pubcomp(pkid)); }
                        send(&mut r, &m.c, ps);
                    },
                    20 => if let Some(m) = live.get_mut(name) {
                        let pk = rng.below(102) as u16;
                        let k = rng.below(5);
                        if (k == 0 || k == 1) && m.unacked.front().map(|x| x.0) == Some(pk) { m.unacked.pop_front(); }
                        if k == 3 && m.rel.front() == Some(&pk) { m.rel.pop_front(); }
                        let p = match k { 0 => puback(pk), 1 => pubrec(pk), 2 => pubrel(pk), 3 => pubcomp(pk), _ => Packet::PingReq(crate::protocol::PingReq) };
                        send(&mut r, &m.c, vec![p]);
                    },
                    30..=33 => if let Some(m) = live.get(name) {
                        let q = rng.pick(&qoss);
                        let alias = [0u16, 1, 2, 3, 4096, 4097, 65535][rng.below(7) as usize];
                        let props = PublishProperties { topic_alias: if rng.below(3) == 0 { None } else { Some(alias) }, message_expiry_interval: if rng.below(3) == 0 { Some(rng.below(2) as u32 * 100) } else { None }, subscription_identifiers: if rng.below(10) == 0 { vec![1] } else { vec![] }, ..Default::default() };
                        let topic = if rng.below(2) == 0 { "" } else { rng.pick(&topics) };
                        let p = Packet::Publish(Publish { dup: false, qos: q, retain: rng.below(4) == 0, topic: topic.to_owned().into(), pkid: if q == QoS::AtMostOnce { 0 } else { 5 }, payload: "v5".into() }, Some(props));
                        send(&mut r, &m.c, vec![p]);
                    },
                    34 | 35 => if let Some(m) = live.get(name) {
                        let p = Packet::Subscribe(Subscribe { pkid: 2, filters: vec![protocol::Filter { path: rng.pick(&filters).to_owned(), qos: rng.pick(&qoss), nolocal: false, preserve_retain: false, retain_forward_rule: RetainForwardRule::Never }, protocol::Filter { path: rng.pick(&filters).to_owned(), qos: rng.pick(&qoss), nolocal: false, preserve_retain: false, retain_forward_rule: RetainForwardRule::Never }] }, Some(crate::protocol::SubscribeProperties { id: Some(rng.below(3) as usize), user_properties: vec![] }));
                        send(&mut r, &m.c, vec![p]);
                    },
                    21 => if let Some(m) = live.get(name) {
                        let p = Packet::Publish(Publish { dup: false, qos: QoS::AtLeastOnce, retain: rng.below(2) == 0, topic: Bytes::from_static(&[0xff, 0xfe]), pkid: 3, payload: "x".into() }, None);
                        send(&mut r, &m.c, vec![p]);
                    },
                    22 => if let Some(m) = live.get(name) {
                        send(&mut r, &m.c, vec![Packet::Disconnect(Disconnect { reason_code: DisconnectReasonCode::NormalDisconnection }, None), publish("t", "after", QoS::AtMostOnce, 0, false)]);
                    },
                    23 => { let id = rng.below(8) as usize; r.events(id, Event::Ready); }
                    24 => { let id = rng.below(8) as usize; r.events(id, Event::DeviceData); }
                    25 => { let id = rng.below(8) as usize; r.events(id, Event::Shadow(ShadowRequest { filter: rng.pick(&filters).to_owned() })); }
                    26 => { r.events(rng.below(8) as usize, Event::PublishWill((rng.pick(&names).to_owned(), None))); }
                    27 => {
                        let (tx, rx) = flume::bounded(1);
                        r.events(0, Event::NewMeter(tx));
                        let (tx2, rx2) = flume::bounded(1);
                        r.events(0, Event::NewAlert(tx2));
                        if rng.below(2) == 0 { keep.push((rx, rx2)); }
                        r.events(0, Event::SendMeters);
                        r.events(0, Event::SendAlerts);
                    }
                    28 => {
                        // never registered / gone id
                        r.events(7, Event::Disconnect);
                    }
                    _ => {
                        let p = match rng.below(7) { 0 => Print::Config, 1 => Print::Router, 2 => Print::ReadyQueue, 3 => Print::Subscriptions, 4 => Print::Subscription(rng.pick(&filters).to_owned()), 5 => Print::Waiters(rng.pick(&filters).to_owned()), _ => Print::Connection("zzz".to_owned()) };
                        if !matches!(p, Print::Config | Print::Router) { r.events(0, Event::PrintStatus(p)); }
                    }
                }
                run(&mut r);
                // observe
                let mut dead = vec![];
                for (n, m) in live.iter_mut() {
                    if r.connection_map.get(n) != Some(&m.c.id) { dead.push(n.clone()); continue; }
                    for nt in drain(&m.c) {
                        match nt {
                            Notification::Forward(f) => {
                                if f.publish.qos != QoS::AtMostOnce {
                                    assert!(f.publish.pkid != 0, "seed {seed} step {step}: zero pkid");
                                    assert!(!m.unacked.iter().any(|(p, _)| *p == f.publish.pkid), "seed {seed} step {step}: pkid {} reused while unacked", f.publish.pkid);
                                    m.unacked.push_back((f.publish.pkid, f.publish.qos as u8));
                                    assert!(m.unacked.len() <= 100, "seed {seed} step {step}: window {}", m.unacked.len());
                                }
                            }
                            Notification::DeviceAck(crate::router::Ack::PubRel(p)) => m.rel.push_back(p.pkid),
                            Notification::Unschedule => { r.events(m.c.id, Event::Ready); }
                            _ => {}
                        }
                    }
                }
                run(&mut r);
                for n in dead { live.remove(&n); }
                assert!(r.connections.len() <= 4);
            }
        }
    }
