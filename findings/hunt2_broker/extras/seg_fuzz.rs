
#[cfg(test)]
mod hunt_seg {
    use super::*;

    #[derive(Clone)]
    struct E(u64, usize);
    impl Storage for E {
        fn size(&self) -> usize { self.1 }
    }

    struct Rng(u64);
    impl Rng {
        fn next(&mut self) -> u64 {
            self.0 ^= self.0 << 13; self.0 ^= self.0 >> 7; self.0 ^= self.0 << 17; self.0
        }
        fn below(&mut self, n: u64) -> u64 { self.next() % n }
    }

    #[test]
    fn fuzz_commitlog() {
        for seed in 1..400u64 {
            let mut rng = Rng(seed.wrapping_mul(0x9E3779B97F4A7C15) | 1);
            let max_segs = 1 + rng.below(3) as usize;
            let mut log: CommitLog<E> = CommitLog::new(1024, max_segs).unwrap();
            // model: all entries ever appended with their segment index
            let mut model: Vec<(u64 /*seg*/, u64 /*abs*/)> = vec![];
            let mut cursors: Vec<(u64, u64)> = vec![(0, 0)];
            for _step in 0..300 {
                match rng.below(3) {
                    0 => {
                        let size = match rng.below(4) { 0 => 1, 1 => 100, 2 => 600, _ => 3000 };
                        let abs = model.len() as u64;
                        let ret = log.append(E(abs, size));
                        let (_, tail) = log._head_and_tail();
                        model.push((tail, abs));
                        assert_eq!(ret, (tail, abs + 1));
                        cursors.push(ret);
                        cursors.push(log.next_offset());
                        assert!(log.len() <= max_segs, "too many segments");
                    }
                    _ => {
                        let c = cursors[rng.below(cursors.len() as u64) as usize];
                        let len = match rng.below(5) { 0 => 0, 1 => 1, 2 => 3, 3 => 50, _ => 100000 };
                        let (head, tail) = log._head_and_tail();
                        let mut out = vec![];
                        let pos = log.readv(c, len, &mut out).unwrap();
                        let retained: Vec<(u64, u64)> = model.iter().cloned().filter(|(s, _)| *s >= head).collect();
                        let expected_all: Vec<(u64, u64)> = if c.0 < head { retained.clone() } else {
                            retained.iter().cloned().filter(|(_, a)| *a >= c.1).collect()
                        };
                        let expected: Vec<(u64, u64)> = expected_all.iter().cloned().take(len as usize).collect();
                        let got: Vec<(u64, u64)> = out.iter().map(|(_, o)| *o).collect();
                        let ids: Vec<u64> = out.iter().map(|(e, _)| e.0).collect();
                        assert_eq!(got, expected, "seed {seed} cursor {c:?} len {len} head {head} tail {tail}");
                        assert_eq!(ids, expected.iter().map(|e| e.1).collect::<Vec<_>>());
                        let (end, done) = match pos { Position::Next { end, .. } => (end, false), Position::Done { end, .. } => (end, true) };
                        let remaining = expected_all.len() - expected.len();
                        assert_eq!(done, remaining == 0, "seed {seed} cursor {c:?} len {len} head {head} tail {tail} pos {pos:?} remaining {remaining}");
                        // continuation resumes exactly
                        let mut out2 = vec![];
                        log.readv(end, 1_000_000, &mut out2).unwrap();
                        let got2: Vec<(u64, u64)> = out2.iter().map(|(_, o)| *o).collect();
                        assert_eq!(got2, expected_all[expected.len()..].to_vec(), "continuation seed {seed} cursor {c:?} len {len} end {end:?}");
                        cursors.push(end);
                        cursors.extend(got);
                    }
                }
            }
        }
    }

    #[test]
    fn fabricated_cursors_no_panic() {
        let mut log: CommitLog<E> = CommitLog::new(1024, 2).unwrap();
        for i in 0..50 { log.append(E(i, 300)); }
        let vals = [0u64, 1, 2, 3, 10, 11, 12, 13, 14, 15, 16, 47, 48, 49, 50, 51, u64::MAX - 1, u64::MAX, u64::MAX / 2];
        for a in vals { for b in vals { for len in [0u64, 1, 5, 1000] {
            let mut out = vec![];
            let _ = log.readv((a, b), len, &mut out).unwrap();
        }}}
    }

    #[test]
    fn huge_len() {
        let mut log: CommitLog<E> = CommitLog::new(1024, 2).unwrap();
        for i in 0..50 { log.append(E(i, 300)); }
        let (h, t) = log._head_and_tail();
        let mut out = vec![];
        let first = { let mut o = vec![]; log.readv((0,0), 3, &mut o).unwrap(); o[1].1 };
        let _ = log.readv(first, u64::MAX, &mut out).unwrap();
    }
}
