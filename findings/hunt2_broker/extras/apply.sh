#!/bin/bash
# usage: apply.sh tests_file   -> restores routing.rs and appends harness with tests
set -e
cd /tmp/wt-E1
git checkout -- rumqttd/src
python3 - "$1" <<'PY'
import sys
common=open('/tmp/wt-E1/FOUND/extras/hunt_common.rs').read()
tests=open(sys.argv[1]).read()
out=common.replace('//TESTS', tests).replace('Ack::ConnAck','crate::router::Ack::ConnAck')
open('/tmp/wt-E1/rumqttd/src/router/routing.rs','a').write(out)
PY
