
#[cfg(test)]
mod hunt_dec2 {
    use super::*;
    use crate::protocol::v4::V4;
    use crate::protocol::v5::V5;
    use crate::protocol::*;
    use bytes::{Bytes, BytesMut};

    struct Rng(u64);
    impl Rng {
        fn next(&mut self) -> u64 { self.0 ^= self.0 << 13; self.0 ^= self.0 >> 7; self.0 ^= self.0 << 17; self.0 }
        fn below(&mut self, n: u64) -> u64 { self.next() % n }
    }

    fn up() -> Vec<(String, String)> { vec![("k".to_owned(), "v".to_owned())] }

    fn samples() -> Vec<Packet> {
        let will = LastWill { topic: "w/t".into(), message: "bye".into(), qos: QoS::AtLeastOnce, retain: true };
        let willp = LastWillProperties { delay_interval: Some(5), payload_format_indicator: Some(1), message_expiry_interval: Some(9), content_type: Some("ct".into()), response_topic: Some("r".into()), correlation_data: Some(Bytes::from_static(b"cd")), user_properties: up() };
        let cp = ConnectProperties { session_expiry_interval: Some(10), receive_maximum: Some(5), max_packet_size: Some(1000), topic_alias_max: Some(10), request_response_info: Some(1), request_problem_info: Some(1), user_properties: up(), authentication_method: Some("m".into()), authentication_data: Some(Bytes::from_static(b"d")) };
        let login = Login { username: "u".into(), password: "p".into() };
        let pp = PublishProperties { payload_format_indicator: Some(1), message_expiry_interval: Some(3), topic_alias: Some(2), response_topic: Some("rt".into()), correlation_data: Some(Bytes::from_static(b"c")), user_properties: up(), subscription_identifiers: vec![1, 300], content_type: Some("x".into()) };
        let filt = |p: &str| Filter { path: p.into(), qos: QoS::AtLeastOnce, nolocal: true, preserve_retain: true, retain_forward_rule: RetainForwardRule::OnNewSubscribe };
        vec![
            Packet::Connect(Connect { keep_alive: 10, client_id: "cid".into(), clean_session: false }, Some(cp), Some(will), Some(willp), Some(login)),
            Packet::Publish(Publish { dup: false, qos: QoS::ExactlyOnce, retain: true, topic: "a/b".into(), pkid: 7, payload: "payload".into() }, Some(pp)),
            Packet::Subscribe(Subscribe { pkid: 3, filters: vec![filt("a/+"), filt("$share/g/t")] }, Some(SubscribeProperties { id: Some(200), user_properties: up() })),
            Packet::Unsubscribe(Unsubscribe { pkid: 4, filters: vec!["a/+".into(), "b".into()] }, Some(UnsubscribeProperties { user_properties: up() })),
            Packet::PubAck(PubAck { pkid: 9, reason: PubAckReason::Success }, Some(PubAckProperties { reason_string: Some("r".into()), user_properties: up() })),
            Packet::PubRec(PubRec { pkid: 9, reason: PubRecReason::Success }, Some(PubRecProperties { reason_string: Some("r".into()), user_properties: up() })),
            Packet::PubRel(PubRel { pkid: 9, reason: PubRelReason::Success }, Some(PubRelProperties { reason_string: Some("r".into()), user_properties: up() })),
            Packet::PubComp(PubComp { pkid: 9, reason: PubCompReason::Success }, Some(PubCompProperties { reason_string: Some("r".into()), user_properties: up() })),
            Packet::Disconnect(Disconnect { reason_code: DisconnectReasonCode::NormalDisconnection }, Some(DisconnectProperties { session_expiry_interval: Some(3), reason_string: Some("x".into()), user_properties: up(), server_reference: Some("s".into()) })),
            Packet::PingReq(PingReq),
        ]
    }

    fn strip(p: Packet) -> Packet {
        match p {
            Packet::Connect(c, _, w, _, l) => Packet::Connect(c, None, w, None, l),
            Packet::Publish(p, _) => Packet::Publish(p, None),
            Packet::Subscribe(p, _) => Packet::Subscribe(p, None),
            Packet::Unsubscribe(p, _) => Packet::Unsubscribe(p, None),
            Packet::PubAck(p, _) => Packet::PubAck(p, None),
            Packet::PubRec(p, _) => Packet::PubRec(p, None),
            Packet::PubRel(p, _) => Packet::PubRel(p, None),
            Packet::PubComp(p, _) => Packet::PubComp(p, None),
            Packet::Disconnect(p, _) => Packet::Disconnect(p, None),
            p => p,
        }
    }

    #[test]
    fn mutated_packets_do_not_panic() {
        let mut encs: Vec<Vec<u8>> = vec![];
        for p in samples() {
            let mut b = BytesMut::new();
            V5.write(p.clone(), &mut b).unwrap();
            encs.push(b.to_vec());
            let mut b = BytesMut::new();
            V4.write(strip(p), &mut b).unwrap();
            encs.push(b.to_vec());
        }
        let mut rng = Rng(0xfeed_beef_1234_5671);
        for _ in 0..600_000 {
            let mut v = encs[rng.below(encs.len() as u64) as usize].clone();
            match rng.below(4) {
                0 => { let i = rng.below(v.len() as u64) as usize; v[i] = rng.next() as u8; }
                1 => { for _ in 0..3 { let i = rng.below(v.len() as u64) as usize; v[i] = [0u8, 1, 0x7f, 0x80, 0xff][rng.below(5) as usize]; } }
                2 => { if v.len() > 3 { let cut = 2 + rng.below(v.len() as u64 - 2) as usize; v.truncate(cut); if v.len() - 2 < 128 { v[1] = (v.len() - 2) as u8; } } }
                _ => { let i = 2 + rng.below(v.len() as u64 - 1) as usize; let i = i.min(v.len()); v.insert(i, rng.next() as u8); if v.len() - 2 < 128 && v[1] < 128 { v[1] = (v.len() - 2) as u8; } }
            }
            let mut b4 = BytesMut::from(&v[..]);
            let _ = V4.read_mut(&mut b4, 4096);
            let mut b5 = BytesMut::from(&v[..]);
            let _ = V5.read_mut(&mut b5, 4096);
        }
    }
}
