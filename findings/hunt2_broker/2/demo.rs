
#[cfg(test)]
mod hunt_2 {
    use super::*;
    use crate::protocol::Connect;
    use crate::RouterConfig;
    use bytes::BytesMut;
    use tokio::io::{AsyncReadExt, AsyncWriteExt, DuplexStream};

    type Handlers = Arc<Mutex<HashMap<String, Sender<AwaitingWill>>>>;

    fn start_router(max_connections: usize) -> Sender<(ConnectionId, Event)> {
        Router::new(
            0,
            RouterConfig {
                max_segment_size: 1024 * 1024,
                max_connections,
                max_segment_count: 10,
                max_outgoing_packet_count: 1024,
                custom_segment: None,
                initialized_filters: None,
                shared_subscriptions_strategy: Default::default(),
            },
        )
        .spawn()
    }

    fn settings() -> Arc<ConnectionSettings> {
        Arc::new(ConnectionSettings {
            connection_timeout_ms: 500,
            max_payload_size: 10240,
            max_inflight_count: 100,
            auth: None,
            external_auth: None,
            dynamic_filters: false,
        })
    }

    fn connect_bytes(client_id: &str) -> BytesMut {
        let mut bytes = BytesMut::new();
        let connect = Connect { keep_alive: 30, client_id: client_id.to_owned(), clean_session: true };
        V4.write(Packet::Connect(connect, None, None, None, None), &mut bytes).unwrap();
        bytes
    }

    // C03 / C19 (and C16 for a will registered by such a connection). max_connections = 2.
    // Two peers send CONNECT and are gone before the CONNACK can be written (the write fails).
    // Then a well-behaved client connects.
    // Correct: a connection whose network end is gone is removed from the router; the third
    // client is admitted.

    // A peer that sends CONNECT and goes away before the CONNACK can be written leaves a connection
    // behind in the router that nothing ever removes.
    #[tokio::test]
    async fn connection_lost_before_connack_is_cleaned_up() {
        let router_tx = start_router(2);
        let handlers: Handlers = Arc::new(Mutex::new(HashMap::default()));
        for id in ["gone-1", "gone-2"] {
            let (mut client, server) = tokio::io::duplex(64 * 1024);
            client.write_all(&connect_bytes(id)).await.unwrap();
            drop(client);
            let r = tokio::spawn(remote(settings(), None, router_tx.clone(), Box::new(server), V4, handlers.clone())).await;
            println!("{id}: server task ended: {r:?}");
        }
        time::sleep(Duration::from_millis(100)).await;
        // no network connection is open now; the broker allows 2
        let (mut client, server) = tokio::io::duplex(64 * 1024);
        client.write_all(&connect_bytes("good")).await.unwrap();
        let _task = tokio::spawn(remote(settings(), None, router_tx.clone(), Box::new(server), V4, handlers.clone()));
        let mut connack = [0u8; 4];
        let ok = match time::timeout(Duration::from_millis(1500), client.read_exact(&mut connack)).await {
            Ok(Ok(_)) => connack == [0x20, 2, 0, 0],
            _ => false,
        };
        assert!(ok, "no live connection exists, yet the broker is full");
    }
}
